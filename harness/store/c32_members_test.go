package store

import (
	"context"
	"encoding/json"
	"errors"
	"fmt"
	"net"
	"os"
	"sort"
	"strings"
	"sync"
	"sync/atomic"
	"testing"
	"time"

	"github.com/hashicorp/raft"
	"github.com/rqlite/rqlite/v10/command/proto"
	"github.com/rqlite/rqlite/v10/internal/random"
	kit "github.com/rqlite/rqlite/v10/internal/verifkit"
)

// C32: after any sequence of joins, re-joins, notify-driven bootstraps, removals
// and reaping of unresponsive nodes the configuration never holds two entries
// with the same id or the same address, each node has the role it asked for,
// and a node is reaped only after the timeout configured for its role.
//
// Three parts, all on real Stores (real hashicorp/raft, real network layer on
// loopback):
//
//	hist    a live cluster of three real voters (leader + 2 followers) plus
//	        "ghost" members: ids {a,b} joining from addresses {x,y} on which
//	        nobody listens. Store.Join/Remove only need the leader and a voter
//	        quorum, and 3 real voters out of at most 5 are a quorum, so every
//	        configuration change commits whatever the ghosts' roles are. Every
//	        history up to the depth over {join(id,addr,voter|non-voter), remove(id)}
//	        is run; the configuration of EVERY real node is checked after every step
//	        against a model stepped alongside.
//	notify  every sequence of Notify calls over ids {self,a,b} x addresses
//	        {self,x,y} on a fresh un-bootstrapped Store with BootstrapExpect 2 and 3
//	        (duplicate ids and duplicate addresses included), and live three-node
//	        bootstraps for every order in which the three nodes are notified.
//	reap    the same three-voter cluster with ReapTimeout / ReapReadOnlyTimeout set;
//	        ghosts never answer, so from raft's point of view they are unresponsive
//	        from the moment they are added. Every join history of ghosts up to depth 2
//	        x four timeout settings; a ghost may leave the configuration only when
//	        the timeout of the role it holds has elapsed since the join that added it.
//
// The interleavings inside raft are whatever each run produced; every oracle
// is sound for any schedule (waits are 30 s polls; the only wall-clock
// comparison is "removed EARLIER than a lower bound", which slowness cannot cause).

const (
	c32Poll      = 30 * time.Second
	c32AddrX     = "127.0.0.1:1" // nobody listens on ports 1 and 2
	c32AddrY     = "127.0.0.1:2"
	c32RaftTO    = 1500 * time.Millisecond // heartbeat/election/lease: tolerant of a loaded box
	c32MaxRetry  = 4
	c32Workers   = 10
	c32ReapShort = 2 * time.Second
	c32ReapLong  = 7 * time.Second
)

type c32Op struct {
	Kind  string `json:"op"` // "join" | "remove"
	ID    string `json:"id"`
	Addr  string `json:"addr,omitempty"`
	Voter bool   `json:"voter,omitempty"`
}

func (o c32Op) String() string {
	if o.Kind == "remove" {
		return "remove(" + o.ID + ")"
	}
	return fmt.Sprintf("join(%s,%s,%s)", o.ID, c32AddrName(o.Addr), c32Role(o.Voter))
}

func c32AddrName(a string) string {
	switch a {
	case c32AddrX:
		return "x"
	case c32AddrY:
		return "y"
	}
	return a
}

func c32Role(v bool) string {
	if v {
		return "voter"
	}
	return "nonvoter"
}

type c32Entry struct {
	Addr  string
	Voter bool
}

type c32Config map[string]c32Entry

func (c c32Config) String() string {
	ids := make([]string, 0, len(c))
	for id := range c {
		ids = append(ids, id)
	}
	sort.Strings(ids)
	var sb strings.Builder
	for i, id := range ids {
		if i > 0 {
			sb.WriteByte(' ')
		}
		fmt.Fprintf(&sb, "%s@%s/%s", id, c32AddrName(c[id].Addr), c32Role(c[id].Voter)[:1])
	}
	return "{" + sb.String() + "}"
}

func (c c32Config) equal(o c32Config) bool {
	if len(c) != len(o) {
		return false
	}
	for k, v := range c {
		if ov, ok := o[k]; !ok || ov != v {
			return false
		}
	}
	return true
}

// c32Observe reads the configuration of one node through Store.Nodes() and
// through raft directly, and reports duplicates. Entries are returned as a
// list (a map would hide a duplicate id).
func c32Observe(s *Store) (list []*Server, dupID, dupAddr string, err error) {
	list, err = s.Nodes()
	if err != nil {
		return nil, "", "", err
	}
	f := s.raft.GetConfiguration()
	if err := f.Error(); err != nil {
		return nil, "", "", err
	}
	ids, addrs := map[string]int{}, map[string]int{}
	for _, n := range list {
		ids[n.ID]++
		addrs[n.Addr]++
	}
	for _, rs := range f.Configuration().Servers {
		ids["raft:"+string(rs.ID)]++
		addrs["raft:"+string(rs.Address)]++
	}
	for k, n := range ids {
		if n > 1 {
			dupID = strings.TrimPrefix(k, "raft:")
		}
	}
	for k, n := range addrs {
		if n > 1 {
			dupAddr = strings.TrimPrefix(k, "raft:")
		}
	}
	return list, dupID, dupAddr, nil
}

func c32ToConfig(list []*Server) c32Config {
	c := c32Config{}
	for _, n := range list {
		c[n.ID] = c32Entry{Addr: n.Addr, Voter: n.Suffrage == proto.Suffrage_VOTER}
	}
	return c
}

// c32Cluster is one live cluster of three real voters.
type c32Cluster struct {
	stores []*Store // stores[0] bootstrapped first; the leader is looked up, not assumed
	closer []func()
	base   c32Config // the three real voters
	name   map[string]string
}

var errC32Infra = errors.New("cluster infrastructure fault")

// c32Abort is set when the cluster the histories need cannot be had at all (a
// real node's own join does not give it the role it asked for, or clusters keep
// failing): the sections stop instead of retrying for the rest of the time-out.
var (
	c32Abort     atomic.Bool
	c32InfraN    atomic.Int64
	c32RunForSet *kit.Run
)

func c32CountInfra(r *kit.Run) {
	if n := c32InfraN.Add(1); n == 60 {
		c32Abort.Store(true)
		r.Cap("60 cluster faults (leadership lost, joins refused): giving up; the machine or the tree under test cannot keep a three-voter cluster alive")
	}
}

var (
	c32ScratchOnce sync.Once
	c32ScratchBase string
)

// c32Scratch returns a fresh data directory. Raft's log store syncs on every
// append; on tmpfs that costs nothing, so /dev/shm is used when it is there.
func c32Scratch(t *testing.T) string {
	c32ScratchOnce.Do(func() {
		if d, err := os.MkdirTemp("/dev/shm", "verif-c32-"); err == nil {
			c32ScratchBase = d
			t.Cleanup(func() { os.RemoveAll(d) })
		}
	})
	if c32ScratchBase == "" {
		return kit.Scratch(t)
	}
	d, err := os.MkdirTemp(c32ScratchBase, "s")
	if err != nil {
		t.Fatal(err)
	}
	return d
}

func c32NewCluster(t *testing.T, n int, setup func(*Store), ids ...string) (*c32Cluster, error) {
	c := &c32Cluster{base: c32Config{}, name: map[string]string{}}
	ok := false
	defer func() {
		if !ok {
			c.close()
		}
	}()
	for i := 0; i < n; i++ {
		id := fmt.Sprintf("r%d-%s", i, random.String()[:6])
		if i < len(ids) {
			id = ids[i]
		}
		s, ln := mustNewStoreAtPathsLn(id, c32Scratch(t), false)
		s.HeartbeatTimeout, s.ElectionTimeout, s.LeaderLeaseTimeout = c32RaftTO, c32RaftTO, c32RaftTO
		s.RaftLogLevel = "ERROR"
		if setup != nil {
			setup(s)
		}
		if err := s.Open(); err != nil {
			ln.Close()
			return nil, fmt.Errorf("open: %w", err)
		}
		c.stores = append(c.stores, s)
		c.closer = append(c.closer, func() { s.Close(true); ln.Close(); os.RemoveAll(s.Path()) })
		c.name[s.ID()] = fmt.Sprintf("r%d", i)
		if i == 0 {
			if err := s.Bootstrap(NewServer(s.ID(), s.Addr(), true)); err != nil {
				return nil, fmt.Errorf("bootstrap: %w", err)
			}
			if _, err := s.WaitForLeader(60 * time.Second); err != nil {
				return nil, fmt.Errorf("leader: %w", err)
			}
		} else {
			if err := c.stores[0].Join(joinRequest(s.ID(), s.Addr(), true)); err != nil {
				return nil, fmt.Errorf("join real voter: %w", err)
			}
			if _, err := s.WaitForLeader(60 * time.Second); err != nil {
				return nil, fmt.Errorf("follower leader: %w", err)
			}
			// the real node's own join is a step of the property too
			if list, err := c.stores[0].Nodes(); err == nil {
				if e, in := c32ToConfig(list)[s.ID()]; !in || !e.Voter || e.Addr != s.Addr() {
					if c32RunForSet != nil && c32Abort.CompareAndSwap(false, true) {
						c32RunForSet.Violation("C32:role-not-as-asked:new-id-new-addr:as-voter:real-node", fmt.Sprintf("a real node joined a real leader asking to be a voter at %s, the join returned success, and the configuration lists it as %+v (present %v): %s", s.Addr(), e, in, c32List(list)), map[string]any{"history": []c32Op{{Kind: "join", ID: "a", Addr: c32AddrX, Voter: true}}})
						c32RunForSet.Cap("stopped: the clusters the histories run on cannot be formed")
					}
					return nil, fmt.Errorf("real voter not listed as asked: %+v", e)
				}
			}
		}
		c.base[s.ID()] = c32Entry{Addr: s.Addr(), Voter: true}
	}
	ok = true
	return c, nil
}

// close shuts the leader down first: a follower that is being closed while the
// leader still sends it heartbeats can panic inside raft (a heartbeat that passed
// raft's shutdown check writes the term to the already closed log store).
func (c *c32Cluster) close() {
	order := make([]int, 0, len(c.closer))
	for i, s := range c.stores {
		if i < len(c.closer) && s.raft != nil && s.raft.State() == raft.Leader {
			order = append(order, i)
		}
	}
	for i := range c.closer {
		if len(order) == 0 || !c32Has(order, i) {
			order = append(order, i)
		}
	}
	for n, i := range order {
		c.closer[i]()
		if n == 0 {
			time.Sleep(30 * time.Millisecond)
		}
	}
}

func c32Has(l []int, v int) bool {
	for _, x := range l {
		if x == v {
			return true
		}
	}
	return false
}

func (c *c32Cluster) leader() (*Store, error) {
	deadline := time.Now().Add(c32Poll)
	for {
		for _, s := range c.stores {
			if s.raft.State() == raft.Leader {
				return s, nil
			}
		}
		if time.Now().After(deadline) {
			return nil, fmt.Errorf("%w: no leader among the real voters for %v", errC32Infra, c32Poll)
		}
		time.Sleep(20 * time.Millisecond)
	}
}

// ghosts returns cfg without the real nodes, with ids kept as they are.
func (c *c32Cluster) ghosts(cfg c32Config) c32Config {
	g := c32Config{}
	for id, e := range cfg {
		if _, real := c.base[id]; !real {
			g[id] = e
		}
	}
	return g
}

func c32IsInfra(err error) bool {
	if err == nil {
		return false
	}
	for _, e := range []error{ErrNotLeader, ErrNotOpen, raft.ErrNotLeader, raft.ErrLeadershipLost, raft.ErrLeadershipTransferInProgress,
		raft.ErrEnqueueTimeout, raft.ErrRaftShutdown, raft.ErrAbortedByRestore} {
		if errors.Is(err, e) || err.Error() == e.Error() {
			return true
		}
	}
	return strings.Contains(err.Error(), "timed out") || strings.Contains(err.Error(), "timeout")
}

// c32Checker carries what the oracle needs to report.
type c32Checker struct {
	r    *kit.Run
	part string
}

// uniqueness is checked on every observation of every node.
func (k *c32Checker) unique(node string, list []*Server, dupID, dupAddr, after string, replay any) {
	if dupID != "" {
		k.r.Violation("C32:duplicate-id:"+after, fmt.Sprintf("node %s holds two configuration entries with id %q after %s: %s", node, dupID, after, c32List(list)), replay)
	}
	if dupAddr != "" {
		k.r.Violation("C32:duplicate-address:"+after, fmt.Sprintf("node %s holds two configuration entries with address %q after %s: %s", node, dupAddr, after, c32List(list)), replay)
	}
}

func c32List(list []*Server) string {
	var p []string
	for _, n := range list {
		p = append(p, fmt.Sprintf("%s@%s/%s", n.ID, c32AddrName(n.Addr), n.Suffrage))
	}
	return "[" + strings.Join(p, " ") + "]"
}

// c32JoinCase names the relation of a join request to the configuration it meets.
func c32JoinCase(pre c32Config, op c32Op) string {
	cur, present := pre[op.ID]
	holder := ""
	for id, e := range pre {
		if e.Addr == op.Addr && id != op.ID {
			holder = id
		}
	}
	role := func(old bool) string {
		if old == op.Voter {
			return "same-role"
		}
		return c32Role(old) + "-to-" + c32Role(op.Voter)
	}
	switch {
	case present && cur.Addr == op.Addr:
		return "rejoin-same-id-same-addr:" + role(cur.Voter)
	case present && holder != "":
		return "rejoin-same-id-addr-of-other-member:" + role(cur.Voter)
	case present:
		return "rejoin-same-id-new-addr:" + role(cur.Voter)
	case holder != "":
		return "new-id-reusing-addr:as-" + c32Role(op.Voter)
	}
	return "new-id-new-addr:as-" + c32Role(op.Voter)
}

// judge compares the configuration after one step with what the statement
// allows, given the configuration before it. Returns the outcome label.
func (k *c32Checker) judge(pre, post c32Config, op c32Op, err error, hist string, replay any) string {
	where := fmt.Sprintf("history %s, step %s: before %s, after %s, returned %v", hist, op, pre, post, err)
	others := func(cs string) {
		for id, e := range pre {
			if id == op.ID {
				continue
			}
			pe, ok := post[id]
			if op.Kind == "join" && err == nil && e.Addr == op.Addr {
				// the previous holder of the address has to give way; uniqueness covers the rest
				if ok && pe.Addr == op.Addr {
					// reported as duplicate-address by unique()
				}
				continue
			}
			if !ok || pe != e {
				k.r.Violation("C32:other-member-changed:"+cs, "member "+id+" changed or vanished although the step did not concern it: "+where, replay)
			}
		}
		for id := range post {
			if _, ok := pre[id]; !ok && id != op.ID {
				k.r.Violation("C32:other-member-changed:"+cs, "member "+id+" appeared from nowhere: "+where, replay)
			}
		}
	}
	if op.Kind == "remove" {
		_, was := pre[op.ID]
		cs := "remove-member"
		if !was {
			cs = "remove-non-member"
		}
		others(cs)
		_, still := post[op.ID]
		if err == nil {
			if still {
				k.r.Violation("C32:remove-ok-but-still-member:"+cs, where, replay)
			}
			return "removed"
		}
		if was && !still {
			return "remove-error-but-gone"
		}
		return "remove-refused"
	}
	cs := c32JoinCase(pre, op)
	others(cs)
	got, in := post[op.ID]
	if err == nil {
		switch {
		case !in:
			k.r.Violation("C32:join-ok-not-reflected:"+cs, "join returned success but the node is not in the configuration: "+where, replay)
		case got.Addr != op.Addr:
			k.r.Violation("C32:join-ok-not-reflected:"+cs, "join returned success but the node is listed under another address: "+where, replay)
		case got.Voter != op.Voter:
			k.r.Violation("C32:role-not-as-asked:"+cs, fmt.Sprintf("join as %s returned success but the node is a %s: %s", c32Role(op.Voter), c32Role(got.Voter), where), replay)
		}
		return "joined"
	}
	// a refused join: the node may be left as it was, or out of the cluster (the join is remove + add)
	if in {
		if old, was := pre[op.ID]; !was || old != got {
			k.r.Violation("C32:join-error-but-changed:"+cs, "join returned an error but the node's entry changed: "+where, replay)
		}
		return "join-refused"
	}
	if _, was := pre[op.ID]; was {
		return "join-refused-and-old-entry-dropped"
	}
	return "join-refused"
}

// step runs one operation on the leader, checks every real node and returns the
// configuration afterwards.
func (c *c32Cluster) step(k *c32Checker, pre c32Config, op c32Op, hist string, replay any) (post c32Config, outcome string, err error) {
	ldr, err := c.leader()
	if err != nil {
		return nil, "", err
	}
	var opErr error
	if op.Kind == "join" {
		opErr = ldr.Join(joinRequest(op.ID, op.Addr, op.Voter))
	} else {
		opErr = ldr.Remove(context.Background(), removeNodeRequest(op.ID))
	}
	if c32IsInfra(opErr) {
		return nil, "", fmt.Errorf("%w: %s: %v", errC32Infra, op, opErr)
	}
	post, err = c.settle(k, "step:"+op.Kind, replay)
	if err != nil {
		return nil, "", err
	}
	outcome = k.judge(pre, post, op, opErr, hist, replay)
	if opErr != nil {
		outcome += "(" + c32ErrClass(opErr) + ")"
	}
	return post, outcome, nil
}

func c32ErrClass(err error) string {
	m := err.Error()
	switch {
	case strings.Contains(m, "duplicate address"):
		return "raft:duplicate-address"
	case strings.Contains(m, "duplicate ID"):
		return "raft:duplicate-id"
	case strings.Contains(m, "at least one voter"):
		return "raft:no-voter"
	}
	if len(m) > 40 {
		m = m[:40]
	}
	return m
}

// settle waits until every real node reports the leader's configuration,
// checking uniqueness on every observation made on the way.
func (c *c32Cluster) settle(k *c32Checker, after string, replay any) (c32Config, error) {
	ldr, err := c.leader()
	if err != nil {
		return nil, err
	}
	deadline := time.Now().Add(c32Poll)
	for {
		ll, dupID, dupAddr, err := c32Observe(ldr)
		if err != nil {
			return nil, fmt.Errorf("%w: observe leader: %v", errC32Infra, err)
		}
		k.unique(c.name[ldr.ID()]+"(leader)", ll, dupID, dupAddr, after, replay)
		want := c32ToConfig(ll)
		all := true
		for _, s := range c.stores {
			if s == ldr {
				continue
			}
			fl, dupID, dupAddr, err := c32Observe(s)
			if err != nil {
				return nil, fmt.Errorf("%w: observe follower: %v", errC32Infra, err)
			}
			k.unique(c.name[s.ID()]+"(follower)", fl, dupID, dupAddr, after, replay)
			if len(fl) != len(ll) || !c32ToConfig(fl).equal(want) {
				all = false
			}
		}
		if all && ldr.raft.State() == raft.Leader {
			return want, nil
		}
		if time.Now().After(deadline) {
			return nil, fmt.Errorf("%w: the real followers did not reach the leader's configuration %s within %v", errC32Infra, want, c32Poll)
		}
		time.Sleep(5 * time.Millisecond)
	}
}

// reset removes every ghost and verifies that the cluster is back to its three real voters.
func (c *c32Cluster) reset(k *c32Checker) error {
	cur, err := c.settle(k, "reset", nil)
	if err != nil {
		return err
	}
	for id := range c.ghosts(cur) {
		ldr, err := c.leader()
		if err != nil {
			return err
		}
		if err := ldr.Remove(context.Background(), removeNodeRequest(id)); err != nil {
			return fmt.Errorf("%w: reset remove %s: %v", errC32Infra, id, err)
		}
	}
	cur, err = c.settle(k, "reset", nil)
	if err != nil {
		return err
	}
	if !cur.equal(c.base) {
		return fmt.Errorf("%w: reset left %s, want %s", errC32Infra, cur, c.base)
	}
	return nil
}

func c32Alphabet() []c32Op {
	var ops []c32Op
	for _, id := range []string{"a", "b"} {
		for _, addr := range []string{c32AddrX, c32AddrY} {
			for _, v := range []bool{true, false} {
				ops = append(ops, c32Op{Kind: "join", ID: id, Addr: addr, Voter: v})
			}
		}
	}
	for _, id := range []string{"a", "b"} {
		ops = append(ops, c32Op{Kind: "remove", ID: id})
	}
	return ops
}

func c32Histories(alpha []c32Op, depth int, includeEmpty bool) [][]c32Op {
	var out [][]c32Op
	var rec func(h []c32Op)
	rec = func(h []c32Op) {
		if len(h) > 0 || includeEmpty {
			out = append(out, append([]c32Op(nil), h...))
		}
		if len(h) == depth {
			return
		}
		for _, op := range alpha {
			rec(append(h, op))
		}
	}
	rec(nil)
	// shorter histories first, so that a time budget cuts the deepest level only
	sort.SliceStable(out, func(i, j int) bool { return len(out[i]) < len(out[j]) })
	return out
}

func c32HistString(h []c32Op) string {
	var p []string
	for _, op := range h {
		p = append(p, op.String())
	}
	return strings.Join(p, ";")
}

func c32RuleHist(depth int) string {
	return (fmt.Sprintf("[hist] every history of length 1..%d over {join(id in {a,b}, address in {x,y}, voter|non-voter), remove(a), remove(b)} (10 operations) on a live cluster of three real voters; a and b are members nobody listens for, so re-joins with a new address, new ids reusing an address, idempotent re-joins and role changes all occur. After every step the configuration of every real node (Store.Nodes and raft.GetConfiguration) is compared with a model: unique ids, unique addresses, a successful join is listed under the address and role asked for, nothing else changes. distinct = (history, outcome of each step, final configuration)", depth))
}

func c32Hist(t *testing.T, r *kit.Run, hs [][]c32Op) {
	k := &c32Checker{r: r, part: "hist"}
	work := make(chan []c32Op)
	var wg sync.WaitGroup
	var mu sync.Mutex
	outcomes := map[string]int{}
	nw := c32Workers
	if len(hs) < nw {
		nw = len(hs)
	}
	var sampleN int
	for w := 0; w < nw; w++ {
		wg.Add(1)
		go func() {
			defer wg.Done()
			var c *c32Cluster
			defer func() {
				if c != nil {
					c.close()
				}
			}()
			for h := range work {
				hist := c32HistString(h)
				replay := map[string]any{"history": h}
				done := false
				for try := 0; try < c32MaxRetry && !done && !c32Abort.Load(); try++ {
					if try > 0 {
						c32CountInfra(r)
					}
					if c == nil {
						var err error
						if c, err = c32NewCluster(t, 3, nil); err != nil {
							fmt.Fprintf(os.Stderr, "C32: cluster start failed (try %d): %v\n", try, err)
							c = nil
							continue
						}
					}
					if err := c.reset(k); err != nil {
						fmt.Fprintf(os.Stderr, "C32: %v; new cluster\n", err)
						c.close()
						c = nil
						continue
					}
					cur := c.base
					var outs []string
					failed := false
					for _, op := range h {
						post, out, err := c.step(k, cur, op, hist, replay)
						if err != nil {
							fmt.Fprintf(os.Stderr, "C32: history %s: %v; retrying on a new cluster\n", hist, err)
							c.close()
							c = nil
							failed = true
							break
						}
						outs = append(outs, out)
						cur = post
					}
					if failed {
						continue
					}
					done = true
					final := c.ghosts(cur).String()
					r.Eval(1)
					r.Transition(len(h))
					r.Distinct(hist + "=>" + strings.Join(outs, ",") + final)
					mu.Lock()
					for _, o := range outs {
						outcomes[o]++
					}
					sampleN++
					if sampleN%257 == 1 {
						r.Sample(map[string]any{"history": hist, "outcomes": outs, "final_ghost_members": final})
					}
					mu.Unlock()
				}
				if !done && !c32Abort.Load() {
					r.Cap("history %s could not be completed in %d attempts (leadership kept moving)", hist, c32MaxRetry)
				}
			}
		}()
	}
	for i, h := range hs {
		if c32Abort.Load() {
			break
		}
		if r.OverBudget() {
			r.Cap("hist: time budget used up after %d of %d histories (shorter histories first)", i, len(hs))
			break
		}
		work <- h
	}
	close(work)
	wg.Wait()
	r.State(len(hs))
	r.Set("hist_histories", len(hs))
	r.Set("hist_step_outcomes", outcomes)
}

// ---------------------------------------------------------------------------
// notify: discovery-driven bootstrap

type c32Notify struct {
	ID   string `json:"id"`   // "self" | "a" | "b"
	Addr string `json:"addr"` // "self" | "x" | "y"
}

func (n c32Notify) String() string { return n.ID + "@" + n.Addr }

func c32NotifySeqs(depth int) [][]c32Notify {
	var alpha []c32Notify
	for _, id := range []string{"self", "a", "b"} {
		for _, ad := range []string{"self", "x", "y"} {
			alpha = append(alpha, c32Notify{id, ad})
		}
	}
	var out [][]c32Notify
	var rec func(h []c32Notify)
	rec = func(h []c32Notify) {
		if len(h) == depth {
			out = append(out, append([]c32Notify(nil), h...))
			return
		}
		for _, n := range alpha {
			rec(append(h, n))
		}
	}
	rec(nil)
	return out
}

func (k *c32Checker) votersOnly(node string, list []*Server, after string, replay any) {
	for _, n := range list {
		if n.Suffrage != proto.Suffrage_VOTER {
			k.r.Violation("C32:notify-bootstrap-member-not-voter", fmt.Sprintf("node %s: member %s of a notify-driven bootstrap is %s after %s: %s", node, n.ID, n.Suffrage, after, c32List(list)), replay)
		}
	}
}

func c32RuleNotify(depth int) string {
	return (fmt.Sprintf("[notify] (1) every sequence of %d Notify calls over ids {self,a,b} x addresses {self,x,y} (9 requests; duplicate ids and duplicate addresses included) on a fresh un-bootstrapped real Store, for BootstrapExpect 2 and 3, configuration checked after every call (all shorter sequences are prefixes); (2) live bootstraps of three real Stores with BootstrapExpect 3: every non-empty subset of Stores that gets notified x every order of the three notifications x each notification sent once or twice. Oracle: unique ids, unique addresses, voters only, on every Store at every observation. distinct = (sequence, what the Store did)", depth))
}

type c32NotifyJob struct {
	expect int
	seq    []c32Notify
}

// c32NotifyPart runs the given single-Store sequences, then the given live bootstraps.
func c32NotifyPart(t *testing.T, r *kit.Run, jobs []c32NotifyJob, lives []c32LiveBoot) {
	k := &c32Checker{r: r, part: "notify"}
	work := make(chan c32NotifyJob)
	var wg sync.WaitGroup
	var mu sync.Mutex
	outcomes := map[string]int{}
	opened := 0
	for w := 0; w < c32Workers; w++ {
		wg.Add(1)
		go func() {
			defer wg.Done()
			var s *Store
			var closeS func()
			defer func() {
				if closeS != nil {
					closeS()
				}
			}()
			for j := range work {
				if s == nil {
					st, ln := mustNewStoreAtPathsLn("self-"+random.String()[:6], c32Scratch(t), false)
					st.RaftLogLevel = "ERROR"
					if err := st.Open(); err != nil {
						panic(fmt.Sprintf("harness: open: %v", err))
					}
					s, closeS = st, func() { st.Close(true); ln.Close(); os.RemoveAll(st.Path()) }
					mu.Lock()
					opened++
					mu.Unlock()
				}
				s.notifyMu.Lock()
				s.BootstrapExpect = j.expect
				s.bootstrapped = false
				s.notifyingNodes = map[string]*Server{}
				s.notifyMu.Unlock()
				replay := map[string]any{"expect": j.expect, "notify": j.seq}
				var seqS []string
				var obs string
				for i, n := range j.seq {
					seqS = append(seqS, n.String())
					id, addr := n.ID, map[string]string{"self": s.Addr(), "x": c32AddrX, "y": c32AddrY}[n.Addr]
					if id == "self" {
						id = s.ID()
					}
					err := s.Notify(notifyRequest(id, addr))
					list, dupID, dupAddr, oerr := c32Observe(s)
					if oerr != nil {
						panic(fmt.Sprintf("harness: observe: %v", oerr))
					}
					after := fmt.Sprintf("expect=%d notify %s (call %d)", j.expect, strings.Join(seqS, ","), i+1)
					k.unique("self", list, dupID, dupAddr, "notify-bootstrap", replay)
					k.votersOnly("self", list, after, replay)
					r.Transition(1)
					s.notifyMu.Lock()
					flag, known := s.bootstrapped, len(s.notifyingNodes)
					s.notifyMu.Unlock()
					switch {
					case err != nil:
						obs = "error"
					case len(list) > 0:
						obs = fmt.Sprintf("bootstrapped-with-%d-members", len(list))
					case flag:
						obs = "bootstrap-refused-by-raft"
					default:
						obs = fmt.Sprintf("waiting-knows-%d", known)
					}
				}
				r.Eval(1)
				r.Distinct(fmt.Sprintf("%d:%s=>%s", j.expect, strings.Join(seqS, ","), obs))
				mu.Lock()
				outcomes[fmt.Sprintf("expect%d:%s", j.expect, obs)]++
				if (outcomes[fmt.Sprintf("expect%d:%s", j.expect, obs)]) == 1 {
					r.Sample(map[string]any{"bootstrap_expect": j.expect, "notify": strings.Join(seqS, ","), "store": obs})
				}
				mu.Unlock()
				list, _, _, _ := c32Observe(s)
				if len(list) > 0 {
					closeS()
					s, closeS = nil, nil
				}
			}
		}()
	}
	for i, j := range jobs {
		if c32Abort.Load() {
			break
		}
		if r.OverBudget() {
			r.Cap("notify: time budget used up after %d of %d sequences", i, len(jobs))
			break
		}
		work <- j
	}
	close(work)
	wg.Wait()
	r.Set("notify_single_store_outcomes", outcomes)
	fmt.Fprintf(os.Stderr, "C32 notify: %d stores opened for %d sequences\n", opened, len(jobs))
	r.Set("notify_sequences", len(jobs))
	r.Set("notify_live_bootstraps", len(lives))

	// (2) live three-Store bootstraps
	lw := make(chan c32LiveBoot)
	for w := 0; w < c32Workers; w++ {
		wg.Add(1)
		go func() {
			defer wg.Done()
			for lb := range lw {
				c32RunLiveBoot(t, r, k, lb)
			}
		}()
	}
	for i, lb := range lives {
		if c32Abort.Load() {
			break
		}
		if r.OverBudget() {
			r.Cap("notify: time budget used up after %d of %d live bootstraps", i, len(lives))
			break
		}
		lw <- lb
	}
	close(lw)
	wg.Wait()
}

// c32LiveBoot: three real Stores; the Stores in Receivers (bit mask) are each
// notified of the three nodes in Order, each notification once or twice.
type c32LiveBoot struct {
	Receivers int   `json:"receivers"`
	Order     []int `json:"order"`
	Twice     bool  `json:"twice"`
}

func c32RunLiveBoot(t *testing.T, r *kit.Run, k *c32Checker, lb c32LiveBoot) {
	replay := map[string]any{"live": lb}
	var ss []*Store
	cl := &c32Cluster{}
	defer cl.close()
	for i := 0; i < 3; i++ {
		s, ln := mustNewStoreAtPathsLn(fmt.Sprintf("n%d-%s", i, random.String()[:6]), c32Scratch(t), false)
		s.RaftLogLevel = "ERROR"
		s.BootstrapExpect = 3
		if err := s.Open(); err != nil {
			panic(fmt.Sprintf("harness: open: %v", err))
		}
		cl.stores = append(cl.stores, s)
		cl.closer = append(cl.closer, func() { s.Close(true); ln.Close(); os.RemoveAll(s.Path()) })
		ss = append(ss, s)
	}
	check := func(after string) (complete bool) {
		complete = true
		for i, s := range ss {
			list, dupID, dupAddr, err := c32Observe(s)
			if err != nil {
				panic(fmt.Sprintf("harness: observe: %v", err))
			}
			k.unique(fmt.Sprintf("n%d", i), list, dupID, dupAddr, "live-notify-bootstrap", replay)
			k.votersOnly(fmt.Sprintf("n%d", i), list, after, replay)
			if len(list) != 3 || !s.HasLeader() {
				complete = false
			}
		}
		return
	}
	for ri, rcv := range ss {
		if lb.Receivers&(1<<ri) == 0 {
			continue
		}
		for _, ni := range lb.Order {
			n := 1
			if lb.Twice {
				n = 2
			}
			for ; n > 0; n-- {
				if err := rcv.Notify(notifyRequest(ss[ni].ID(), ss[ni].Addr())); err != nil {
					panic(fmt.Sprintf("harness: notify: %v", err))
				}
				r.Transition(1)
				check(fmt.Sprintf("live bootstrap %+v", lb))
			}
		}
	}
	deadline := time.Now().Add(c32Poll)
	done := false
	for !done && time.Now().Before(deadline) {
		done = check(fmt.Sprintf("live bootstrap %+v (settling)", lb))
		if !done {
			time.Sleep(20 * time.Millisecond)
		}
	}
	r.Eval(1)
	out := "three-voters-and-a-leader-on-every-node"
	if !done {
		out = "not-complete-within-30s"
		r.Add("live_bootstrap_incomplete", 1)
	}
	r.Distinct(fmt.Sprintf("live:%+v=>%s", lb, out))
	if lb.Receivers == 5 && lb.Order[0] == 2 {
		r.Sample(map[string]any{"live_bootstrap": lb, "result": out})
	}
}

// ---------------------------------------------------------------------------
// reap: automatic removal of unresponsive nodes

type c32ReapCase struct {
	VoterTimeoutMs    int64      `json:"reap_timeout_ms"`
	NonvoterTimeoutMs int64      `json:"reap_read_only_timeout_ms"`
	History           []c32Op    `json:"history,omitempty"`
	Revive            *c32Revive `json:"revive,omitempty"`
	// RealIDs names the three real voters (default: random ids). Used for the cases in which a ghost's
	// id differs from a real voter's only in letter case: raft ids are case-sensitive, they are two nodes.
	RealIDs []string `json:"real_ids,omitempty"`
}

// c32Revive: a REAL fourth node joins with Role, is shut down, stays away for
// OutageMs, comes back (same data directory and id) on the same or a new address
// and re-joins asking for NewRole. From then on it answers.
type c32Revive struct {
	Voter    bool  `json:"voter"`
	NewVoter bool  `json:"new_voter"`
	NewAddr  bool  `json:"new_address"`
	OutageMs int64 `json:"outage_ms"`
}

func (v c32Revive) String() string {
	ad := "same-address"
	if v.NewAddr {
		ad = "new-address"
	}
	return fmt.Sprintf("real %s down for %dms, back on %s asking %s", c32Role(v.Voter), v.OutageMs, ad, c32Role(v.NewVoter))
}

// With 8 s and a 6.5 s outage raft's replication routine for the old entry has
// failed ~11 times when the node re-joins, so it stays in its back-off for many
// seconds more: the window in which a stale failed-heartbeat report can arrive
// after the timeout is wide, whatever the load.
const c32ReviveTimeout = 8 * time.Second

func (c c32ReapCase) timeout(voter bool) time.Duration {
	if voter {
		return time.Duration(c.VoterTimeoutMs) * time.Millisecond
	}
	return time.Duration(c.NonvoterTimeoutMs) * time.Millisecond
}

func c32RuleReap(depth int) string {
	short, long := c32ReapShort.Milliseconds(), c32ReapLong.Milliseconds()
	return (fmt.Sprintf("[reap] every join history of length 1..%d over join(id in {a,b}, address in {x,y}, voter|non-voter) whose first join is join(a,x,.) (the rest follows by renaming ids and addresses) x (ReapTimeout, ReapReadOnlyTimeout) in {(%dms,%dms),(%dms,%dms),(0,%dms),(%dms,0)} on a live cluster of three real voters. The joined members never answer, so raft reports failed heartbeats for them from the moment they are added. The configuration of every real node is polled every 20 ms until every member with a non-zero timeout for its role is gone (30 s allowance) and 1.5 s longer. Oracle: a member may leave the configuration without a remove only when the timeout of the role it holds has elapsed since the harness started the first join of that id (the member has been silent ever since; raft's last-contact time cannot be earlier), and never if that timeout is 0; uniqueness at every observation. Case cases: the three real voters are called N0,N1,N2 (or n0,n1,n2) and one ghost n1 (or N1) joins as voter|non-voter under each of the four timeout settings (16 cases): ids that differ only in letter case are different nodes, each reaped by its own role's timeout. Revive cases (both timeouts %dms): a REAL fourth node joins as voter|non-voter, is shut down, stays away for %dms or %dms, comes back with the same data on the same or a new address and re-joins asking voter|non-voter (16 cases); once the leader has reached it again it answers every heartbeat, so it must stay in the configuration while watched (until 4 s past the moment the timeout counted from its shutdown runs out). distinct = (setting, history, fate of each member)", depth, long, short, short, long, short, short, c32ReviveTimeout.Milliseconds(), int64(1000), c32ReviveTimeout.Milliseconds()-1500))
}

func c32ReapCases(depth int) []c32ReapCase {
	short, long := c32ReapShort.Milliseconds(), c32ReapLong.Milliseconds()
	var cases []c32ReapCase
	var joins []c32Op
	for _, op := range c32Alphabet() {
		if op.Kind == "join" {
			joins = append(joins, op)
		}
	}
	for _, h := range c32Histories(joins, depth, false) {
		if h[0].ID != "a" || h[0].Addr != c32AddrX {
			continue
		}
		for _, to := range [][2]int64{{long, short}, {short, long}, {0, short}, {short, 0}} {
			cases = append(cases, c32ReapCase{VoterTimeoutMs: to[0], NonvoterTimeoutMs: to[1], History: h})
		}
	}
	// ids that differ only in letter case: three real voters N0,N1,N2 (or n0,n1,n2) and a ghost n1 (or N1)
	for _, realUpper := range []bool{true, false} {
		real, ghost := []string{"N0", "N1", "N2"}, "n1"
		if !realUpper {
			real, ghost = []string{"n0", "n1", "n2"}, "N1"
		}
		for _, voter := range []bool{false, true} {
			for _, to := range [][2]int64{{long, short}, {short, long}, {0, short}, {short, 0}} {
				cases = append(cases, c32ReapCase{VoterTimeoutMs: to[0], NonvoterTimeoutMs: to[1], RealIDs: real,
					History: []c32Op{{Kind: "join", ID: ghost, Addr: c32AddrX, Voter: voter}}})
			}
		}
	}
	T := c32ReviveTimeout.Milliseconds()
	for _, voter := range []bool{true, false} {
		for _, newVoter := range []bool{true, false} {
			for _, newAddr := range []bool{false, true} {
				for _, outage := range []int64{1000, T - 1500} {
					cases = append(cases, c32ReapCase{VoterTimeoutMs: T, NonvoterTimeoutMs: T,
						Revive: &c32Revive{Voter: voter, NewVoter: newVoter, NewAddr: newAddr, OutageMs: outage}})
				}
			}
		}
	}
	return cases
}

func c32ReapPart(t *testing.T, r *kit.Run, cases []c32ReapCase) {
	k := &c32Checker{r: r, part: "reap"}
	work := make(chan c32ReapCase)
	var wg sync.WaitGroup
	par := 44
	if len(cases) < par {
		par = len(cases)
	}
	var mu sync.Mutex
	fates := map[string]int{}
	for w := 0; w < par; w++ {
		wg.Add(1)
		go func() {
			defer wg.Done()
			for rc := range work {
				var out string
				var err error
				for try := 0; try < c32MaxRetry && !c32Abort.Load(); try++ {
					if try > 0 {
						c32CountInfra(r)
					}
					if rc.Revive != nil {
						out, err = c32RunRevive(t, r, k, rc)
					} else {
						out, err = c32RunReap(t, r, k, rc)
					}
					if err == nil {
						break
					}
					fmt.Fprintf(os.Stderr, "C32 reap: %v; retrying\n", err)
				}
				if err != nil || out == "" {
					if !c32Abort.Load() {
						r.Cap("reap case %+v could not be completed: %v", rc, err)
					}
					continue
				}
				r.Eval(1)
				r.Transition(len(rc.History))
				key := fmt.Sprintf("V=%dms,N=%dms:%s%v=>%s", rc.VoterTimeoutMs, rc.NonvoterTimeoutMs, c32HistString(rc.History), rc.RealIDs, out)
				if rc.Revive != nil {
					r.Transition(4)
					key = fmt.Sprintf("V=N=%dms:%s=>%s", rc.VoterTimeoutMs, rc.Revive, out)
					if rc.Revive.NewAddr && rc.Revive.Voter == rc.Revive.NewVoter {
						r.Sample(map[string]any{"case": key})
					}
				}
				r.Distinct(key)
				mu.Lock()
				for _, f := range strings.Split(out, " ") {
					if i := strings.IndexByte(f, ':'); i >= 0 {
						fates[f[i+1:]]++
					}
				}
				if len(rc.History) == 2 && rc.History[0].Voter != rc.History[1].Voter && rc.History[1].ID == "b" && rc.History[1].Addr == c32AddrY {
					r.Sample(map[string]any{"case": key})
				}
				mu.Unlock()
			}
		}()
	}
	for i, rc := range cases {
		if c32Abort.Load() {
			break
		}
		if r.OverBudget() {
			r.Cap("reap: time budget used up after %d of %d cases", i, len(cases))
			break
		}
		work <- rc
	}
	close(work)
	wg.Wait()
	r.State(len(cases))
	r.Set("reap_cases", len(cases))
	r.Set("reap_member_fates", fates)
}

func c32RunReap(t *testing.T, r *kit.Run, k *c32Checker, rc c32ReapCase) (string, error) {
	c, err := c32NewCluster(t, 3, func(s *Store) {
		s.ReapTimeout = rc.timeout(true)
		s.ReapReadOnlyTimeout = rc.timeout(false)
	}, rc.RealIDs...)
	if err != nil {
		return "", fmt.Errorf("%w: %v", errC32Infra, err)
	}
	defer c.close()
	replay := rc
	hist := fmt.Sprintf("ReapTimeout=%v ReapReadOnlyTimeout=%v, %s", rc.timeout(true), rc.timeout(false), c32HistString(rc.History))
	if len(rc.RealIDs) > 0 {
		hist += fmt.Sprintf(" (real voters %v)", rc.RealIDs)
	}

	type tracked struct {
		since time.Time // the harness started the join that produced the present entry
		first time.Time // the harness started the first join of this id (it has been silent ever since)
		entry c32Entry
		fate  string
	}
	live := map[string]*tracked{}
	gone := map[string]*tracked{}
	firstJoin := map[string]time.Time{}
	// left is called when id is found missing at an observation made at 'now'
	left := func(id string, tr *tracked, now time.Time, during string) {
		to := rc.timeout(tr.entry.Voter)
		// A ghost has never answered under any address, so the earliest moment it can be said to have
		// become unresponsive is its first join. (After a re-join under a new address raft's replication
		// routine for the old entry lingers in its back-off for up to ~10 s and keeps reporting failed
		// heartbeats with the old last-contact time, which Store.observe applies to the new entry: the
		// re-join does not restart the clock. Whether that removes a node that DOES answer is decided
		// by the revive cases, with a real node.)
		el := now.Sub(tr.first)
		if to > 0 && el >= to && now.Sub(tr.since) < to {
			fmt.Fprintf(os.Stderr, "C32 reap: %s: %s left %v after its re-join (%v after its first join): reaped on the clock of its previous entry\n", hist, id, now.Sub(tr.since).Round(time.Millisecond), el.Round(time.Millisecond))
		}
		role := c32Role(tr.entry.Voter)
		switch {
		case to == 0:
			tr.fate = "reaped-although-disabled"
			r.Violation("C32:reaped-although-timeout-disabled:"+role, fmt.Sprintf("%s: %s %s left the configuration %v after its join although the timeout for its role is 0 (%s)", hist, role, id, el.Round(time.Millisecond), during), replay)
		case el < to:
			tr.fate = "reaped-early"
			r.Violation("C32:reaped-before-role-timeout:"+role, fmt.Sprintf("%s: %s %s left the configuration only %v after its first join; the timeout for its role is %v (%s)", hist, role, id, el.Round(time.Millisecond), to, during), replay)
		default:
			tr.fate = "reaped-after-role-timeout"
		}
		gone[id] = tr
		delete(live, id)
	}
	observe := func(after string) (c32Config, time.Time, error) {
		ldr, err := c.leader()
		if err != nil {
			return nil, time.Time{}, err
		}
		var cfg c32Config
		for _, s := range c.stores {
			list, dupID, dupAddr, err := c32Observe(s)
			if err != nil {
				return nil, time.Time{}, fmt.Errorf("%w: %v", errC32Infra, err)
			}
			k.unique(c.name[s.ID()], list, dupID, dupAddr, after, replay)
			if s == ldr {
				cfg = c32ToConfig(list)
			}
		}
		return cfg, time.Now(), nil
	}

	for _, op := range rc.History {
		ldr, err := c.leader()
		if err != nil {
			return "", err
		}
		start := time.Now()
		opErr := ldr.Join(joinRequest(op.ID, op.Addr, op.Voter))
		if c32IsInfra(opErr) {
			return "", fmt.Errorf("%w: %s: %v", errC32Infra, op, opErr)
		}
		cfg, now, err := observe("reap:join")
		if err != nil {
			return "", err
		}
		for id, tr := range live {
			if _, in := cfg[id]; !in && id != op.ID {
				left(id, tr, now, "while "+op.String()+" ran")
			}
		}
		e, in := cfg[op.ID]
		tr := live[op.ID]
		switch {
		case !in:
			delete(live, op.ID) // refused join that dropped the old entry, or reaped while re-joining: not attributed
		case tr == nil || tr.entry != e:
			if _, ok := firstJoin[op.ID]; !ok {
				firstJoin[op.ID] = start
			}
			live[op.ID] = &tracked{since: start, first: firstJoin[op.ID], entry: e}
			delete(gone, op.ID)
		}
	}

	// wait for the departures
	var due time.Time
	for _, tr := range live {
		if to := rc.timeout(tr.entry.Voter); to > 0 {
			if d := tr.since.Add(to); d.After(due) { // the latest it is due; it may go earlier (first-join clock)
				due = d
			}
		}
	}
	if due.IsZero() {
		due = time.Now().Add(c32ReapShort) // only members that must stay: watch them for a while
	}
	hardStop := due.Add(c32Poll)
	var extraUntil time.Time
	for {
		cfg, now, err := observe("reap:wait")
		if err != nil {
			return "", err
		}
		for id, tr := range live {
			if _, in := cfg[id]; !in {
				left(id, tr, now, "while waiting")
			}
		}
		pending := 0
		for _, tr := range live {
			if rc.timeout(tr.entry.Voter) > 0 {
				pending++
			}
		}
		if pending == 0 && now.After(due) {
			if extraUntil.IsZero() {
				extraUntil = now.Add(1500 * time.Millisecond)
			} else if now.After(extraUntil) {
				break
			}
		}
		if now.After(hardStop) {
			break
		}
		time.Sleep(20 * time.Millisecond)
	}
	var parts []string
	ids := []string{}
	for id := range live {
		ids = append(ids, id)
	}
	for id := range gone {
		ids = append(ids, id)
	}
	sort.Strings(ids)
	for _, id := range ids {
		if tr, ok := gone[id]; ok {
			parts = append(parts, fmt.Sprintf("%s/%s:%s", id, c32Role(tr.entry.Voter)[:1], tr.fate))
			continue
		}
		tr := live[id]
		if rc.timeout(tr.entry.Voter) == 0 {
			parts = append(parts, fmt.Sprintf("%s/%s:kept-timeout-disabled", id, c32Role(tr.entry.Voter)[:1]))
		} else {
			parts = append(parts, fmt.Sprintf("%s/%s:not-reaped-within-30s", id, c32Role(tr.entry.Voter)[:1]))
			r.Add("never_reaped", 1)
		}
	}
	if len(parts) == 0 {
		parts = []string{"no-member-left-to-watch"}
	}
	return strings.Join(parts, " "), nil
}

// c32RunRevive: see c32Revive. Oracle: once the node is back and has been heard
// by the leader it answers every heartbeat, so it is not unresponsive and must
// stay in the configuration for as long as it is watched (until well past the
// moment the timeout counted from its shutdown runs out).
func c32RunRevive(t *testing.T, r *kit.Run, k *c32Checker, rc c32ReapCase) (string, error) {
	v := *rc.Revive
	setup := func(s *Store) {
		s.ReapTimeout = rc.timeout(true)
		s.ReapReadOnlyTimeout = rc.timeout(false)
	}
	c, err := c32NewCluster(t, 3, setup)
	if err != nil {
		return "", fmt.Errorf("%w: %v", errC32Infra, err)
	}
	defer c.close()
	desc := fmt.Sprintf("ReapTimeout=ReapReadOnlyTimeout=%v, %s", rc.timeout(true), v)

	dir, id := c32Scratch(t), "m-"+random.String()[:6]
	defer os.RemoveAll(dir)
	open := func(addr string) (*Store, func(), error) {
		ln, err := net.Listen("tcp", addr)
		if err != nil {
			return nil, nil, fmt.Errorf("%w: listen %s: %v", errC32Infra, addr, err)
		}
		ly := &mockLayer{ln}
		s := New(&Config{DBConf: NewDBConfig(), Dir: dir, ID: id}, ly)
		s.HeartbeatTimeout, s.ElectionTimeout, s.LeaderLeaseTimeout = c32RaftTO, c32RaftTO, c32RaftTO
		s.RaftLogLevel = "ERROR"
		setup(s)
		if err := s.Open(); err != nil {
			ly.Close()
			return nil, nil, fmt.Errorf("%w: open fourth node: %v", errC32Infra, err)
		}
		return s, func() { s.Close(true); ly.Close() }, nil
	}
	inConfig := func() (bool, error) {
		ldr, err := c.leader()
		if err != nil {
			return false, err
		}
		for _, s := range c.stores {
			list, dupID, dupAddr, err := c32Observe(s)
			if err != nil {
				return false, fmt.Errorf("%w: %v", errC32Infra, err)
			}
			k.unique(c.name[s.ID()], list, dupID, dupAddr, "reap:revive", rc)
			if s == ldr {
				_, in := c32ToConfig(list)[id]
				return in, nil
			}
		}
		return false, errC32Infra
	}
	join := func(addr string, voter bool) error {
		ldr, err := c.leader()
		if err != nil {
			return err
		}
		if err := ldr.Join(joinRequest(id, addr, voter)); err != nil {
			return fmt.Errorf("%w: join of the real fourth node: %v", errC32Infra, err)
		}
		return nil
	}

	m, closeM, err := open("127.0.0.1:0")
	if err != nil {
		return "", err
	}
	addr1 := m.Addr()
	if err := join(addr1, v.Voter); err != nil {
		closeM()
		return "", err
	}
	if _, err := m.WaitForLeader(c32Poll); err != nil {
		closeM()
		return "", fmt.Errorf("%w: fourth node never heard of a leader", errC32Infra)
	}
	down := time.Now()
	closeM()
	for time.Since(down) < time.Duration(v.OutageMs)*time.Millisecond {
		if in, err := inConfig(); err != nil {
			return "", err
		} else if !in {
			return "", fmt.Errorf("%w: fourth node left the configuration during its outage (%v after shutdown)", errC32Infra, time.Since(down))
		}
		time.Sleep(20 * time.Millisecond)
	}
	addr2 := addr1
	if v.NewAddr {
		addr2 = "127.0.0.1:0"
	}
	m2, closeM2, err := open(addr2)
	if err != nil {
		return "", err
	}
	defer closeM2()
	back := time.Now()
	if err := join(m2.Addr(), v.NewVoter); err != nil {
		return "", err
	}
	// heard by the leader again: raft on the node has had contact after the re-join
	deadline := time.Now().Add(c32Poll)
	for m2.raft.LastContact().Before(back) {
		if in, err := inConfig(); err != nil {
			return "", err
		} else if !in {
			return "", fmt.Errorf("%w: fourth node left the configuration before the leader reached it again", errC32Infra)
		}
		if time.Now().After(deadline) {
			return "", fmt.Errorf("%w: the leader did not reach the revived node within %v", errC32Infra, c32Poll)
		}
		time.Sleep(10 * time.Millisecond)
	}
	heard := time.Now()
	until := down.Add(rc.timeout(true) + 4*time.Second)
	for time.Now().Before(until) {
		in, err := inConfig()
		if err != nil {
			return "", err
		}
		if !in {
			ad := "same-address"
			if v.NewAddr {
				ad = "new-address"
			}
			lc := m2.raft.LastContact()
			if time.Since(lc) > rc.timeout(true)/2 {
				// the node had not heard from the leader for a long time (a stalled machine): being reaped may be right
				return "", fmt.Errorf("%w: revived node was removed, but its last contact from the leader is %v old", errC32Infra, time.Since(lc))
			}
			r.Violation(fmt.Sprintf("C32:responsive-node-reaped:rejoin-%s:%s-asking-%s:down-%dms-of-%dms", ad, c32Role(v.Voter), c32Role(v.NewVoter), v.OutageMs, rc.VoterTimeoutMs),
				fmt.Sprintf("%s: the node was shut down, came back %v later and re-joined; the leader reached it again %v after the re-join and it kept answering (its last contact from the leader is %v old), yet it was removed from the configuration %v after the re-join, %v after its shutdown",
					desc, back.Sub(down).Round(time.Millisecond), heard.Sub(back).Round(time.Millisecond), time.Since(lc).Round(time.Millisecond), time.Since(back).Round(time.Millisecond), time.Since(down).Round(time.Millisecond)), rc)
			return "revived-node-reaped", nil
		}
		time.Sleep(20 * time.Millisecond)
	}
	return "revived-node-kept", nil
}

// ---------------------------------------------------------------------------

func TestVerif_C32(t *testing.T) {
	r := kit.Start(t, "C32", "members")
	defer r.Finish()
	c32RunForSet = r
	hd, nd, rd := r.Pick(3, 4), r.Pick(3, 4), r.Pick(2, 3)
	r.Rule(c32RuleHist(hd) + " " + c32RuleNotify(nd) + " " + c32RuleReap(rd))
	r.Assume("hashicorp/raft's own interleavings are not controlled; every oracle holds for any of them")
	r.Assume("the only real-time comparison is 'left earlier than a lower bound'; a slow machine can only make departures later")
	r.Note("the three sections run concurrently in one process. hist: clusters are reused between histories through a checked reset (ghosts removed, configuration verified equal to the three real voters on every node); a history hit by a leadership loss is re-run on a new cluster. notify: a Store whose sequence ended without a successful bootstrap (raft configuration still empty) is reused after resetting its notify bookkeeping; one that bootstrapped is discarded.")

	if raw := kit.Replay(); raw != nil {
		var rp struct {
			History []c32Op      `json:"history"`
			Reap    *int64       `json:"reap_timeout_ms"`
			Expect  int          `json:"expect"`
			Seq     []c32Notify  `json:"notify"`
			Live    *c32LiveBoot `json:"live"`
		}
		if err := json.Unmarshal(raw, &rp); err != nil {
			t.Fatalf("C32: bad replay: %v", err)
		}
		switch {
		case rp.Live != nil:
			c32NotifyPart(t, r, nil, []c32LiveBoot{*rp.Live})
		case len(rp.Seq) > 0:
			c32NotifyPart(t, r, []c32NotifyJob{{rp.Expect, rp.Seq}}, nil)
		case rp.Reap != nil:
			var rc c32ReapCase
			json.Unmarshal(raw, &rc)
			c32ReapPart(t, r, []c32ReapCase{rc})
		case len(rp.History) > 0:
			c32Hist(t, r, [][]c32Op{rp.History})
		default:
			t.Fatalf("C32: replay file names no case")
		}
		return
	}

	var jobs []c32NotifyJob
	for _, e := range []int{2, 3} {
		for _, s := range c32NotifySeqs(nd) {
			jobs = append(jobs, c32NotifyJob{e, s})
		}
	}
	var lives []c32LiveBoot
	perms := [][]int{{0, 1, 2}, {0, 2, 1}, {1, 0, 2}, {1, 2, 0}, {2, 0, 1}, {2, 1, 0}}
	for subset := 1; subset < 8; subset++ {
		for _, p := range perms {
			for _, twice := range []bool{false, true} {
				if twice && !r.Thorough() && subset != 7 && subset != 1 {
					continue
				}
				lives = append(lives, c32LiveBoot{Receivers: subset, Order: p, Twice: twice})
			}
		}
	}
	var wg sync.WaitGroup
	wg.Add(3)
	go func() { defer wg.Done(); c32ReapPart(t, r, c32ReapCases(rd)) }()
	go func() { defer wg.Done(); c32Hist(t, r, c32Histories(c32Alphabet(), hd, false)) }()
	go func() { defer wg.Done(); c32NotifyPart(t, r, jobs, lives) }()
	wg.Wait()
}
