package store

import (
	"context"
	"fmt"
	"strings"
	"sync"
	"sync/atomic"
	"time"

	"github.com/hashicorp/raft"
	"github.com/rqlite/rqlite/v10/command/proto"
)

// C16 part "live", jobs M and L.
//
// Job M ("mid-batch"): a node that RECEIVES SEVERAL COMMANDS IN ONE AppendEntries
// request. Follower and non-voter are cut off, three writes are handed to the
// leader (they wait in its log), and after more than the small bound the
// partition is healed: each node gets the three commands in one request. The
// commit index it is told is held at the first of them (rqlite's receive hook),
// so the node has applied the first command - appended long before it was applied
// - and holds the other two unapplied: it is behind. The harness watches the
// requests itself, so it knows the index of the LAST command the node received
// without asking the Store; the reference rule is evaluated with that index.
//
//	wiring  the Store's own received-command index must be that last index
//	reads   the full product on follower and non-voter (only they: a strong read on
//	        the leader would send them a fresh single-command request): NONE and, on
//	        the non-voter, AUTO with strict and the small bound are refused, the
//	        non-strict and 1 h controls are served
//
// Job L ("slow write"): a LINEARIZABLE read "applied everything committed when
// the read started". After a strong read in the leader's term, a write that takes
// the database a good while (INSERT .. SELECT COUNT(*) over a recursive CTE) is
// sent to the leader; as soon as raft's commit index covers it and it is still
// being applied, a linearizable read of the row it writes is sent (Store.Query and
// Store.Request, 60 s timeout). A served read must return the row. A window that
// was missed (the write was through before the read could be sent) is counted and
// not judged.

type c16mWatch struct {
	lastCmd  atomic.Uint64 // index of the newest command entry seen in any request
	maxBatch atomic.Int64  // most command entries seen in one request
	batchEnd atomic.Uint64 // index of the last command entry of that request
}

func (x *c16lRun) installWatch(i int, w *c16mWatch) {
	s := x.c.nodes[i].store()
	lim := &x.clamp[i]
	s.raftTn.SetAppendEntriesRxHandler(func(req *raft.AppendEntriesRequest) error {
		n, last := int64(0), uint64(0)
		for _, e := range req.Entries {
			if e.Type == raft.LogCommand {
				n++
				last = e.Index
			}
		}
		if n > 0 {
			w.lastCmd.Store(last)
			if n > w.maxBatch.Load() {
				w.maxBatch.Store(n)
				w.batchEnd.Store(last)
			}
		}
		if m := lim.Load(); m > 0 && req.LeaderCommitIndex > m {
			req.LeaderCommitIndex = m
		}
		return nil
	})
}

func (x *c16lRun) jobM() {
	c := x.c
	x.healthy("healthy")
	names, l := x.roles()
	ls := c.nodes[l].store()
	var others []int
	watch := map[int]*c16mWatch{}
	for i := range c.nodes {
		if i != l {
			others = append(others, i)
			watch[i] = &c16mWatch{}
			x.installWatch(i, watch[i])
		}
	}
	base := ls.raft.LastIndex()
	k1, k3 := base+1, base+3
	for _, i := range others {
		c.net.Isolate(i)
		x.clamp[i].Store(k1)
		x.held[i] = true
	}
	x.fresh = [3]bool{}
	// three writes; they cannot commit before the follower is back
	var wg sync.WaitGroup
	errs := make([]error, 3)
	for k := 0; k < 3; k++ {
		wg.Add(1)
		go func(k int) {
			defer wg.Done()
			errs[k] = c.Write(l, fmt.Sprintf("c16-m%d", k), k+1, vcAPIQuery, false).Err
		}(k)
		x.poll("write appended to the leader's log", func() bool { return ls.raft.LastIndex() >= base+uint64(k)+1 })
	}
	appended := time.Now()
	x.poll("the waiting writes are older than the small bound", func() bool { return time.Since(appended) > time.Duration(c16lSmall)*3/2 })
	if lead, _ := vxBelievesLeader(c, l); !lead || ls.raft.LastIndex() != k3 {
		x.fail("mid-batch set-up: leader %v, last index %d, want %d", lead, ls.raft.LastIndex(), k3)
	}
	c.net.Heal()
	wg.Wait()
	for k, err := range errs {
		if err != nil {
			x.fail("mid-batch set-up: write %d: %v", k, err)
		}
	}
	x.poll("follower and non-voter hold the three commands and have applied the first", func() bool {
		for _, i := range others {
			s := c.nodes[i].store()
			if s.raft.LastIndex() < k3 || s.fsmIdx.Load() != k1 {
				return false
			}
		}
		return true
	})
	for _, i := range others {
		if w := watch[i]; w.maxBatch.Load() < 2 || w.batchEnd.Load() != k3 || w.lastCmd.Load() != k3 {
			x.fail("mid-batch set-up: n%d did not get the commands in one request (largest request %d commands ending at %d, newest command %d, want %d)", i, w.maxBatch.Load(), w.batchEnd.Load(), w.lastCmd.Load(), k3)
		}
	}
	x.fresh = [3]bool{true, true, true}
	for _, i := range others {
		x.poll("recent contact from the leader", func() bool { return x.since(i) < time.Duration(c16lSmall)/2 })
		// wiring: what the Store says it has received
		x.r.Eval(1)
		got := c.nodes[i].store().raftTn.CommandCommitIndex()
		x.r.Distinct(fmt.Sprintf("mid-batch|%s|received-command-index is the last of the batch=%v", names[i], got == k3))
		if got != k3 {
			x.r.Violation("C16:live:wiring:received-command-index-not-last-of-batch",
				fmt.Sprintf("%s (node %d) received commands %d..%d in one AppendEntries request (watched at rqlite's receive hook) and has applied %d; the Store's received-command index, which isStaleRead compares with the applied index, is %d instead of %d",
					names[i], i, k1, k3, c.nodes[i].store().fsmIdx.Load(), got, k3),
				c16lCase{Job: x.job, Condition: "mid-batch", Role: names[i], Node: i})
		}
		x.known[i].Store(k3)
	}
	x.product("mid-batch", names, others, nil, nil)
	for _, i := range others {
		if got := c.nodes[i].store().fsmIdx.Load(); got != k1 {
			x.fail("n%d applied index %d while its commit index is held at %d", i, got, k1)
		}
		x.known[i].Store(0)
		x.clamp[i].Store(0)
		x.held[i] = false
	}
	x.caughtUp(others...)
}

func (x *c16lRun) jobL() {
	c := x.c
	x.healthy("healthy")
	_, l := x.roles()
	s := c.nodes[l].store()
	round := 0
	for rep := 0; rep < 3; rep++ {
		for _, api := range c16lAPIs {
			round++
			key := fmt.Sprintf("slow%d", round)
			cs := c16lCase{Job: x.job, Condition: "slow-write-committed-still-applying", Role: "leader", Node: l, API: api, Level: proto.ConsistencyLevel_LINEARIZABLE.String()}
			if !x.wants(cs) {
				continue
			}
			x.caughtUp(0, 1, 2)
			if s.strongReadTerm.Load() != s.raft.CurrentTerm() {
				x.fail("slow write: no strong read in the leader's term")
			}
			c0 := s.raft.CommitIndex()
			sql := fmt.Sprintf("INSERT OR REPLACE INTO kv(k, v) SELECT '%s', COUNT(*) FROM (WITH RECURSIVE c(i) AS (SELECT 1 UNION ALL SELECT i+1 FROM c WHERE i < 1500000) SELECT i FROM c)", key)
			done := make(chan error, 1)
			go func() {
				res, _, err := s.Execute(context.Background(), executeRequestFromString(sql, false, false))
				if err == nil && (len(res) != 1 || res[0].GetError() != "") {
					err = fmt.Errorf("%v", res)
				}
				done <- err
			}()
			returned := false
			inFlight := func() bool { ci := s.raft.CommitIndex(); return ci > c0 && s.fsmIdx.Load() < ci }
			for deadline := time.Now().Add(c16lWait); !returned && !inFlight(); {
				select {
				case err := <-done:
					if err != nil {
						x.fail("slow write: %v", err)
					}
					returned = true
				default:
					if time.Now().After(deadline) {
						x.fail("slow write neither committed nor returned within %v", c16lWait)
					}
					time.Sleep(100 * time.Microsecond)
				}
			}
			// the read under test
			pre := c16lSnapOf(s)
			rsql := fmt.Sprintf("SELECT v FROM kv WHERE k='%s'", key)
			var rows *proto.QueryRows
			var err error
			served := proto.ConsistencyLevel_LINEARIZABLE
			if api == "request" {
				eqr := executeQueryRequestFromString(rsql, proto.ConsistencyLevel_LINEARIZABLE, false, false, false)
				eqr.LinearizableTimeout = int64(2 * c16lWait)
				var res []*proto.ExecuteQueryResponse
				res, _, _, err = s.Request(context.Background(), eqr)
				if err == nil && (len(res) != 1 || res[0].GetQ() == nil) {
					err = fmt.Errorf("result %v", res)
				} else if err == nil {
					rows, served = res[0].GetQ(), eqr.Level
				}
			} else {
				qr := queryRequestFromString(rsql, false, false, false)
				qr.Level, qr.LinearizableTimeout = proto.ConsistencyLevel_LINEARIZABLE, int64(2*c16lWait)
				var rr []*proto.QueryRows
				rr, served, _, err = s.Query(context.Background(), qr)
				if err == nil && len(rr) != 1 {
					err = fmt.Errorf("result %v", rr)
				} else if err == nil {
					rows = rr[0]
				}
			}
			post := c16lSnapOf(s)
			if !returned {
				select {
				case werr := <-done:
					if werr != nil {
						x.fail("slow write: %v", werr)
					}
				case <-time.After(4 * c16lWait):
					x.fail("slow write never returned")
				}
			}
			if returned {
				x.r.Add("slow_write_windows_missed", 1)
				continue
			}
			x.r.Add("slow_write_windows_hit", 1)
			if !(pre.leader && post.leader && pre.term == post.term) {
				x.undec.Add(1)
				continue
			}
			x.r.Eval(1)
			outcome := ""
			switch {
			case err != nil:
				outcome = c16lErrClass(err)
			case rows.Error != "":
				outcome = "served-wrong-result"
			case len(rows.Values) == 0:
				outcome = "served-without-the-committed-write"
			default:
				outcome = "served-with-the-committed-write"
			}
			if err == nil && served != proto.ConsistencyLevel_LINEARIZABLE {
				outcome += "-upgraded"
			}
			x.r.Distinct("slow-write-committed-still-applying|" + api + "|" + outcome)
			if strings.HasPrefix(outcome, "served-with-the-committed-write") {
				continue
			}
			cls := "linearizable-fails-on-healthy-leader"
			if strings.HasPrefix(outcome, "served-without") {
				cls = "linearizable-read-misses-committed-write"
			}
			x.r.Violation("C16:live:"+cls+":"+api,
				fmt.Sprintf("leader (node %d), a strong read already served in its term %d: write of row %q was committed (raft commit index %d > %d when the read was sent) and still being applied (FSM index %d); LINEARIZABLE read of that row through Store.%s with a %v timeout: %s (%v) - a linearizable read returns only after everything committed when it started has been applied; node before: %s; after: %s",
					l, pre.term, key, s.raft.CommitIndex(), c0, pre.fi, map[string]string{"query": "Query", "request": "Request"}[api], 2*c16lWait, outcome, err, pre, post), cs)
		}
	}
}
