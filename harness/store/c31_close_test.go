package store

import (
	"errors"
	"fmt"
	"sync"
	"testing"
	"time"

	"github.com/rqlite/rqlite/v10/internal/random"
	"github.com/rqlite/rqlite/v10/internal/rsync"
	kit "github.com/rqlite/rqlite/v10/internal/verifkit"
)

// C31: closing a node while something holds the snapshot gate waits for the
// holder and proceeds promptly once it is gone; Close fails only if the holder
// is still there after the shutdown wait limit (about ten seconds).
//
// The real single-node Store is opened, the real gate (Store.snapshotCAS, the
// object Snapshot, Backup and the start-up integrity check take) is held under
// each of the three owner names the code uses, Close is called, and the holder
// lets go a chosen time after the Close call: every combination of
// owner x release offset x snapshot-on-close is run. The release offsets sit on
// both sides of the 10 ms retry interval and reach 2.5 s; two further cases hold
// the gate beyond the limit.
//
// Oracle (no short wall-clock bound): a Close whose holder lets go after h
//   - returns nil,
//   - does not return before the holder has let go, and
//   - returns within h + c31Slack. The slack (5 s) is far above what the rest of
//     Close costs on one node (tens of ms) and far below the ~10 s it takes when
//     the wait degenerates into a single retry after the limit.
//
// A Close whose holder stays beyond the limit returns the gate's timeout error,
// not before 9 s, and a second Close after the holder is gone succeeds.

const c31Slack = 5 * time.Second

type c31Case struct {
	owner       string
	hold        time.Duration // the holder releases this long after Close is called; <0: released before Close
	snapOnClose bool
	beyond      bool // holder stays beyond the limit
	heldBefore  time.Duration // the holder already holds the gate this long when Close is called
}

func (c c31Case) String() string {
	return fmt.Sprintf("owner=%s held-before-close=%v hold=%v snapshot-on-close=%v beyond-limit=%v", c.owner, c.heldBefore, c.hold, c.snapOnClose, c.beyond)
}

// c31Open runs on worker goroutines, so a broken harness panics instead of t.Fatal.
func c31Open(t *testing.T) (*Store, func()) {
	s, ln := mustNewStoreAtPathsLn(random.String(), kit.Scratch(t), false)
	if err := s.Open(); err != nil {
		panic(fmt.Sprintf("harness: open: %v", err))
	}
	if err := s.Bootstrap(NewServer(s.ID(), s.Addr(), true)); err != nil {
		panic(fmt.Sprintf("harness: bootstrap: %v", err))
	}
	if _, err := s.WaitForLeader(60 * time.Second); err != nil {
		panic(fmt.Sprintf("harness: leader: %v", err))
	}
	return s, func() { ln.Close() }
}

func TestVerif_C31(t *testing.T) {
	r := kit.Start(t, "C31", "close")
	defer r.Finish()
	r.Rule("every combination of gate owner {snapshot, backup, check-clean-snapshot} x release offset after the Close call {released before, 1ms, 5ms, 10ms, 15ms, 100ms, 1s, 2.5s} x snapshot-on-close {off, on} on a real single-node Store, plus the gate held beyond the 10 s limit for two owners, plus a holder already 10.5 s into its work when Close is called (releasing 1.5 s later: Close must wait and succeed; or staying 11.5 s more: Close must give up about 10 s after it was CALLED); distinct = (owner, offset, snapshot-on-close, outcome class)")
	r.Assume("the rest of Store.Close (snapshot-on-close, raft shutdown, closing SQLite and bbolt) finishes within 5 s on this machine; measured values are in the samples")

	var cases []c31Case
	holds := []time.Duration{-1, time.Millisecond, 5 * time.Millisecond, 10 * time.Millisecond, 15 * time.Millisecond, 100 * time.Millisecond, time.Second, 2500 * time.Millisecond}
	for _, o := range []string{"snapshot", "backup", "check-clean-snapshot"} {
		for _, h := range holds {
			for _, sc := range []bool{false, true} {
				cases = append(cases, c31Case{owner: o, hold: h, snapOnClose: sc})
			}
		}
	}
	cases = append(cases, c31Case{owner: "backup", hold: 11500 * time.Millisecond, beyond: true},
		c31Case{owner: "snapshot", hold: 11500 * time.Millisecond, snapOnClose: true, beyond: true})
	// the limit counts from the Close call, not from when the holder took the gate: a holder that is already
	// 10.5 s into its work when Close is called and finishes 1.5 s later is well inside what Close may wait for
	cases = append(cases, c31Case{owner: "backup", heldBefore: 10500 * time.Millisecond, hold: 1500 * time.Millisecond},
		c31Case{owner: "snapshot", heldBefore: 10500 * time.Millisecond, hold: 1500 * time.Millisecond, snapOnClose: true},
		c31Case{owner: "backup", heldBefore: 10500 * time.Millisecond, hold: 11500 * time.Millisecond, beyond: true})

	var mu sync.Mutex
	var wg sync.WaitGroup
	sem := make(chan struct{}, 8)
	for i, c := range cases {
		wg.Add(1)
		sem <- struct{}{}
		go func(i int, c c31Case) {
			defer wg.Done()
			defer func() { <-sem }()
			out, took, extra := c31Run(t, r, c)
			mu.Lock()
			defer mu.Unlock()
			r.Eval(1)
			r.Distinct(fmt.Sprintf("%s|%v|%v|%v|%s", c.owner, c.heldBefore, c.hold, c.snapOnClose, out))
			if i%9 == 0 || c.beyond {
				r.Sample(map[string]any{"case": c.String(), "outcome": out, "close_took_ms": took.Milliseconds(), "after_release_ms": extra.Milliseconds()})
			}
		}(i, c)
	}
	wg.Wait()
}

// c31Run runs one case and returns the outcome class, how long Close took and
// how long after the release it returned.
func c31Run(t *testing.T, r *kit.Run, c c31Case) (string, time.Duration, time.Duration) {
	s, done := c31Open(t)
	defer done()
	s.NoSnapshotOnClose = !c.snapOnClose
	replay := map[string]any{"owner": c.owner, "hold_ns": int64(c.hold), "held_before_ns": int64(c.heldBefore), "snapshot_on_close": c.snapOnClose, "beyond_limit": c.beyond}

	if err := s.snapshotCAS.Begin(c.owner); err != nil {
		panic(fmt.Sprintf("harness: cannot take the gate on a fresh store: %v", err))
	}
	var released time.Time
	var relMu sync.Mutex
	release := func() {
		relMu.Lock()
		defer relMu.Unlock()
		if released.IsZero() {
			released = time.Now()
			s.snapshotCAS.End()
		}
	}
	if c.hold < 0 {
		release()
	}
	if c.heldBefore > 0 {
		time.Sleep(c.heldBefore)
	}
	start := time.Now()
	var tm *time.Timer
	if c.hold >= 0 {
		tm = time.AfterFunc(c.hold, release)
		defer tm.Stop()
	}
	err := s.Close(true)
	end := time.Now()
	took := end.Sub(start)
	relMu.Lock()
	rel := released
	relMu.Unlock()

	if c.beyond {
		out := "timeout-error"
		switch {
		case err == nil:
			r.Violation("C31:close-succeeded-while-gate-held", fmt.Sprintf("%s: Close returned nil after %v although the holder had not let go", c, took), replay)
			out = "nil-while-held"
		case !errors.Is(err, rsync.ErrCASConflictTimeout):
			r.Violation("C31:close-failed-with-other-error", fmt.Sprintf("%s: Close returned %v after %v", c, err, took), replay)
			out = "other-error"
		case took < 9*time.Second:
			r.Violation("C31:close-gave-up-early", fmt.Sprintf("%s: Close gave up after %v, the limit is about 10 s", c, took), replay)
			out = "gave-up-early"
		case !rel.IsZero() && rel.Before(end):
			// the holder let go (at 11.5 s) before Close returned: Close waited beyond the limit and then still failed
			r.Violation("C31:close-failed-after-holder-finished", fmt.Sprintf("%s: Close failed with %v after %v although the holder had let go %v earlier", c, err, took, end.Sub(rel)), replay)
			out = "failed-after-release"
		}
		// the node must still be closable once the holder is gone
		release()
		t2 := time.Now()
		if err2 := s.Close(true); err2 != nil {
			r.Violation("C31:second-close-failed", fmt.Sprintf("%s: Close after the holder let go returned %v", c, err2), replay)
			out += "+second-close-error"
		} else if d := time.Since(t2); d > c31Slack {
			r.Violation("C31:close-waits-full-interval", fmt.Sprintf("%s: second Close with a free gate took %v", c, d), replay)
			out += "+second-close-slow"
		}
		return out, took, 0
	}

	if err != nil {
		release()
		s.Close(true)
		r.Violation("C31:close-failed-within-limit", fmt.Sprintf("%s: Close returned %v after %v; the holder lets go well inside the limit", c, err, took), replay)
		return "error", took, 0
	}
	if rel.IsZero() || rel.After(end) {
		release()
		r.Violation("C31:close-did-not-wait-for-holder", fmt.Sprintf("%s: Close returned nil after %v, before the holder let go", c, took), replay)
		return "returned-before-release", took, 0
	}
	after := end.Sub(rel)
	h := c.hold
	if h < 0 {
		h = 0
	}
	if took > h+c31Slack {
		r.Violation("C31:close-waits-full-interval", fmt.Sprintf("%s: Close took %v, %v after the holder let go (prompt means well under %v)", c, took, after, c31Slack), replay)
		return "slow", took, after
	}
	return "prompt", took, after
}
