package store

import (
	"bytes"
	"context"
	"crypto/sha256"
	"encoding/hex"
	"encoding/json"
	"errors"
	"fmt"
	"net"
	"os"
	"path/filepath"
	"strings"
	"sync"
	"testing"
	"time"

	"github.com/hashicorp/raft"
	"github.com/rqlite/rqlite/v10/command/proto"
	sql "github.com/rqlite/rqlite/v10/db"
	kit "github.com/rqlite/rqlite/v10/internal/verifkit"
)

// C22: after a successful load (database file or SQL text) or boot, every node's
// database equals the loaded database plus later writes, and this survives later
// snapshots, restarts and snapshot transfers to nodes that join afterwards. A
// load whose data is not a valid database is rejected without changing any node.
//
// Every history up to the explored length over
//
//	W  write (insert with automatic id + counter increment, one transaction) followed
//	   by the insert of a child row without parent, accepted or refused according to
//	   the foreign-key setting the database runs with (configured off; on in a second
//	   run of the directed histories): whatever the leader answers, every node must
//	   show that outcome, also after a restart and on a node that joins later
//	A  load a WAL-mode SQLite file (several pages)
//	D  load a DELETE-mode SQLite file
//	T  load SQL text the way POST /db/load does for data that is not a SQLite file:
//	   one Execute request holding the whole text as one statement, rollback-on-error
//	I  invalid loads, one after the other, each checked: random bytes, garbage text
//	   and empty data through the /db/load dispatch; random bytes and empty data
//	   straight into Store.Load (where the inter-node load request arrives); on a
//	   single node also random bytes and empty data into boot
//	B  boot (Store.ReadFrom) from a database file - only offered on a single node
//	S  snapshot on every node with one trailing log entry (the log is truncated, so a
//	   node that joins later can only get the earlier data inside a snapshot)
//	R  restart every node, the joined node first, without snapshot-on-close (so the
//	   log tail is replayed; "S then R" is the restart from a snapshot)
//	J  a second real Store is opened and joined as a read-only node (once)
//
// runs on a fresh real Store; every history is followed by one more write and a
// closing sequence: a database file truncated in its second page (valid header)
// is given to Store.Load and, on a single node, to boot, then one more write. A reference
// model (rows of t, counter) is stepped alongside. After EVERY step, on EVERY
// node, once the joined node's applied index has reached the leader's last
// command, the logical dump (schema and all rows of all tables, read locally)
// must equal the model; an invalid load must return an error and change nothing.

// p/k are a parent/child pair: whether a child row without parent is accepted depends
// on the foreign-key setting the database is RUN with, which every incarnation of a
// node (live after a swap, rebuilt at start-up, restored from a snapshot) must take
// from the node's configuration.
const c22Schema = "CREATE TABLE t(id INTEGER PRIMARY KEY, v TEXT);CREATE TABLE c(n INTEGER);CREATE TABLE p(id INTEGER PRIMARY KEY);CREATE TABLE k(id INTEGER PRIMARY KEY, p INTEGER REFERENCES p(id))"

const c22Orphan = 7777 // a parent id that never exists

var c22OpName = map[byte]string{'W': "write", 'A': "load-wal-file", 'D': "load-delete-file", 'T': "load-sql-text", 'I': "invalid-loads",
	'B': "boot", 'S': "snapshot", 'R': "restart", 'J': "join"}

const c22Converge = 90 * time.Second

// c22Port owns one real listener for the whole life of a case, so that a node can be
// stopped and started again on the same address without the port being taken
// by somebody else in between. Every Store gets its own c22Layer; connections are
// handed to the layer that is current, and are closed while no Store is open.
type c22Port struct {
	ln  net.Listener
	mu  sync.Mutex
	cur *c22Layer
}

type c22Layer struct {
	port *c22Port
	ch   chan net.Conn
	done chan struct{}
	once sync.Once
}

func c22NewPort() *c22Port {
	ln, err := net.Listen("tcp", "127.0.0.1:0")
	if err != nil {
		panic(fmt.Sprintf("harness: cannot listen: %v", err))
	}
	p := &c22Port{ln: ln}
	go func() {
		for {
			conn, err := ln.Accept()
			if err != nil {
				return
			}
			p.mu.Lock()
			l := p.cur
			p.mu.Unlock()
			if l == nil {
				conn.Close()
				continue
			}
			select {
			case l.ch <- conn:
			case <-l.done:
				conn.Close()
			}
		}
	}()
	return p
}

// layer returns a fresh Layer on the port; it becomes the one that receives connections.
func (p *c22Port) layer() *c22Layer {
	l := &c22Layer{port: p, ch: make(chan net.Conn), done: make(chan struct{})}
	p.mu.Lock()
	p.cur = l
	p.mu.Unlock()
	return l
}

func (p *c22Port) release() { p.ln.Close() }

func (l *c22Layer) Dial(addr string, timeout time.Duration) (net.Conn, error) {
	return net.DialTimeout("tcp", addr, timeout)
}

func (l *c22Layer) Accept() (net.Conn, error) {
	select {
	case c := <-l.ch:
		return c, nil
	case <-l.done:
		return nil, net.ErrClosed
	}
}

func (l *c22Layer) Close() error {
	l.once.Do(func() { close(l.done) })
	return nil
}

func (l *c22Layer) Addr() net.Addr { return l.port.ln.Addr() }

// c22WaitLeader waits until the store is the leader (the only voter always becomes one).
func c22WaitLeader(s *Store) error {
	deadline := time.Now().Add(c22Converge)
	for s.raft.State() != raft.Leader {
		if time.Now().After(deadline) {
			return fmt.Errorf("not leader after %v", c22Converge)
		}
		time.Sleep(5 * time.Millisecond)
	}
	_, err := s.WaitForLeader(c22Converge)
	return err
}

func c22ScratchRoot(t *testing.T) string {
	if os.Getenv("VERIF_NO_SHM") == "" {
		if st, err := os.Stat("/dev/shm"); err == nil && st.IsDir() {
			old, _ := filepath.Glob("/dev/shm/verif-c22-*")
			for _, o := range old {
				if fi, err := os.Stat(o); err == nil && time.Since(fi.ModTime()) > 2*time.Hour {
					os.RemoveAll(o)
				}
			}
			if d, err := os.MkdirTemp("/dev/shm", "verif-c22-"); err == nil {
				t.Cleanup(func() { os.RemoveAll(d) })
				return d
			}
		}
	}
	return kit.Scratch(t)
}

// c22Model is the reference: rows of t in id order and the counter.
type c22Model struct {
	ids []int
	vs  []string
	n   int
	ps  []int    // rows of p
	ks  [][2]int // rows of k: id, p
}

func (m *c22Model) add(v string) {
	id := 1
	if len(m.ids) > 0 {
		id = m.ids[len(m.ids)-1] + 1
	}
	m.ids = append(m.ids, id)
	m.vs = append(m.vs, v)
}

func (m *c22Model) tables() string {
	var b strings.Builder
	fmt.Fprintf(&b, "[c]\n%d\n[k]\n", m.n)
	for _, k := range m.ks {
		fmt.Fprintf(&b, "%d|%d\n", k[0], k[1])
	}
	b.WriteString("[p]\n")
	for _, p := range m.ps {
		fmt.Fprintf(&b, "%d\n", p)
	}
	b.WriteString("[t]\n")
	for i := range m.ids {
		fmt.Fprintf(&b, "%d|%s\n", m.ids[i], m.vs[i])
	}
	return b.String()
}

func c22Content(tag string, rows, pad, counter int) *c22Model {
	m := &c22Model{n: counter, ps: []int{1}, ks: [][2]int{{1, 1}}} // one proper parent/child pair
	for i := 1; i <= rows; i++ {
		m.ids = append(m.ids, i)
		m.vs = append(m.vs, fmt.Sprintf("%s%d%s", tag, i, strings.Repeat("x", pad)))
	}
	return m
}

func (m *c22Model) clone() *c22Model {
	return &c22Model{ids: append([]int(nil), m.ids...), vs: append([]string(nil), m.vs...), n: m.n,
		ps: append([]int(nil), m.ps...), ks: append([][2]int(nil), m.ks...)}
}

// c22Inputs are the generated load/boot inputs.
type c22Inputs struct {
	walFile, delFile, bootFile []byte
	sqlText                    string
	random, truncated          []byte
	walM, delM, bootM, textM   *c22Model
}

func c22MakeFile(dir, name string, m *c22Model, wal bool) []byte {
	p := filepath.Join(dir, name)
	d, err := sql.Open(p, false, wal)
	if err != nil {
		panic(err)
	}
	qs := strings.Split(c22Schema, ";")
	for i := range m.ids {
		qs = append(qs, fmt.Sprintf("INSERT INTO t(id,v) VALUES(%d,'%s')", m.ids[i], m.vs[i]))
	}
	qs = append(qs, fmt.Sprintf("INSERT INTO c(n) VALUES(%d)", m.n))
	for _, p := range m.ps {
		qs = append(qs, fmt.Sprintf("INSERT INTO p(id) VALUES(%d)", p))
	}
	for _, k := range m.ks {
		qs = append(qs, fmt.Sprintf("INSERT INTO k(id,p) VALUES(%d,%d)", k[0], k[1]))
	}
	for _, q := range qs {
		if r, err := d.ExecuteStringStmt(q); err != nil || r[0].GetError() != "" {
			panic(fmt.Sprintf("harness: %s: %v %v", q, err, r))
		}
	}
	if wal {
		if _, err := d.Checkpoint(sql.CheckpointTruncate); err != nil {
			panic(err)
		}
	}
	if err := d.Close(); err != nil {
		panic(err)
	}
	b, err := os.ReadFile(p)
	if err != nil {
		panic(err)
	}
	if wal != sql.IsWALModeEnabled(b) || wal == sql.IsDELETEModeEnabled(b) {
		panic("harness: generated file is not in the intended journal mode")
	}
	return b
}

func c22MakeInputs(dir string) *c22Inputs {
	in := &c22Inputs{
		walM:  c22Content("la", 120, 100, 100), // ~4 pages
		delM:  c22Content("ld", 3, 0, 200),
		bootM: c22Content("lb", 60, 100, 400),
		textM: c22Content("lt", 5, 0, 300),
	}
	in.walFile = c22MakeFile(dir, "wal.db", in.walM, true)
	in.delFile = c22MakeFile(dir, "del.db", in.delM, false)
	in.bootFile = c22MakeFile(dir, "boot.db", in.bootM, false)
	if len(in.walFile) < 4*4096 {
		panic("harness: WAL-mode file is not multi-page")
	}
	// SQL text: the real dump of a database, made self-contained by dropping the tables first
	p := filepath.Join(dir, "text.db")
	c22MakeFile(dir, "text.db", in.textM, false)
	d, err := sql.Open(p, false, false)
	if err != nil {
		panic(err)
	}
	var buf bytes.Buffer
	if err := d.Dump(&buf); err != nil {
		panic(err)
	}
	d.Close()
	const begin = "BEGIN TRANSACTION;\n"
	txt := buf.String()
	if !strings.Contains(txt, begin) {
		panic("harness: unexpected dump format: " + txt)
	}
	in.sqlText = strings.Replace(txt, begin, begin+"DROP TABLE IF EXISTS k;\nDROP TABLE IF EXISTS p;\nDROP TABLE IF EXISTS t;\nDROP TABLE IF EXISTS c;\n", 1)
	// random bytes (fixed), never starting with the SQLite magic
	in.random = make([]byte, 2048)
	x := uint64(0x9E3779B97F4A7C15)
	for i := range in.random {
		x ^= x << 13
		x ^= x >> 7
		x ^= x << 17
		in.random[i] = byte(x >> 32)
	}
	if sql.IsValidSQLiteData(in.random) {
		panic("harness: random bytes look like SQLite")
	}
	// a database cut in the middle of its second page: the header is intact
	in.truncated = append([]byte(nil), in.walFile[:4096+2048]...)
	return in
}

type c22Node struct {
	role string // "leader" | "joined-node"
	fk   bool   // the node's configured foreign-key setting
	id   string
	dir  string
	addr string
	port *c22Port
	ly   *c22Layer
	s    *Store
}

func (n *c22Node) open() error {
	if n.port == nil {
		n.port = c22NewPort()
	}
	n.ly = n.port.layer()
	n.addr = n.ly.Addr().String()
	cfg := NewDBConfig()
	cfg.FKConstraints = n.fk
	s := New(&Config{DBConf: cfg, Dir: n.dir, ID: n.id}, n.ly)
	s.NoSnapshotOnClose = true
	if n.role == "leader" {
		// the only voter: short timeouts only shorten its self-election
		s.HeartbeatTimeout = 100 * time.Millisecond
		s.ElectionTimeout = 100 * time.Millisecond
		s.LeaderLeaseTimeout = 100 * time.Millisecond
	}
	n.s = s
	return s.Open()
}

// c22Dump is the logical dump of one node read locally (level NONE).
func c22Dump(s *Store) (string, error) {
	q := func(stmt string) (*proto.QueryRows, error) {
		qr := queryRequestFromString(stmt, false, false, false)
		qr.Level = proto.ConsistencyLevel_NONE
		rows, _, _, err := s.Query(context.Background(), qr)
		if err != nil {
			return nil, err
		}
		if len(rows) != 1 {
			return nil, fmt.Errorf("%d results", len(rows))
		}
		if rows[0].Error != "" {
			return nil, errors.New(rows[0].Error)
		}
		return rows[0], nil
	}
	cell := func(p *proto.Parameter) string {
		switch v := p.GetValue().(type) {
		case *proto.Parameter_I:
			return fmt.Sprintf("%d", v.I)
		case *proto.Parameter_D:
			return fmt.Sprintf("%g", v.D)
		case *proto.Parameter_S:
			return v.S
		case *proto.Parameter_Y:
			return "x" + hex.EncodeToString(v.Y)
		case *proto.Parameter_B:
			return fmt.Sprintf("%v", v.B)
		}
		return "NULL"
	}
	m, err := q("SELECT type, name, tbl_name, sql FROM sqlite_master ORDER BY type, name")
	if err != nil {
		return "", fmt.Errorf("reading schema: %v", err)
	}
	var b strings.Builder
	var tables []string
	for _, r := range m.Values {
		var cs []string
		for _, p := range r.Parameters {
			cs = append(cs, cell(p))
		}
		b.WriteString(strings.Join(cs, "|") + "\n")
		if cs[0] == "table" {
			tables = append(tables, cs[1])
		}
	}
	for _, tn := range tables {
		rows, err := q(fmt.Sprintf("SELECT * FROM %q ORDER BY rowid", tn))
		if err != nil {
			return "", fmt.Errorf("reading table %s: %v", tn, err)
		}
		fmt.Fprintf(&b, "[%s]\n", tn)
		for _, r := range rows.Values {
			var cs []string
			for _, p := range r.Parameters {
				cs = append(cs, cell(p))
			}
			b.WriteString(strings.Join(cs, "|") + "\n")
		}
	}
	return b.String(), nil
}

const c22SchemaDump = "table|c|c|CREATE TABLE c(n INTEGER)\ntable|k|k|CREATE TABLE k(id INTEGER PRIMARY KEY, p INTEGER REFERENCES p(id))\ntable|p|p|CREATE TABLE p(id INTEGER PRIMARY KEY)\ntable|t|t|CREATE TABLE t(id INTEGER PRIMARY KEY, v TEXT)\n"

// c22Leaves lists the histories of exactly the given length: J at most once, B only before J.
func c22Leaves(depth int) []string {
	var out []string
	var rec func(h string, joined bool)
	rec = func(h string, joined bool) {
		if len(h) == depth {
			out = append(out, h)
			return
		}
		for _, op := range "WADTIBSRJ" {
			switch {
			case op == 'J' && joined, op == 'B' && joined:
				continue
			}
			rec(h+string(op), joined || op == 'J')
		}
	}
	rec("", false)
	return out
}

// c22Directed are longer histories aimed at the mechanisms named by the property:
// the full-snapshot-needed mark after a swap, the journal-mode conversion, the
// fingerprint after boot, data that can only travel inside a snapshot.
var c22Directed = []string{
	"ASWRJ", "SAWSJ", "SDWSJ", "SBWSJ", "WSTSJ", "AISWJ", "SWSAJ", "JSASR", "JAWSR", "SJDSR",
	"BWSRJ", "ASBSJ", "DWRSJ", "SASRJ", "SBSRW", "SDSRW", "WSASRJ", "JSDWSR", "SAWSRJ", "BSWSRJ",
	// a restart before the load/boot: the Store then has no in-memory record of the
	// database file's modification time, so only the persistent full-snapshot-needed
	// mark can make the snapshot after the swap a full one
	"SRAWSJ", "SRDWSJ", "SRBWSJ", "SRTWSJ", "SRASJ", "SRBSJ", "SRAWSRJ", "SJRAWSR",
	// file load, snapshot, write (with its child row without parent), then a restart that
	// replays only the log after the snapshot, or a join fed snapshot + log: the database
	// rebuilt there must treat the child row as the live one did
	"ASWR", "DSWR", "ASWJ", "DSWJ", "DSWRJ", "JASWR", "JDSWR", "BSWR",
}

type c22Case struct {
	History string `json:"history"`
	// BootFirst: in the closing sequence the truncated database is given to boot
	// before it is given to Store.Load (single-node histories only).
	BootFirst bool `json:"boot_first,omitempty"`
	// FK: the nodes are configured with foreign-key enforcement on (default: off).
	FK bool `json:"fk,omitempty"`
}

func TestVerif_C22(t *testing.T) {
	r := kit.Start(t, "C22", "hist")
	defer r.Finish()
	depth := r.Pick(3, 4)
	r.Rule(fmt.Sprintf("every history of length <=%d"+map[bool]string{true: "", false: " (quick tier: of the longest ones only those that begin with a load, boot, snapshot or join, contain a load, boot or invalid load and no SQL-text load - the real handler is part http; all histories one step shorter are covered)"}[r.Thorough()]+" over {write, load WAL-mode file, load DELETE-mode file, load SQL text (as /db/load does), invalid loads (random bytes, garbage text, empty data; through the /db/load dispatch, Store.Load and boot), boot (single node), snapshot with log truncation on every node, restart every node, join a second real Store (once)} on a fresh real Store, plus %d directed histories of length 4-7 (each also with the nodes configured with foreign keys on), each followed by one more write and a closing sequence (a database truncated in its second page given to Store.Load and, on a single node, to boot - in the other order in 4 extra cases - then one more write); after every step the joined node is awaited (applied index >= leader's last command, limit %v) and the logical dump of every node is compared with the reference model; invalid loads must be refused and change nothing. Histories are run as the leaves of the tree (every shorter history is a prefix of a leaf and is checked there). distinct = (history, per-step observation)", depth, len(c22Directed), c22Converge))
	r.Assume("the joining node is a read-only (non-voting) node, so the first node stays a one-voter leader whatever the machine load; replication to a non-voter uses the same log/snapshot-install path as to a voter")
	r.Assume("operations are sequential; loads racing with writes or with snapshots are not explored; chunked loads are C28")
	r.Note("SQL text is the real dump of a database with DROP TABLE IF EXISTS for its tables put first, so that the text alone determines the resulting database")

	scratch := c22ScratchRoot(t)
	in := c22MakeInputs(scratch)

	var cases []c22Case
	if rp := kit.Replay(); rp != nil {
		var c c22Case
		if err := json.Unmarshal(rp, &c); err != nil {
			t.Fatalf("replay: %v", err)
		}
		cases = []c22Case{c}
	} else {
		if r.Thorough() {
			for _, h := range c22Leaves(depth) {
				cases = append(cases, c22Case{History: h})
			}
		} else {
			// Quick tier. Of the histories of the full length it runs those that begin with
			// a load, a boot, a snapshot or the join, do not contain the SQL-text load (the
			// real /db/load handler runs in part "http"; T stays in the shorter and in the
			// directed histories) and contain a load, boot or invalid load. Left out: a
			// leading write (the set-up already is one), a leading restart of the node that
			// was just set up, a leading invalid load. Every history one step shorter that is
			// not a prefix of those is run as well, so all shorter histories are covered.
			covered := map[string]bool{}
			for _, h := range c22Leaves(depth) {
				if strings.ContainsRune("ADBSJ", rune(h[0])) && !strings.Contains(h, "T") && strings.ContainsAny(h, "ADBI") {
					cases = append(cases, c22Case{History: h})
					covered[h[:depth-1]] = true
				}
			}
			for _, h := range c22Leaves(depth - 1) {
				if !covered[h] {
					cases = append(cases, c22Case{History: h})
				}
			}
		}
		for _, h := range c22Directed {
			cases = append(cases, c22Case{History: h})
			// and with the nodes configured with foreign-key enforcement on
			cases = append(cases, c22Case{History: h, FK: true})
		}
		for _, h := range []string{"", "B", "AS", "WSR"} {
			cases = append(cases, c22Case{History: h, BootFirst: true})
		}
	}
	prefixes := map[string]bool{}
	for _, c := range cases {
		for i := 1; i <= len(c.History); i++ {
			prefixes[c.History[:i]] = true
		}
	}
	nStates := len(prefixes)

	workers := 32 // a history mostly waits (elections, replication)
	if sh := os.Getenv("VERIF_SHARD"); sh != "" {
		var k, n int
		if _, err := fmt.Sscanf(sh, "%d/%d", &k, &n); err != nil || n <= 0 {
			t.Fatalf("VERIF_SHARD=%q", sh)
		}
		var mine []c22Case
		for i, c := range cases {
			if i%n == k {
				mine = append(mine, c)
			}
		}
		cases = mine
		workers = max(2, 32/n)
		if k != 0 {
			nStates = 0 // counted by shard 0
		}
	}
	capped := false
	var mu sync.Mutex
	var wg sync.WaitGroup
	sem := make(chan struct{}, workers)
	for i, c := range cases {
		if r.OverBudget() {
			if !capped {
				capped = true
				r.Cap("time budget used up after %d of %d histories of this shard", i, len(cases))
			}
			break
		}
		wg.Add(1)
		sem <- struct{}{}
		go func(i int, c c22Case) {
			defer wg.Done()
			defer func() { <-sem }()
			obs, steps := c22Run(t, r, c, in, filepath.Join(scratch, fmt.Sprintf("case%d", i)))
			mu.Lock()
			defer mu.Unlock()
			r.Eval(1)
			r.Transition(steps)
			for k, o := range obs {
				r.Distinct(fmt.Sprintf("%s/%v/%v#%d=>%s", c.History, c.BootFirst, c.FK, k, o))
			}
			if i%211 == 5 {
				r.Sample(map[string]any{"history": c.History + "+W", "steps": obs})
			}
		}(i, c)
	}
	wg.Wait()
	r.State(nStates)
}

type c22Exec struct {
	t       *testing.T
	r       *kit.Run
	h       string
	cs      c22Case
	in      *c22Inputs
	a, b    *c22Node
	model   *c22Model
	lastCmd uint64 // index of the last command entry appended by the leader
	lastLog uint64
	shape   string // last operation that replaced the whole database
	obs     []string
	steps   int
	pos     int
	dead    bool // a violation made the rest of the history meaningless
}

func (c *c22Exec) must(what string, err error) {
	if err != nil {
		panic(fmt.Sprintf("harness: history %q step %d: %s: %v", c.h, c.pos, what, err))
	}
}

func (c *c22Exec) where() string {
	fk := ""
	if c.cs.FK {
		fk = "nodes configured with foreign keys on, "
	}
	return fmt.Sprintf("%shistory %s, step %d", fk, c22Spell(c.h, c.pos), c.pos+1)
}

func (c *c22Exec) nodes() []*c22Node {
	if c.b != nil {
		return []*c22Node{c.a, c.b}
	}
	return []*c22Node{c.a}
}

// noteLog records the last command entry the leader has appended.
func (c *c22Exec) noteLog() {
	li := c.a.s.raft.LastIndex()
	for i := li; i > c.lastLog; i-- {
		var e raft.Log
		if err := c.a.s.raftLog.GetLog(i, &e); err == nil && e.Type == raft.LogCommand {
			if i > c.lastCmd {
				c.lastCmd = i
			}
			break
		}
	}
	c.lastLog = li
}

// settle waits until the joined node has applied the leader's last command.
func (c *c22Exec) settle(after string) bool {
	c.noteLog()
	if c.b == nil {
		return true
	}
	deadline := time.Now().Add(c22Converge)
	for c.b.s.fsmIdx.Load() < c.lastCmd {
		if time.Now().After(deadline) {
			c.obs = append(c.obs, "joined-node-behind")
			c.r.Violation("C22:joined-node-does-not-catch-up:after-"+after, fmt.Sprintf("%s: the joined node has applied index %d, the leader's last command is %d, after %v", c.where(), c.b.s.fsmIdx.Load(), c.lastCmd, c22Converge), c.cs)
			c.dead = true
			return false
		}
		time.Sleep(5 * time.Millisecond)
	}
	return true
}

// check compares every node with the model. class names the kind of step.
func (c *c22Exec) check(class string) bool {
	return c.checkKeyed(class, func(kind, role string) string {
		return fmt.Sprintf("C22:node-%s:%s:after-%s:database-from-%s", kind, role, class, c.shape)
	})
}

func (c *c22Exec) checkKeyed(class string, key func(kind, role string) string) bool {
	if !c.settle(class) {
		return false
	}
	want := c22SchemaDump + c.model.tables()
	ok := true
	for _, n := range c.nodes() {
		got, err := c22Dump(n.s)
		switch {
		case err != nil:
			ok = false
			c.obs = append(c.obs, n.role+":unreadable")
			c.r.Violation(key("unreadable", n.role), fmt.Sprintf("%s (%s): the %s cannot be read: %v", c.where(), class, n.role, err), c.cs)
		case got != want:
			ok = false
			c.obs = append(c.obs, n.role+":differs")
			c.r.Violation(key("differs", n.role), fmt.Sprintf("%s (%s): the %s differs from the loaded database plus later writes: %s", c.where(), class, n.role, c22Diff(want, got)), c.cs)
		}
	}
	if ok {
		h := sha256.Sum256([]byte(want))
		c.obs = append(c.obs, fmt.Sprintf("%s:%d-nodes=%s", class, len(c.nodes()), hex.EncodeToString(h[:5])))
	} else {
		c.dead = true
	}
	return ok
}

// httpLoad does what POST /db/load does with the body b.
func (c *c22Exec) httpLoad(b []byte) (rejected bool, detail string) {
	ctx := context.Background()
	if sql.IsValidSQLiteData(b) {
		err := c.a.s.Load(ctx, &proto.LoadRequest{Data: b})
		return err != nil, fmt.Sprint(err)
	}
	er := executeRequestFromStrings([]string{string(b)}, false, false)
	er.Request.RollbackOnError = true
	res, _, err := c.a.s.Execute(ctx, er)
	if err != nil {
		return true, err.Error()
	}
	for _, x := range res {
		if x.GetError() != "" {
			return true, x.GetError()
		}
	}
	return false, "accepted"
}

// wellFormed records a refused load/boot of a well-formed input. The property only
// speaks about successful loads, so nothing can be checked after such a refusal;
// it never happens on the unchanged tree and is reported rather than hidden.
func (c *c22Exec) wellFormed(class string, err error) bool {
	if err == nil {
		return true
	}
	c.obs = append(c.obs, class+":refused")
	c.r.Violation("C22:well-formed-input-refused:"+class+":database-from-"+c.shape, fmt.Sprintf("%s: %s of a well-formed input returns: %v", c.where(), class, err), c.cs)
	c.dead = true
	return false
}

func (c *c22Exec) write(tag string) {
	ctx := context.Background()
	run := func(tx bool, qs ...string) error {
		res, _, err := c.a.s.Execute(ctx, executeRequestFromStrings(qs, false, tx))
		if err != nil {
			return err
		}
		for _, x := range res {
			if x.GetError() != "" {
				return errors.New(x.GetError())
			}
		}
		return nil
	}
	if err := run(true, fmt.Sprintf("INSERT INTO t(v) VALUES('%s')", tag), "UPDATE c SET n=n+1"); err != nil {
		// the database the property promises would accept this write
		c.obs = append(c.obs, "write-fails")
		c.r.Violation("C22:write-fails:database-from-"+c.shape, fmt.Sprintf("%s: a plain write fails: %v", c.where(), err), c.cs)
		c.dead = true
		return
	}
	c.model.add(tag)
	c.model.n++
	// A second request inserts a child row whose parent does not exist. Whether it is
	// accepted depends on the foreign-key setting the database is run with (configured
	// off by default, on in a second run of the directed histories). The property does
	// not say which answer is right, so the leader's answer is taken as given - but it
	// is an acknowledged outcome like any other: every node must show it, now and after
	// whatever its database goes through next (snapshot, restart, snapshot install).
	err := run(false, fmt.Sprintf("INSERT INTO k(p) VALUES(%d)", c22Orphan))
	if err == nil {
		id := 1
		if n := len(c.model.ks); n > 0 {
			id = c.model.ks[n-1][0] + 1
		}
		c.model.ks = append(c.model.ks, [2]int{id, c22Orphan})
		c.obs = append(c.obs, "child-without-parent:accepted")
	} else {
		c.obs = append(c.obs, "child-without-parent:refused")
	}
}

func (c *c22Exec) restart(n *c22Node) bool {
	c.must("close "+n.role, n.s.Close(true))
	if err := n.open(); err != nil {
		c.obs = append(c.obs, n.role+":restart-fails")
		c.r.Violation(fmt.Sprintf("C22:restart-fails:%s:database-from-%s", n.role, c.shape), fmt.Sprintf("%s: reopening the %s fails: %v", c.where(), n.role, err), c.cs)
		c.dead = true
		n.s = nil
		n.ly.Close()
		return false
	}
	if n.role == "leader" {
		c.must("leader after restart", c22WaitLeader(n.s))
		c.must("barrier after restart", n.s.Barrier())
	}
	// A Store that restarts on its existing database file verifies the file's checksum
	// in the background and refuses snapshots (and so boots) until that is done; the
	// history goes on when it is (pacing, like waiting for the leader).
	for deadline := time.Now().Add(c22Converge); n.s.snapshotCAS.Owner() != "" && time.Now().Before(deadline); {
		time.Sleep(5 * time.Millisecond)
	}
	return true
}

type c22Invalid struct {
	name string
	do   func() (rejected bool, detail string)
	must bool // an error is demanded (empty data through the text path is a vacuous SQL load)
}

func (c *c22Exec) directLoad(b []byte) func() (bool, string) {
	return func() (bool, string) {
		err := c.a.s.Load(context.Background(), &proto.LoadRequest{Data: b})
		return err != nil, fmt.Sprint(err)
	}
}

func (c *c22Exec) bootFrom(b []byte) func() (bool, string) {
	return func() (bool, string) {
		_, err := c.a.s.ReadFrom(bytes.NewReader(b))
		return err != nil, fmt.Sprint(err)
	}
}

// refuse performs invalid loads one after the other; each must be refused and none may change a node.
func (c *c22Exec) refuse(subs []c22Invalid) {
	for _, sb := range subs {
		if c.dead {
			return
		}
		c.steps++
		rejected, detail := sb.do()
		c.t.Logf("c22: history %q step %d: %s: rejected=%v: %.200s", c.h, c.pos+1, sb.name, rejected, detail)
		if !rejected && sb.must {
			c.obs = append(c.obs, sb.name+":accepted")
			c.r.Violation("C22:invalid-load-accepted:"+sb.name, fmt.Sprintf("%s: %s returned no error", c.where(), sb.name), c.cs)
		}
		// whatever it answered, no node may have changed
		c.checkKeyed("invalid-load:"+sb.name, func(kind, role string) string {
			return fmt.Sprintf("C22:invalid-load-changes-node:%s:%s-%s", sb.name, role, kind)
		})
	}
}

// invalid is operation I.
func (c *c22Exec) invalid() {
	subs := []c22Invalid{
		{"random-bytes:db-load-dispatch", func() (bool, string) { return c.httpLoad(c.in.random) }, true},
		{"garbage-text:db-load-dispatch", func() (bool, string) { return c.httpLoad([]byte("this is neither SQL nor a database;")) }, true},
		{"random-bytes:store-load", c.directLoad(c.in.random), true},
		{"empty:db-load-dispatch", func() (bool, string) { return c.httpLoad(nil) }, false},
		{"empty:store-load", c.directLoad(nil), true},
	}
	if c.b == nil {
		subs = append(subs,
			c22Invalid{"random-bytes:boot", c.bootFrom(c.in.random), true},
			c22Invalid{"empty:boot", c.bootFrom(nil), true})
	}
	c.refuse(subs)
}

// closing is the fixed end of every history: a database file cut in its second
// page (intact header) is given to Store.Load and, on a single node, to boot; it
// is kept out of operation I because a node that gives up its database on such a
// file would hide everything that follows.
func (c *c22Exec) closing() {
	subs := []c22Invalid{{"truncated-database:store-load", c.directLoad(c.in.truncated), true}}
	if c.b == nil {
		bt := c22Invalid{"truncated-database:boot", c.bootFrom(c.in.truncated), true}
		if c.cs.BootFirst {
			subs = []c22Invalid{bt, subs[0]}
		} else {
			subs = append(subs, bt)
		}
	}
	c.refuse(subs)
	if !c.dead {
		c.steps++
		c.write("after-refused-loads")
		if !c.dead {
			c.check("write")
		}
	}
}

func c22Run(t *testing.T, r *kit.Run, cs c22Case, in *c22Inputs, base string) ([]string, int) {
	defer os.RemoveAll(base)
	c := &c22Exec{t: t, r: r, h: cs.History, cs: cs, in: in, model: &c22Model{}, shape: "create-table"}
	c.pos = -1
	c.a = &c22Node{role: "leader", id: "n1", dir: filepath.Join(base, "n1"), fk: cs.FK}
	c.must("open", c.a.open())
	defer func() {
		for _, n := range c.nodes() {
			if n.s != nil {
				n.s.Close(true)
			}
			if n.port != nil {
				n.port.release()
			}
		}
	}()
	c.must("bootstrap", c.a.s.Bootstrap(NewServer(c.a.id, c.a.addr, true)))
	c.must("leader", c22WaitLeader(c.a.s))
	ctx := context.Background()
	res, _, err := c.a.s.Execute(ctx, executeRequestFromStrings(append(strings.Split(c22Schema, ";"), "INSERT INTO c(n) VALUES(0)"), false, true))
	c.must("schema", err)
	for _, x := range res {
		if x.GetError() != "" {
			panic("harness: schema: " + x.GetError())
		}
	}
	snapshot := func(n *c22Node) {
		err := n.s.Snapshot(1)
		// After a restart the Store verifies the checksum of its database file in the
		// background and refuses snapshots meanwhile ("CAS conflict"): a legitimate
		// transient refusal, so the request is repeated.
		// So is raft's "wait until the configuration entry ... has been applied" right
		// after the join (its FSM goroutine has not yet passed the membership entry).
		// (asked again only for a moment: after a restart the refusal lasts until the next command)
		start := time.Now()
		for err != nil && ((strings.Contains(err.Error(), "CAS conflict") && time.Since(start) < c22Converge) ||
			(strings.Contains(err.Error(), "wait until the configuration entry") && time.Since(start) < 2*time.Second)) {
			time.Sleep(10 * time.Millisecond)
			err = n.s.Snapshot(1)
		}
		if err != nil && err != ErrNothingNewToSnapshot && err != ErrNoWALToSnapshot &&
			!strings.Contains(err.Error(), "wait until the configuration entry") {
			// a loaded database cannot be said to survive a snapshot that cannot be taken
			c.obs = append(c.obs, n.role+":snapshot-fails")
			c.r.Violation(fmt.Sprintf("C22:snapshot-fails:%s:database-from-%s", n.role, c.shape), fmt.Sprintf("%s: the snapshot on the %s fails: %v", c.where(), n.role, err), c.cs)
			c.dead = true
		}
	}
	h := cs.History + "W" // the final write
	for i := 0; i < len(h) && !c.dead; i++ {
		c.pos = i
		c.steps++
		op := h[i]
		class := c22OpName[op]
		switch op {
		case 'W':
			c.write(fmt.Sprintf("w%d", i))
		case 'A':
			if !c.wellFormed(class, c.a.s.Load(ctx, &proto.LoadRequest{Data: in.walFile})) {
				continue
			}
			c.model, c.shape = in.walM.clone(), "load-wal-file"
		case 'D':
			if !c.wellFormed(class, c.a.s.Load(ctx, &proto.LoadRequest{Data: in.delFile})) {
				continue
			}
			c.model, c.shape = in.delM.clone(), "load-delete-file"
		case 'T':
			if rejected, detail := c.httpLoad([]byte(in.sqlText)); rejected && !c.wellFormed(class, errors.New(detail)) {
				continue
			}
			c.model, c.shape = in.textM.clone(), "load-sql-text"
		case 'I':
			c.steps--
			c.invalid()
			continue
		case 'B':
			if _, err := c.a.s.ReadFrom(bytes.NewReader(in.bootFile)); !c.wellFormed(class, err) {
				continue
			}
			c.model, c.shape = in.bootM.clone(), "boot"
		case 'S':
			for _, n := range c.nodes() {
				snapshot(n)
			}
		case 'R':
			ok := true
			if c.b != nil {
				ok = c.restart(c.b) && c.check("restart-of-joined-node")
			}
			if ok {
				ok = c.restart(c.a)
			}
			if !ok {
				continue
			}
		case 'J':
			c.b = &c22Node{role: "joined-node", id: "n2", dir: filepath.Join(base, "n2"), fk: cs.FK}
			c.must("open joining node", c.b.open())
			c.must("join", c.a.s.Join(joinRequest(c.b.id, c.b.addr, false)))
		}
		if !c.dead {
			c.check(class)
		}
	}
	c.pos = len(h)
	if !c.dead {
		c.closing()
	}
	return c.obs, c.steps
}

func c22Diff(want, got string) string {
	w, g := strings.Split(want, "\n"), strings.Split(got, "\n")
	for i := 0; i < len(w) || i < len(g); i++ {
		var a, b string
		if i < len(w) {
			a = w[i]
		}
		if i < len(g) {
			b = g[i]
		}
		if a != b {
			return fmt.Sprintf("expected %d lines, found %d; first difference at line %d: expected %.50q, found %.50q", len(w), len(g), i+1, a, b)
		}
	}
	return "equal"
}

// c22Spell spells the history and marks the step at position pos.
func c22Spell(h string, pos int) string {
	h += "W"
	var n []string
	for i := 0; i < len(h); i++ {
		s := c22OpName[h[i]]
		if i == len(h)-1 {
			s = "final-write"
		}
		if i == pos {
			s = ">>" + s + "<<"
		}
		n = append(n, s)
	}
	if pos >= len(h) {
		n = append(n, ">>closing: truncated database, write<<")
	}
	return strings.Join(n, ", ")
}
