package store

import (
	"bytes"
	"compress/gzip"
	"context"
	"crypto/sha256"
	"encoding/json"
	"errors"
	"fmt"
	"io"
	"os"
	"path/filepath"
	"sort"
	"strconv"
	"strings"
	"sync"
	"sync/atomic"
	"testing"
	"time"

	"github.com/rqlite/rqlite/v10/auto/backup"
	"github.com/rqlite/rqlite/v10/command/proto"
	c37sql "github.com/rqlite/rqlite/v10/db"
	kit "github.com/rqlite/rqlite/v10/internal/verifkit"
)

// C37, part "overlap": upload rounds that overlap writes, uploaders that are
// replaced, and rounds during which the Store cannot produce a backup.
//
// A real single-node Store is the data source - through the real store.Provider
// with its default retry schedule, configured as rqlited configures it by
// default (no vacuum, compressed) - of the real auto/backup Uploader, which
// writes to an in-memory storage client. The Uploader runs its real service loop
// (Start) on a 2 ms ticker; the loop's "is uploading enabled" question is
// answered with yes exactly once per round the history asks for, and the next
// question tells the harness that the round has returned, so one round = one
// upload() call and nothing depends on timing.
//
// Alphabet
//
//	W    write a row (acknowledged before the next step)
//	U    upload round
//	F    upload round during which the storage fails
//	1..K upload round with a write executed from INSIDE the k-th Write call the
//	     provider makes on the round's destination file (after the bytes of that
//	     call were handed on), for every k the round makes; K is measured
//	A    upload round with a write executed after the provider has delivered the
//	     complete backup and before the uploader goes on (label not yet final,
//	     nothing handed to the storage yet)
//	R    the uploader is replaced: the service is stopped and a new Uploader
//	     with a new Provider is started on the same Store and the same storage
//	     (restart of the service, change of leadership)
//	G    upload round during which another operation holds the Store's snapshot
//	     gate (Store.snapshotCAS, the real object) from before the round until
//	     after it: every attempt of the provider to produce a backup fails
//	P    like G, but the gate is let go when the provider starts its second
//	     attempt
//	D    upload round in which the 2nd Write call on the destination file fails
//	     once (a write error on the temporary file after part of the backup was
//	     written): the provider's first attempt fails half-way, its retry runs
//	     unhindered
//
// G and P are enumerated where the Store's WAL holds a change (then an attempt
// fails at once on its pre-backup snapshot and the round lasts the provider's
// 11 x 500 ms); with an empty WAL every attempt first waits 10 s for the gate
// (115 s per round) - those histories are left out and counted.
//
// After every history come two closing rounds of the current uploader.
//
// Reference model: the acknowledged writes in order (row k is the k-th write,
// with the log index the Store reported for it), and whether a change is due
// (yes / no / open). Oracle, for every object the storage accepted in a round
// that began with n0 acknowledged writes and ended with n1 (n1 = n0, or n0+1
// when the round injected one):
//   - it is a complete database: non-empty, a complete gzip stream, opens with
//     SQLite, table t can be read (else C37:incomplete-object-uploaded:*);
//   - its rows are exactly 1..j for some n0 <= j <= n1: a committed prefix that
//     holds every write acknowledged before the round began;
//   - its label is not ahead of its content: every write with log index <= label
//     is in the file (the statement: "contains every change up to the index it
//     is labelled with"); the label is not ahead of the database either.
//
// Rounds: a change is due and nothing obstructs the round => exactly one upload;
// nothing is due => no upload attempt; open (the previous round's file already
// held the write that was made during it) => either; storage fails => an
// attempt, nothing recorded, still due; gate held / destination failed =>
// whatever is uploaded must pass the object checks, otherwise the change stays
// due. A write that is not in
// the last accepted object is due. Final: after the closing rounds the newest
// object in the storage holds ALL rows.

const c37oInterval = 2 * time.Millisecond

type c37oUpload struct {
	id   string
	data []byte
}

type c37oStorage struct {
	mu       sync.Mutex
	failNext bool
	uploads  []c37oUpload
	attempts int
}

func (s *c37oStorage) Upload(ctx context.Context, r io.Reader, id string) error {
	b, err := io.ReadAll(r)
	s.mu.Lock()
	defer s.mu.Unlock()
	s.attempts++
	if err != nil {
		return err
	}
	if s.failNext {
		s.failNext = false
		return errors.New("c37: injected storage failure")
	}
	s.uploads = append(s.uploads, c37oUpload{id, b})
	return nil
}

func (s *c37oStorage) CurrentID(ctx context.Context) (string, error) {
	s.mu.Lock()
	defer s.mu.Unlock()
	if len(s.uploads) == 0 {
		return "", nil
	}
	return s.uploads[len(s.uploads)-1].id, nil
}

func (s *c37oStorage) String() string { return "c37-memory-storage" }

func (s *c37oStorage) counts() (int, int) {
	s.mu.Lock()
	defer s.mu.Unlock()
	return len(s.uploads), s.attempts
}

// c37oPlan says what happens around the next Provide call.
type c37oPlan struct {
	injectAt int    // k >= 1: after the k-th Write call; -1: after Provide returned; 0: none
	inject   func() // executes the write
	onSeek   func(n int)
	failAt   int // k >= 1: the k-th Write call fails (once, nothing of it is written)

	fired   bool
	firedAt int // Write call at which the write was executed; -1 = after Provide
	writes  int
	seeks   int
	called  bool
	err     error
}

// c37oProvider is the real Provider; only the destination it is handed is wrapped.
type c37oProvider struct {
	*Provider
	mu   sync.Mutex
	plan *c37oPlan
}

func (p *c37oProvider) set(pl *c37oPlan) {
	p.mu.Lock()
	p.plan = pl
	p.mu.Unlock()
}

func (p *c37oProvider) Provide(w io.WriteSeeker) error {
	p.mu.Lock()
	pl := p.plan
	p.plan = nil
	p.mu.Unlock()
	if pl == nil {
		pl = &c37oPlan{}
	}
	pl.called = true
	err := p.Provider.Provide(&c37oDest{w: w, pl: pl})
	pl.err = err
	if pl.inject != nil && !pl.fired {
		pl.fired, pl.firedAt = true, -1
		pl.inject()
	}
	return err
}

type c37oDest struct {
	w  io.WriteSeeker
	pl *c37oPlan
}

func (d *c37oDest) Write(b []byte) (int, error) {
	if d.pl.failAt > 0 && d.pl.writes+1 == d.pl.failAt {
		d.pl.writes++
		return 0, errors.New("c37: injected write error on the destination file")
	}
	n, err := d.w.Write(b)
	d.pl.writes++
	if d.pl.inject != nil && !d.pl.fired && d.pl.injectAt > 0 && d.pl.writes == d.pl.injectAt {
		d.pl.fired, d.pl.firedAt = true, d.pl.writes
		d.pl.inject()
	}
	return n, err
}

func (d *c37oDest) Seek(off int64, whence int) (int64, error) {
	d.pl.seeks++
	if d.pl.onSeek != nil {
		d.pl.onSeek(d.pl.seeks)
	}
	return d.w.Seek(off, whence)
}

// c37oService is one running Uploader whose rounds are handed out one by one.
type c37oService struct {
	mu      sync.Mutex
	tokens  int
	inRound bool
	done    chan struct{}
	cancel  context.CancelFunc
	stopped chan struct{}
	prov    *c37oProvider
	up      *backup.Uploader
}

func c37oStart(st *c37oStorage, s *Store) *c37oService {
	sv := &c37oService{prov: &c37oProvider{Provider: NewProvider(s, false, true)}}
	sv.up = backup.NewUploader(st, sv.prov, c37oInterval)
	ctx, cancel := context.WithCancel(context.Background())
	sv.cancel = cancel
	sv.stopped = sv.up.Start(ctx, sv.enabled)
	return sv
}

func (sv *c37oService) enabled() bool {
	sv.mu.Lock()
	defer sv.mu.Unlock()
	if sv.inRound {
		// the loop asks again: the round it was granted has returned
		sv.inRound = false
		close(sv.done)
	}
	if sv.tokens > 0 {
		sv.tokens--
		sv.inRound = true
		return true
	}
	return false
}

// round lets the service run exactly one upload round and waits for its return.
func (sv *c37oService) round() {
	sv.mu.Lock()
	sv.done = make(chan struct{})
	sv.tokens = 1
	done := sv.done
	sv.mu.Unlock()
	select {
	case <-done:
	case <-time.After(20 * time.Minute):
		panic("harness: an upload round did not return within 20 minutes")
	}
}

func (sv *c37oService) stop() {
	sv.cancel()
	<-sv.stopped
}

// c37oVerdict is what one uploaded object turned out to be.
type c37oVerdict struct {
	bad  string // "" = a complete database; else the class of defect
	what string
	rows []int
}

var c37oVerdicts sync.Map // sha256 -> c37oVerdict
var c37oFileSeq atomic.Int64

func c37oInspect(dir string, data []byte) c37oVerdict {
	h := sha256.Sum256(data)
	if v, ok := c37oVerdicts.Load(h); ok {
		return v.(c37oVerdict)
	}
	v := c37oInspect1(dir, data)
	c37oVerdicts.Store(h, v)
	return v
}

func c37oInspect1(dir string, data []byte) c37oVerdict {
	if len(data) == 0 {
		return c37oVerdict{bad: "empty", what: "the object has 0 bytes"}
	}
	gz, err := gzip.NewReader(bytes.NewReader(data))
	if err != nil {
		return c37oVerdict{bad: "not-gzip", what: fmt.Sprintf("the object (%d bytes) is not a gzip stream: %v", len(data), err)}
	}
	raw, err := io.ReadAll(gz)
	if err != nil {
		return c37oVerdict{bad: "truncated-gzip", what: fmt.Sprintf("the object (%d bytes) is not a complete gzip stream: %v", len(data), err)}
	}
	p := filepath.Join(dir, fmt.Sprintf("up-%d.db", c37oFileSeq.Add(1)))
	if err := os.WriteFile(p, raw, 0o600); err != nil {
		panic(fmt.Sprintf("harness: %v", err))
	}
	defer os.Remove(p)
	d, err := c37sql.Open(p, false, false)
	if err != nil {
		return c37oVerdict{bad: "not-a-database", what: fmt.Sprintf("the object (%d bytes, %d unpacked) does not open with SQLite: %v", len(data), len(raw), err)}
	}
	defer d.Close()
	res, err := d.QueryStringStmt("SELECT id FROM t ORDER BY id")
	if err != nil || len(res) != 1 || res[0].Error != "" {
		return c37oVerdict{bad: "not-a-database", what: fmt.Sprintf("table t of the object (%d bytes, %d unpacked) cannot be read: %v %v", len(data), len(raw), err, res)}
	}
	v := c37oVerdict{rows: []int{}}
	for _, r := range res[0].Values {
		v.rows = append(v.rows, int(r.Parameters[0].GetI()))
	}
	return v
}

func c37oHolds(j int) string {
	if j < 0 {
		return "none that is a complete database"
	}
	return fmt.Sprintf("rows 1..%d", j)
}

// c37oPrefix returns j when rows is exactly 1..j, else -1.
func c37oPrefix(rows []int) int {
	for i, r := range rows {
		if r != i+1 {
			return -1
		}
	}
	return len(rows)
}

type c37oWrite struct {
	row int
	idx uint64
}

const (
	c37oNo = iota
	c37oYes
	c37oOpen
)

type c37oResult struct {
	obs    string
	steps  int
	pruned bool
	rounds int
}

func c37oKind(op byte) string {
	switch {
	case op == 'U':
		return "plain"
	case op == 'F':
		return "storage-fails"
	case op == 'A':
		return "write-after-copy"
	case op >= '1' && op <= '9':
		return "write-during-copy"
	case op == 'G':
		return "gate-held"
	case op == 'P':
		return "gate-held-then-freed"
	case op == 'D':
		return "destination-fails-once"
	}
	return "closing"
}

func c37oSpell(h string) string {
	var n []string
	for i := 0; i < len(h); i++ {
		switch c := h[i]; {
		case c == 'W':
			n = append(n, "write")
		case c == 'U':
			n = append(n, "round")
		case c == 'F':
			n = append(n, "round(storage fails)")
		case c == 'A':
			n = append(n, "round(write after the copy)")
		case c >= '1' && c <= '9':
			n = append(n, fmt.Sprintf("round(write inside Write call %c)", c))
		case c == 'R':
			n = append(n, "uploader replaced")
		case c == 'G':
			n = append(n, "round(gate held)")
		case c == 'P':
			n = append(n, "round(gate held, freed at the 2nd attempt)")
		case c == 'D':
			n = append(n, "round(2nd Write on the destination fails once)")
		}
	}
	if len(n) == 0 {
		return "(none)"
	}
	return strings.Join(n, ", ")
}

// c37oRun runs one history on a fresh Store. cpu is the semaphore the caller
// holds one slot of; it is given back while a round sleeps through the provider's
// retries.
func c37oRun(t *testing.T, r *kit.Run, base, h string, cpu chan struct{}) (res c37oResult) {
	must := func(what string, err error) {
		if err != nil {
			panic(fmt.Sprintf("harness: history %q: %s: %v", h, what, err))
		}
	}
	dir, err := os.MkdirTemp(base, "h")
	must("scratch", err)
	defer os.RemoveAll(dir)
	s, ln := mustNewStoreAtPathsLn("n1", filepath.Join(dir, "node"), false)
	defer ln.Close()
	must("open", s.Open())
	defer s.Close(true)
	must("bootstrap", s.Bootstrap(NewServer(s.ID(), s.Addr(), true)))
	_, err = s.WaitForLeader(120 * time.Second)
	must("leader", err)
	ctx := context.Background()

	var mmu sync.Mutex // the injected write runs on another goroutine
	var acked []c37oWrite
	exec := func(q string) uint64 {
		rs, idx, err := s.Execute(ctx, &proto.ExecuteRequest{Request: &proto.Request{Statements: []*proto.Statement{{Sql: q}}}})
		must(q, err)
		if len(rs) != 1 || rs[0].GetError() != "" {
			panic(fmt.Sprintf("harness: history %q: %s: %v", h, q, rs))
		}
		for dl := time.Now().Add(60 * time.Second); s.DBAppliedIndex() < idx; time.Sleep(time.Millisecond) {
			if time.Now().After(dl) {
				panic(fmt.Sprintf("harness: history %q: write at index %d acknowledged but not applied", h, idx))
			}
		}
		return idx
	}
	write := func() {
		mmu.Lock()
		row := len(acked) + 1
		mmu.Unlock()
		idx := exec(fmt.Sprintf("INSERT INTO t(id,v) VALUES(%d,'w')", row))
		mmu.Lock()
		acked = append(acked, c37oWrite{row, idx})
		mmu.Unlock()
	}
	nAcked := func() int {
		mmu.Lock()
		defer mmu.Unlock()
		return len(acked)
	}
	exec("CREATE TABLE t(id INTEGER PRIMARY KEY, v TEXT)")

	st := &c37oStorage{}
	sv := c37oStart(st, s)
	defer func() { sv.stop() }()

	due := c37oYes // the table was just created
	cause := "create-table"
	replaced := false
	var obs []string
	lastContent := -1 // rows of the newest accepted object (-1: none, or not a database)

	// round runs one upload round of kind op and judges it.
	round := func(pos int, op byte) {
		res.steps++
		res.rounds++
		kind := c37oKind(op)
		where := fmt.Sprintf("history %s, round at position %d (%s)", c37oSpell(h), pos, kind)
		replay := map[string]any{"history": h, "round_at": pos}
		ctxKey := kind
		if replaced {
			ctxKey += ":after-uploader-replaced"
		}

		n0 := nAcked()
		pl := &c37oPlan{}
		var injDone chan struct{}
		if op == 'A' || (op >= '1' && op <= '9') {
			pl.injectAt = -1
			if op != 'A' {
				pl.injectAt = int(op - '0')
			}
			injDone = make(chan struct{})
			pl.inject = func() {
				// the write runs while the round is inside the provider; should a backup
				// ever block writers, it is left to finish in the background
				go func() { defer close(injDone); write() }()
				select {
				case <-injDone:
				case <-time.After(30 * time.Second):
				}
			}
		}
		held := false
		var relMu sync.Mutex
		release := func() {
			relMu.Lock()
			defer relMu.Unlock()
			if held {
				held = false
				s.snapshotCAS.End()
			}
		}
		if op == 'G' || op == 'P' {
			for dl := time.Now().Add(60 * time.Second); ; time.Sleep(time.Millisecond) {
				if err := s.snapshotCAS.Begin("c37-other-operation"); err == nil {
					break
				}
				if time.Now().After(dl) {
					panic(fmt.Sprintf("harness: history %q: cannot take the snapshot gate", h))
				}
			}
			held = true
			if op == 'P' {
				pl.onSeek = func(n int) {
					if n == 2 {
						release()
					}
				}
			}
		}
		if op == 'D' {
			pl.failAt = 2
		}
		sleeps := op == 'G' || op == 'P' || op == 'D'
		if sleeps {
			cpu <- struct{}{} // the round sleeps through the retries: lend the slot
		}
		sv.prov.set(pl)
		st.mu.Lock()
		st.failNext = op == 'F'
		before, attemptsBefore := len(st.uploads), st.attempts
		st.mu.Unlock()

		sv.round()

		release()
		if sleeps {
			<-cpu
		}
		if injDone != nil {
			if !pl.fired { // the round never called the provider: the write still belongs to this step
				pl.fired, pl.firedAt = true, -2
				pl.inject()
			}
			<-injDone
		}
		sv.prov.set(nil)
		st.mu.Lock()
		st.failNext = false
		ups := append([]c37oUpload(nil), st.uploads[before:]...)
		attempts := st.attempts - attemptsBefore
		st.mu.Unlock()
		n1 := nAcked()
		mmu.Lock()
		ws := append([]c37oWrite(nil), acked...)
		mmu.Unlock()

		o := kind
		if pl.fired {
			switch {
			case pl.firedAt > 0:
				o += fmt.Sprintf("@write%d/%d", pl.firedAt, pl.writes)
			case pl.firedAt == -1:
				o += fmt.Sprintf("@end/%d", pl.writes)
			default:
				o += "@no-provide"
			}
		}
		if sleeps && pl.called {
			o += fmt.Sprintf("[attempts=%d]", pl.seeks)
		}

		// every accepted object, whatever the round was
		ok := true
		for _, up := range ups {
			v := c37oInspect(dir, up.data)
			if v.bad != "" {
				ok = false
				lastContent = -1
				o += ":incomplete-object(" + v.bad + ")"
				r.Violation("C37:incomplete-object-uploaded:"+v.bad+":"+kind, fmt.Sprintf("%s: the round uploaded an object labelled %q that is not a complete database: %s (provider returned %v after %d attempt(s))", where, up.id, v.what, pl.err, pl.seeks), replay)
				continue
			}
			j := c37oPrefix(v.rows)
			lastContent = j
			label, perr := strconv.ParseUint(up.id, 10, 64)
			switch {
			case j < 0 || j > n1:
				ok = false
				o += ":not-a-committed-state"
				r.Violation("C37:uploaded-backup-not-a-committed-state:"+kind, fmt.Sprintf("%s: upload labelled %s holds rows %v, which is no prefix of the %d acknowledged writes", where, up.id, v.rows, n1), replay)
			case j < n0:
				ok = false
				o += ":misses-changes"
				r.Violation("C37:uploaded-backup-misses-changes:"+kind, fmt.Sprintf("%s: upload labelled %s holds rows 1..%d, but %d writes were acknowledged before the round began", where, up.id, j, n0), replay)
			case perr != nil:
				ok = false
				o += ":bad-label"
				r.Violation("C37:upload-label-not-an-index", fmt.Sprintf("%s: upload labelled %q", where, up.id), replay)
			default:
				for _, w := range ws {
					if w.idx <= label && w.row > j {
						ok = false
						o += ":label-ahead-of-content"
						r.Violation("C37:label-ahead-of-content:"+kind, fmt.Sprintf("%s: upload labelled %d holds rows 1..%d, but row %d was written at log index %d <= %d: the label claims a change the file does not hold (a later uploader that finds this label skips the change)", where, label, j, w.row, w.idx, label), replay)
						break
					}
				}
				if ok && label > s.DBAppliedIndex() {
					ok = false
					o += ":label-ahead-of-database"
					r.Violation("C37:upload-label-ahead-of-database", fmt.Sprintf("%s: upload labelled %d, database applied index %d", where, label, s.DBAppliedIndex()), replay)
				}
			}
		}
		if len(ups) > 1 {
			ok = false
			o += ":several-uploads"
			r.Violation("C37:several-uploads-in-one-round", fmt.Sprintf("%s: %d uploads in one round", where, len(ups)), replay)
		}

		// was the right thing done about the change that was due?
		switch {
		case !ok:
		case due == c37oNo:
			if attempts != 0 {
				ok = false
				o += ":uploaded-without-change"
				r.Violation("C37:upload-without-change:"+ctxKey, fmt.Sprintf("%s: nothing changed since the last successful upload but the round sent %d upload(s)", where, attempts), replay)
			} else {
				o += ":skip"
			}
		case op == 'F':
			switch {
			case attempts == 0 && due == c37oYes:
				o += ":due-but-not-attempted"
				r.Violation("C37:change-not-uploaded:"+ctxKey, fmt.Sprintf("%s: the database changed (%s) since the last successful upload but the round did not upload", where, cause), replay)
			case len(ups) != 0:
				o += ":failure-recorded-as-done"
				r.Violation("C37:failed-upload-recorded-as-done", fmt.Sprintf("%s: the storage failed but %d upload(s) were recorded", where, len(ups)), replay)
			case attempts == 0:
				o += ":skip"
			default:
				o += ":failed-will-retry"
			}
		case sleeps:
			if len(ups) == 0 {
				o += ":nothing-uploaded"
			} else {
				o += ":uploaded"
			}
		default:
			switch {
			case len(ups) == 0 && due == c37oYes:
				o += ":due-but-not-uploaded"
				r.Violation("C37:change-not-uploaded:"+ctxKey, fmt.Sprintf("%s: the database changed (%s) since the last successful upload but the round uploaded nothing (provider called: %v, returned %v; %d upload attempt(s); newest object in the storage: %s; the database holds %d rows; db applied index %d)", where, cause, pl.called, pl.err, attempts, c37oHolds(lastContent), n1, s.DBAppliedIndex()), replay)
			case len(ups) == 0:
				o += ":skip"
			default:
				o += ":uploaded"
			}
		}
		obs = append(obs, o)

		// what is due now
		switch {
		case len(ups) > 0 && lastContent == n1 && n1 > n0:
			due = c37oOpen // the file already holds the write made during the round
		case len(ups) > 0 && lastContent == n1:
			due = c37oNo
		case len(ups) > 0:
			due, cause = c37oYes, "write during the round"
			if lastContent < 0 || lastContent < n0 {
				cause = "not uploaded completely"
			}
		case n1 > n0:
			due, cause = c37oYes, "write during the round"
		}
	}

	for i := 0; i < len(h); i++ {
		switch c := h[i]; c {
		case 'W':
			res.steps++
			write()
			due, cause = c37oYes, "write"
		case 'R':
			res.steps++
			sv.stop()
			sv = c37oStart(st, s)
			replaced = true
		case 'G', 'P':
			sz, err := s.db.WALSize()
			must("wal size", err)
			if sz == 0 {
				res.pruned = true
				return res
			}
			round(i, c)
		default:
			round(i, c)
		}
	}
	round(len(h), 'C')
	round(len(h)+1, 'C')

	// final: the newest object holds everything
	st.mu.Lock()
	nUp := len(st.uploads)
	var last c37oUpload
	if nUp > 0 {
		last = st.uploads[nUp-1]
	}
	st.mu.Unlock()
	n := nAcked()
	who := "same-uploader"
	if replaced {
		who = "after-uploader-replaced"
	}
	final := "final-complete"
	replay := map[string]any{"history": h, "round_at": -1}
	if nUp == 0 {
		final = "final-nothing-uploaded"
		r.Violation("C37:change-never-uploaded:"+who, fmt.Sprintf("history %s: after two closing rounds the storage holds nothing; the database holds %d rows", c37oSpell(h), n), replay)
	} else if v := c37oInspect(dir, last.data); v.bad != "" || c37oPrefix(v.rows) != n {
		final = "final-incomplete"
		r.Violation("C37:change-never-uploaded:"+who, fmt.Sprintf("history %s: no more writes, two closing rounds have run, and the newest object in the storage (label %q, %d bytes, %s rows %v) does not hold the database's %d rows", c37oSpell(h), last.id, len(last.data), v.bad, v.rows, n), replay)
	}
	obs = append(obs, final)
	res.obs = strings.Join(obs, ",")
	return res
}

// c37oCalibrate measures how many Write calls one round makes on its destination.
func c37oCalibrate(t *testing.T, base string, rows int) int {
	dir, err := os.MkdirTemp(base, "cal")
	if err != nil {
		t.Fatal(err)
	}
	defer os.RemoveAll(dir)
	s, ln := mustNewStoreAtPathsLn("n1", filepath.Join(dir, "node"), false)
	defer ln.Close()
	if err := s.Open(); err != nil {
		t.Fatal(err)
	}
	defer s.Close(true)
	if err := s.Bootstrap(NewServer(s.ID(), s.Addr(), true)); err != nil {
		t.Fatal(err)
	}
	if _, err := s.WaitForLeader(120 * time.Second); err != nil {
		t.Fatal(err)
	}
	qs := []string{"CREATE TABLE t(id INTEGER PRIMARY KEY, v TEXT)"}
	for i := 1; i <= rows; i++ {
		qs = append(qs, fmt.Sprintf("INSERT INTO t(id,v) VALUES(%d,'w')", i))
	}
	for _, q := range qs {
		if _, _, err := s.Execute(context.Background(), executeRequestFromStrings([]string{q}, false, false)); err != nil {
			t.Fatal(err)
		}
	}
	st := &c37oStorage{}
	sv := c37oStart(st, s)
	defer sv.stop()
	pl := &c37oPlan{}
	sv.prov.set(pl)
	sv.round()
	if n, _ := st.counts(); n != 1 || !pl.called {
		t.Fatalf("harness: calibration round uploaded %d objects", n)
	}
	return pl.writes
}

func c37oHistories(full string, small string, depth int) []string {
	seen := map[string]bool{}
	var out []string
	var rec func(h, alpha string, d int)
	rec = func(h, alpha string, d int) {
		if !seen[h] {
			seen[h] = true
			out = append(out, h)
		}
		if len(h) == d {
			return
		}
		for i := 0; i < len(alpha); i++ {
			rec(h+alpha[i:i+1], alpha, d)
		}
	}
	rec("", full, depth)
	rec("", small, depth+1)
	return out
}

func TestVerif_C37_overlap(t *testing.T) {
	r := kit.Start(t, "C37", "overlap")
	defer r.Finish()

	base := kit.Scratch(t)
	if fi, err := os.Stat("/dev/shm"); err == nil && fi.IsDir() {
		if d, err := os.MkdirTemp("/dev/shm", "verif-c37-"); err == nil {
			t.Cleanup(func() { os.RemoveAll(d) })
			base = d
		}
	}

	if rp := kit.Replay(); rp != nil {
		var c struct {
			History string `json:"history"`
		}
		if err := json.Unmarshal(rp, &c); err != nil {
			t.Fatal(err)
		}
		cpu := make(chan struct{}, 1) // empty: this goroutine holds the only slot
		res := c37oRun(t, r, base, c.History, cpu)
		r.Eval(1)
		r.Distinct(c.History + "=>" + res.obs)
		t.Logf("replay %q: %s", c.History, res.obs)
		return
	}

	depth := r.Pick(2, 3)
	k0, k4 := c37oCalibrate(t, base, 0), c37oCalibrate(t, base, 4)
	K := k0
	if k4 > K {
		K = k4
	}
	if K < 1 || K > 9 {
		t.Fatalf("harness: a round makes %d/%d Write calls on its destination", k0, k4)
	}
	r.Set("write_calls_per_round", map[string]int{"empty_table": k0, "four_rows": k4})
	full := "WUFRGPDA"
	for k := 1; k <= K; k++ {
		full += string(rune('0' + k))
	}
	small := "WURGA" + string(rune('0'+K))
	hs := c37oHistories(full, small, depth)
	r.Rule(fmt.Sprintf("every history of length <=%d over {write, round, round with storage failure, round with a write executed inside the k-th Write call on the destination (k=1..%d, all the calls a round makes), round with a write executed after the provider delivered and before the hand-off, uploader replaced, round with the snapshot gate held throughout, round with the gate freed at the provider's 2nd attempt, round in which the 2nd Write call on the destination fails once}, and every history of length %d over {write, round, uploader replaced, gate held, write after delivery, write inside the last Write call}; each on a fresh real single-node Store + real Provider (default retries, compressed) + real Uploader service loop + in-memory storage, followed by two closing rounds; every accepted object is unpacked and opened with SQLite. Obstructed rounds are run only where the WAL holds a change. distinct = (history, per-round outcome)", depth, K, depth+1))
	r.Assume("the overlap of a write with a round is placed at the Write-call boundaries of the round's destination and directly after the provider's return; elsewhere inside the round it is not controlled")
	r.Assume("single node; the leadership test that enables rounds in rqlited is not part of the history (uploader replaced = new Uploader + new Provider on the same Store and storage)")

	// the histories with most obstructed rounds first: they sleep longest
	nObs := func(h string) int {
		return 11*strings.Count(h, "G") + strings.Count(h, "P") + strings.Count(h, "D")
	}
	sort.SliceStable(hs, func(i, j int) bool { return nObs(hs[i]) > nObs(hs[j]) })

	cpu := make(chan struct{}, 40)
	for i := 0; i < cap(cpu); i++ {
		cpu <- struct{}{}
	}
	inflight := make(chan struct{}, 128)
	var mu sync.Mutex
	var wg sync.WaitGroup
	pruned, rounds := 0, 0
	outcomes := map[string]int{} // per-round outcome -> number of rounds
	for i, h := range hs {
		wg.Add(1)
		inflight <- struct{}{}
		go func(i int, h string) {
			defer wg.Done()
			defer func() { <-inflight }()
			<-cpu
			res := c37oRun(t, r, base, h, cpu)
			cpu <- struct{}{}
			mu.Lock()
			defer mu.Unlock()
			if res.pruned {
				pruned++
				return
			}
			r.Eval(1)
			r.State(1)
			r.Transition(res.steps)
			rounds += res.rounds
			for _, o := range strings.Split(res.obs, ",") {
				outcomes[o]++
			}
			r.Distinct(h + "=>" + res.obs)
			if i%61 == 0 {
				r.Sample(map[string]any{"history": h, "rounds": res.obs})
			}
		}(i, h)
	}
	wg.Wait()
	r.Set("histories_enumerated", len(hs))
	r.Set("histories_left_out_obstructed_round_with_empty_wal", pruned)
	r.Set("upload_rounds", rounds)
	r.Set("round_outcomes", outcomes)
}
