package store

import (
	"context"
	"encoding/json"
	"errors"
	"fmt"
	"os"
	"strconv"
	"strings"
	"sync"
	"sync/atomic"
	"testing"
	"time"

	"github.com/hashicorp/raft"
	"github.com/rqlite/rqlite/v10/command/proto"
	kit "github.com/rqlite/rqlite/v10/internal/verifkit"
)

// C38 part "cluster": on a leader that can reach a quorum a linearizable read
// completes within its timeout without needing any further write - also
// directly after a membership change, a LEADER CHANGE or a SNAPSHOT INSTALL.
//
// Three real Stores, all voters (kit: c02_cluster_test.go), a fresh cluster per
// history. "ldr" is the node leading when a step starts, "sub" (the subject
// follower) the node after it in ring order. Every history up to the explored
// length over
//
//	W  write through ldr
//	S  strong read at ldr
//	L  linearizable read at ldr
//	X  leadership transfer ldr -> sub (Store.Stepdown), wait for the new leader
//	C  crash sub (no snapshot on close) and restart it, wait until it follows again
//	P  Store.Snapshot(0) on ldr
//	I  isolate sub, three writes through ldr, ldr snapshots and compacts its log
//	   (Store.Snapshot(1): one trailing entry), heal; sub can only catch up by
//	   installing ldr's snapshot - wait until it has
//	J  join a non-voter (an address nobody listens on: the quorum stays 2 of 3 voters)
//	R  remove the non-voter joined last (only offered while one is joined)
//	B  barrier on ldr
//	Q  not-ready window on ldr: a ready channel is registered, a strong and a
//	   linearizable read are sent - refused with ErrNotReady, which is no violation -
//	   then the channel is closed (directly after X: a leader in a fresh term, in
//	   which only raft's no-op is committed, refuses its first reads)
//
// is followed by TWO linearizable reads on the CURRENT leader with no
// intervening write (the first one after a leader change is upgraded to a
// strong read by design - that counts as completing - so the second one is the
// first genuine linearizable read of the new leader).
//
// Oracle: with every node up, the network healed and one stable leader, each
// linearizable read - inside the history and after it - returns without error
// within its 5 s timeout (default 1 s). A read that fails while the leader or
// its term changed under it is repeated on the new leader (nothing is concluded
// from it). A failure is keyed by the type of the log entry at the leader's
// commit index, exactly as in the single-node part, so the two findings recorded
// there (Configuration, Barrier) match here; any other entry type is a new key.

const (
	c38cReadTimeout = 5 * time.Second
	c38cWait        = 30 * time.Second
)

var c38cOpName = map[byte]string{'W': "write", 'S': "strong-read", 'L': "linearizable-read", 'X': "leadership-transfer", 'C': "crash+restart-follower",
	'P': "snapshot", 'I': "isolate-follower+compact+heal(snapshot-install)", 'J': "join", 'R': "remove", 'B': "barrier", 'Q': "not-ready-window"}

func c38cHistories(depth int) []string {
	var out []string
	var rec func(h string, joined int)
	rec = func(h string, joined int) {
		out = append(out, h)
		if len(h) == depth {
			return
		}
		for _, op := range "WSLXCPIJRBQ" {
			switch op {
			case 'J':
				rec(h+"J", joined+1)
			case 'R':
				if joined > 0 {
					rec(h+"R", joined-1)
				}
			default:
				rec(h+string(op), joined)
			}
		}
	}
	rec("", 0)
	return out
}

func c38cSpell(h string) string {
	if h == "" {
		return "(none)"
	}
	var n []string
	for i := 0; i < len(h); i++ {
		n = append(n, c38cOpName[h[i]])
	}
	return strings.Join(n, ", ")
}

type c38cRun struct {
	api     string // "query": Store.Query, "request": Store.Request
	r       *kit.Run
	c       *vcCluster
	h       string
	obs     []string
	facts   []string
	steps   int
	undec   int
	lastOp  string
	joined  []string
	nextKey int
}

type c38cSetup struct{ msg string }

func (x *c38cRun) fail(f string, a ...any) {
	panic(c38cSetup{fmt.Sprintf("harness: history %q: %s [%s]", x.h, fmt.Sprintf(f, a...), x.c.describe())})
}

func (x *c38cRun) poll(what string, ok func() bool) {
	deadline := time.Now().Add(c38cWait)
	for !ok() {
		if time.Now().After(deadline) {
			x.fail("waited %v for: %s", c38cWait, what)
		}
		time.Sleep(2 * time.Millisecond)
	}
}

// leader returns the one stable leader (every node up, network healed).
func (x *c38cRun) leader() int {
	l, err := x.c.Settle(c38cWait)
	if err != nil {
		x.fail("%v", err)
	}
	return l
}

func (x *c38cRun) store(i int) *Store {
	s := x.c.nodes[i].store()
	if s == nil {
		x.fail("node %d is down", i)
	}
	return s
}

func (x *c38cRun) write() {
	for try := 0; ; try++ {
		l := x.leader()
		x.nextKey++
		res := x.c.Write(l, "k"+strconv.Itoa(x.nextKey), x.nextKey, vcAPIQuery, false)
		if res.Err == nil {
			return
		}
		if try >= 3 {
			x.fail("write through n%d: %v", l, res.Err)
		}
	}
}

func (x *c38cRun) snapshot(s *Store, trailing uint64) error {
	err := s.Snapshot(trailing)
	// transient refusals: the Store verifies its database file in the background after a start
	// ("CAS conflict"); raft's FSM goroutine has not yet passed a configuration entry
	for deadline := time.Now().Add(c38cWait); err != nil && time.Now().Before(deadline) &&
		(strings.Contains(err.Error(), "CAS conflict") || strings.Contains(err.Error(), "wait until the configuration entry")); {
		time.Sleep(10 * time.Millisecond)
		err = s.Snapshot(trailing)
	}
	return err
}

func c38cSnapIndex(s *Store) uint64 {
	v, _ := strconv.ParseUint(s.raft.Stats()["last_snapshot_index"], 10, 64)
	return v
}

// linRead performs one linearizable read on the current leader and judges it.
func (x *c38cRun) linRead(pos string) {
	for try := 0; ; try++ {
		l := x.leader()
		s := x.store(l)
		term := s.raft.CurrentTerm()
		var lvl proto.ConsistencyLevel
		var err error
		t0 := time.Now()
		if x.api == "request" {
			eqr := executeQueryRequestFromString("SELECT COUNT(*) FROM kv", proto.ConsistencyLevel_LINEARIZABLE, false, false, false)
			eqr.LinearizableTimeout = int64(c38cReadTimeout)
			_, _, _, err = s.Request(context.Background(), eqr)
			lvl = eqr.Level
		} else {
			qr := queryRequestFromString("SELECT COUNT(*) FROM kv", false, false, false)
			qr.Level = proto.ConsistencyLevel_LINEARIZABLE
			qr.LinearizableTimeout = int64(c38cReadTimeout)
			_, lvl, _, err = s.Query(context.Background(), qr)
		}
		took := time.Since(t0)
		x.steps++
		if err == nil {
			x.obs = append(x.obs, "ok:"+lvl.String())
			return
		}
		if s.raft.State() != raft.Leader || s.raft.CurrentTerm() != term || x.c.Leader() != l {
			// the leader changed under the read: the statement does not say this read completes
			if try < 3 {
				continue
			}
			x.undec++
			x.obs = append(x.obs, "undecided")
			return
		}
		cls := "other-error"
		if errors.Is(err, ErrWaitForFSMTimeout) {
			cls = "timeout-waiting-for-fsm"
		}
		x.obs = append(x.obs, "FAIL:"+cls)
		// the failure class is named after the kind of log entry the read index points at
		ci := s.raft.CommitIndex()
		kind := "unreadable"
		var le raft.Log
		if gerr := s.raftLog.GetLog(ci, &le); gerr == nil {
			kind = strings.TrimPrefix(le.Type.String(), "Log")
		}
		x.r.Violation(fmt.Sprintf("C38:linearizable-read-fails:%s:commit-index-entry-is-%s", cls, kind),
			fmt.Sprintf("3-voter cluster, history %s then linearizable read %s through Store.%s (last operation: %s): %v after %v on leader n%d, which leads in an unchanged term %d with both followers up and connected (commit index %d is a %s entry, fsm index %d; %s)",
				c38cSpell(x.h), pos, map[string]string{"query": "Query", "request": "Request"}[x.api], x.lastOp, err, took.Round(time.Millisecond), l, term, ci, kind, s.fsmIdx.Load(), x.c.describe()),
			map[string]any{"history": x.h, "then": "LL", "api": x.api})
		return
	}
}

func (x *c38cRun) step(i int) {
	op := x.h[i]
	x.steps++
	c := x.c
	switch op {
	case 'W':
		x.write()
	case 'S':
		l := x.leader()
		if res := c.Read(l, "k1", proto.ConsistencyLevel_STRONG, vcAPIQuery, false); res.Err != nil {
			x.fail("strong read at n%d: %v", l, res.Err)
		}
	case 'L':
		x.steps--
		x.linRead(fmt.Sprintf("at step %d", i+1))
		return
	case 'X':
		l := x.leader()
		to := (l + 1) % len(c.nodes)
		term := c.Term(l)
		// the target must hold the leader's whole log, or raft refuses / times out the transfer
		x.poll("transfer target caught up", func() bool { return x.store(to).raft.LastIndex() == x.store(l).raft.LastIndex() })
		if err := c.Stepdown(l, to); err != nil {
			x.fail("leadership transfer n%d -> n%d: %v", l, to, err)
		}
		if _, err := c.WaitLeader(nil, term, c38cWait); err != nil {
			x.fail("%v", err)
		}
		if nl := x.leader(); nl == l {
			x.fail("leadership transfer n%d -> n%d left n%d leading", l, to, l)
		}
	case 'C':
		l := x.leader()
		f := (l + 1) % len(c.nodes)
		if err := c.CrashRestart(f); err != nil {
			x.fail("crash+restart n%d: %v", f, err)
		}
		x.poll("restarted follower follows the leader again", func() bool {
			s := c.nodes[f].store()
			if s == nil {
				return false
			}
			addr, _ := s.LeaderAddr()
			return addr == c.nodes[l].addr
		})
		// Normally it has caught up within milliseconds. It may never do so (hashicorp/raft
		// v1.7.3: a follower that holds a snapshot at index S plus log entries beyond S and is
		// offered prev-index S - the leader had not yet seen its acknowledgement of S+1 when it
		// went down - rejects it, because it looks for S only in its compacted log; the leader
		// falls back to re-sending its snapshot at S, and the two repeat that for ever). That
		// is not C38's business: the leader keeps its quorum through the other follower, so the
		// history goes on and the fact is counted.
		caught := false
		for deadline := time.Now().Add(c38cWait / 2); !caught && time.Now().Before(deadline); time.Sleep(2 * time.Millisecond) {
			caught = x.store(f).fsmIdx.Load() == x.store(l).fsmIdx.Load()
		}
		if !caught {
			x.facts = append(x.facts, "restarted-follower-stuck-in-snapshot-install-loop")
			x.r.Add("restarted_follower_never_caught_up", 1)
		}
	case 'P':
		// "nothing new to snapshot" and the like are legitimate refusals
		x.snapshot(x.store(x.leader()), 0)
	case 'I':
		l := x.leader()
		f := (l + 1) % len(c.nodes)
		before := c38cSnapIndex(x.store(f))
		c.net.Isolate(f)
		for k := 0; k < 3; k++ {
			x.nextKey++
			if res := c.Write(l, "k"+strconv.Itoa(x.nextKey), x.nextKey, vcAPIQuery, false); res.Err != nil {
				x.fail("write through n%d with n%d isolated: %v", l, f, res.Err)
			}
		}
		if err := x.snapshot(x.store(l), 1); err != nil {
			x.fail("snapshot+compact on n%d: %v", l, err)
		}
		first, _ := x.store(l).raftLog.FirstIndex()
		if flast := x.store(f).raft.LastIndex(); first <= flast+1 {
			x.fail("the leader's log still starts at %d: n%d (last index %d) would not need a snapshot", first, f, flast)
		}
		c.net.Heal()
		x.poll("isolated follower installs the leader's snapshot and catches up", func() bool {
			s := x.store(f)
			return c38cSnapIndex(s) > before && s.fsmIdx.Load() == x.store(l).fsmIdx.Load() && s.raft.LastIndex() == x.store(l).raft.LastIndex()
		})
		x.facts = append(x.facts, "snapshot-installed")
	case 'J':
		l := x.leader()
		id := fmt.Sprintf("nv%d", i)
		// one address per joined node; nothing listens on ports 1..3
		if err := x.store(l).Join(joinRequest(id, fmt.Sprintf("127.0.0.1:%d", i+1), false)); err != nil {
			x.fail("join: %v", err)
		}
		x.joined = append(x.joined, id)
	case 'R':
		l := x.leader()
		id := x.joined[len(x.joined)-1]
		x.joined = x.joined[:len(x.joined)-1]
		if err := x.store(l).Remove(context.Background(), removeNodeRequest(id)); err != nil {
			x.fail("remove: %v", err)
		}
	case 'B':
		if err := x.store(x.leader()).Barrier(); err != nil {
			x.fail("barrier: %v", err)
		}
	case 'Q':
		s := x.store(x.leader())
		ch := make(chan struct{})
		s.RegisterReadyChannel(ch)
		var got []string
		for _, lvl := range []proto.ConsistencyLevel{proto.ConsistencyLevel_STRONG, proto.ConsistencyLevel_LINEARIZABLE} {
			var err error
			if x.api == "request" {
				eqr := executeQueryRequestFromString("SELECT COUNT(*) FROM kv", lvl, false, false, false)
				eqr.LinearizableTimeout = int64(c38cReadTimeout)
				_, _, _, err = s.Request(context.Background(), eqr)
			} else {
				qr := queryRequestFromString("SELECT COUNT(*) FROM kv", false, false, false)
				qr.Level = lvl
				qr.LinearizableTimeout = int64(c38cReadTimeout)
				_, _, _, err = s.Query(context.Background(), qr)
			}
			switch {
			case errors.Is(err, ErrNotReady):
				got = append(got, "refused")
			case err == nil:
				got = append(got, "served")
			default:
				got = append(got, "other-error")
			}
		}
		close(ch)
		x.poll("store ready after the ready channel was closed", s.Ready)
		x.obs = append(x.obs, "Q:"+strings.Join(got, "/"))
	}
	x.lastOp = c38cOpName[op]
}

// c38cRunHistory runs one history on a fresh cluster; setup != "" means the
// harness could not carry it out (no verdict).
func c38cRunHistory(r *kit.Run, h, api string) (x *c38cRun, setup string) {
	c, err := vcNewCluster(vcOpts{N: 3, CommitTimeout: 50 * time.Millisecond})
	if err != nil {
		return nil, "harness: cluster: " + err.Error()
	}
	defer vxClose(c)
	x = &c38cRun{api: api, r: r, c: c, h: h, lastOp: "strong-read (cluster set-up)"}
	defer func() {
		if p := recover(); p != nil {
			if su, ok := p.(c38cSetup); ok {
				setup = su.msg
				return
			}
			panic(p)
		}
	}()
	for i := 0; i < len(h); i++ {
		x.step(i)
	}
	x.linRead("#1 after the history")
	x.linRead("#2 after the history")
	return x, ""
}

func TestVerif_C38_cluster(t *testing.T) {
	r := kit.Start(t, "C38", "cluster")
	defer r.Finish()
	if os.Getenv("VERIF_DEBUG") == "" {
		if f, err := os.OpenFile(os.DevNull, os.O_WRONLY, 0); err == nil {
			os.Stderr = f
		}
	}
	depth := r.Pick(2, 3)
	r.Rule(fmt.Sprintf("every history of length <=%d over {write, strong read, linearizable read, leadership transfer to the next node, crash+restart of a follower, snapshot on the leader, isolate a follower + 3 writes + leader snapshot with log compaction + heal (the follower installs the snapshot), join a non-voter, remove it, barrier, not-ready window on the leader (ready channel registered, a strong and a linearizable read refused with ErrNotReady, channel closed)} on a fresh live cluster of 3 voting real Stores, each followed by two linearizable reads on the current leader with no intervening write, the reads sent through Store.Query; the histories of length <=%d once more with the reads sent through Store.Request; plus the directed histories XXX and XXXL (leadership handed round the ring until the first leader leads again) through both; every linearizable read must return without error within its 5 s timeout. evaluations = histories; transitions = steps and reads; distinct = (API, history, outcome of each linearizable read)", depth, depth-1))
	r.Add("restarted_follower_never_caught_up", 0)
	r.Assume("the interleavings inside hashicorp/raft are uncontrolled; every read is issued with all nodes up, the network healed and one stable leader, and a failure under which the leader or its term changed is repeated instead of judged")
	r.Assume("all raft timeouts 5 s; a joined non-voter is an address nobody listens on (it never answers; the quorum is 2 of the 3 voters); crashes are Store.Close without snapshot + reopen")
	type job struct{ h, api string }
	var hs []job
	for _, h := range c38cHistories(depth) {
		hs = append(hs, job{h, "query"})
	}
	// the linearizable reads through the unified endpoint (Store.Request duplicates Query's logic)
	for _, h := range c38cHistories(depth - 1) {
		hs = append(hs, job{h, "request"})
	}
	// directed: three transfers round the ring, so that the FIRST leader leads again in a
	// later term (a node that served a strong read in an earlier term of its own)
	for _, h := range []string{"XXX", "XXXL"} {
		if len(h) > depth {
			hs = append(hs, job{h, "query"}, job{h, "request"})
		}
	}
	if rp := kit.Replay(); rp != nil {
		var x struct {
			History string `json:"history"`
			API     string `json:"api"`
		}
		if err := json.Unmarshal(rp, &x); err != nil {
			t.Fatalf("harness: bad replay: %v", err)
		}
		if x.API == "" {
			x.API = "query"
		}
		hs = []job{{x.History, x.API}, {x.History, x.API}, {x.History, x.API}}
	}
	if only := os.Getenv("VERIF_C38_ONLY"); only != "" {
		hs = nil
		for _, h := range strings.Fields(only) {
			hs = append(hs, job{h, "query"}, job{h, "request"})
		}
	}
	workers := r.Pick(16, 24)
	if w, err := strconv.Atoi(os.Getenv("VERIF_C38_WORKERS")); err == nil && w > 0 {
		workers = w
	}
	var next atomic.Int64
	var wg sync.WaitGroup
	var mu sync.Mutex
	nUndec, nSetup := 0, 0
	for w := 0; w < workers; w++ {
		wg.Add(1)
		go func() {
			defer wg.Done()
			for {
				k := int(next.Add(1)) - 1
				if k >= len(hs) {
					return
				}
				if r.OverBudget() {
					mu.Lock()
					r.Cap("time budget used up after about %d of %d histories", k, len(hs))
					mu.Unlock()
					return
				}
				h, api := hs[k].h, hs[k].api
				var x *c38cRun
				var setup string
				for attempt := 0; attempt < 3; attempt++ {
					if x, setup = c38cRunHistory(r, h, api); setup == "" {
						break
					}
					t.Logf("history %q attempt %d: %s", h, attempt, setup)
				}
				mu.Lock()
				if setup != "" {
					nSetup++
					r.Cap("history %q could not be carried out three times: %s", h, setup)
					mu.Unlock()
					continue
				}
				r.Eval(1)
				r.Transition(x.steps)
				obs := strings.Join(x.obs, ",")
				r.Distinct(api + ":" + h + "=>" + obs)
				nUndec += x.undec
				if k%29 == 3 || (strings.Contains(h, "I") && strings.Contains(h, "X") && k%3 == 0) {
					r.Sample(map[string]any{"api": api, "history": h + "+LL", "spelled": c38cSpell(h), "linearizable_reads": obs, "facts": x.facts})
				}
				mu.Unlock()
			}
		}()
	}
	wg.Wait()
	r.State(len(hs))
	if nUndec > 0 {
		r.Cap("%d linearizable reads failed while the leader changed under them three times in a row: no verdict for them", nUndec)
	}
	r.Set("histories_not_carried_out", nSetup)
	if nSetup == len(hs) {
		t.Fatalf("harness: no history at all could be carried out")
	}
}
