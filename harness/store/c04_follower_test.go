package store

import (
	"context"
	"errors"
	"fmt"
	"log"
	"net"
	"os"
	"path/filepath"
	"strings"
	"sync"
	"sync/atomic"
	"testing"
	"time"

	kit "github.com/rqlite/rqlite/v10/internal/verifkit"
	"github.com/rqlite/rqlite/v10/snapshot"
)

// C04, follower part: "a follower installing such a snapshot never sees reverted,
// corrupted or missing data" - for a follower that itself holds a staged WAL (its own
// persist was skipped or failed) at the moment raft installs the leader's snapshot on it.
// This needs two live nodes, so it is a small set of directed histories, not a search:
//
//	leader A (single voter), read-only follower B, both real Stores over a gated TCP layer.
//	1. A writes; B joins and catches up; B takes its first (full) snapshot.
//	2. A writes; B receives it. B snapshots with the persist skipped (A joins an
//	   unreachable non-voter first: the configuration entry is ahead of B's FSM) or with
//	   the persist failing (sink refuses the header, see operation F): B keeps one staged WAL.
//	3. the link is cut, A writes twice and snapshots leaving one trailing log, the link is
//	   restored: B is behind A's first log index, raft installs A's snapshot on B (real
//	   sink + real fsmRestore).
//	4. A writes once more, B receives it, B snapshots (incremental).
//	Oracle on B (the C04 oracle): the newest snapshot of B's snapshot store restores (directly and
//	through a second store's sink) to the database at that index, and B restarted with a forced
//	restore shows the same database as before.

type c04Gate struct{ blocked atomic.Bool }

// c04GateLayer is a Layer whose listener survives Store.Close (so that a re-opened Store
// keeps its address): Close only ends the Accept calls that are pending at that moment.
type c04GateLayer struct {
	Layer
	g     *c04Gate
	mu    sync.Mutex
	stop  chan struct{}
	conns chan net.Conn
	once  sync.Once
}

func c04NewGateLayer(g *c04Gate) *c04GateLayer {
	return &c04GateLayer{Layer: mustMockLayer("localhost:0"), g: g, stop: make(chan struct{}), conns: make(chan net.Conn)}
}

func (l *c04GateLayer) pump() {
	for {
		c, err := l.Layer.Accept()
		if err != nil {
			return
		}
		if l.g.blocked.Load() {
			c.Close()
			continue
		}
		l.conns <- c
	}
}

func (l *c04GateLayer) Close() error {
	l.mu.Lock()
	close(l.stop)
	l.stop = make(chan struct{})
	l.mu.Unlock()
	return nil
}

func (l *c04GateLayer) reallyClose() { l.Layer.Close() }

type c04GateConn struct {
	net.Conn
	g *c04Gate
}

func (c *c04GateConn) Write(p []byte) (int, error) {
	if c.g.blocked.Load() {
		c.Conn.Close()
		return 0, errors.New("c04: link cut")
	}
	return c.Conn.Write(p)
}

func (l *c04GateLayer) Dial(addr string, timeout time.Duration) (net.Conn, error) {
	if l.g.blocked.Load() {
		return nil, errors.New("c04: link cut")
	}
	c, err := l.Layer.Dial(addr, timeout)
	if err != nil {
		return nil, err
	}
	return &c04GateConn{Conn: c, g: l.g}, nil
}

func (l *c04GateLayer) Accept() (net.Conn, error) {
	l.once.Do(func() { go l.pump() })
	l.mu.Lock()
	stop := l.stop
	l.mu.Unlock()
	select {
	case c := <-l.conns:
		return &c04GateConn{Conn: c, g: l.g}, nil
	case <-stop:
		return nil, errors.New("c04: layer closed")
	}
}

func c04NewStoreLy(dir, id string, ly Layer) *Store {
	s := New(&Config{DBConf: NewDBConfig(), Dir: dir, ID: id, Logger: log.New(c04FatalOnly{}, "[store] ", log.LstdFlags)}, ly)
	s.NoSnapshotOnClose = true
	s.SnapshotReapThreshold = 1 << 20
	s.RaftLogLevel = "ERROR"
	s.HeartbeatTimeout = 300 * time.Millisecond
	s.ElectionTimeout = 300 * time.Millisecond
	s.LeaderLeaseTimeout = 300 * time.Millisecond
	return s
}

func c04WaitFor(what string, f func() bool) {
	dl := time.Now().Add(120 * time.Second)
	for time.Now().Before(dl) {
		if f() {
			return
		}
		time.Sleep(5 * time.Millisecond)
	}
	panic("c04 follower harness: timed out waiting for " + what)
}

// c04FollowerRun runs one scenario; retain is 'K' (persist skipped) or 'F' (persist fails),
// big selects whether the last write overlaps the page of the retained WAL.
func c04FollowerRun(t *testing.T, retain byte, big bool) *c04Result {
	name := fmt.Sprintf("follower:%c:overlap=%t", retain, big)
	res := &c04Result{hist: name}
	dir := kit.Scratch(t)
	defer os.RemoveAll(dir)
	g := &c04Gate{}
	la, lb := c04NewGateLayer(g), c04NewGateLayer(g)
	a := c04NewStoreLy(filepath.Join(dir, "a"), "a", la)
	b := c04NewStoreLy(filepath.Join(dir, "b"), "b", lb)
	c04Must(name, "open a", a.Open())
	c04Must(name, "bootstrap a", a.Bootstrap(NewServer(a.ID(), a.Addr(), true)))
	_, err := a.WaitForLeader(120 * time.Second)
	c04Must(name, "leader a", err)
	c04Must(name, "open b", b.Open())
	defer func() {
		b.Close(true)
		a.Close(true)
		la.reallyClose()
		lb.reallyClose()
	}()

	// A is driven through a c04Exec (writes + model); B is judged through another one
	ca := &c04Exec{t: t, hist: name, dir: filepath.Join(dir, "xa"), s: a, model: c04Model{"t": {}}, stale: map[string]string{}, res: &c04Result{}}
	cb := &c04Exec{t: t, hist: name, dir: filepath.Join(dir, "xb"), s: b, model: ca.model, stale: map[string]string{}, res: res}
	cb.mech = func() string {
		// a WAL of B that was staged before the install and is now part of B's newest chain
		set, err := (&snapshot.SnapshotCatalog{}).Scan(b.snapshotDir)
		if err == nil && set.Len() > 0 {
			ids := set.IDs()
			if _, wals, err := set.ResolveFiles(ids[len(ids)-1]); err == nil {
				for _, w := range wals {
					if _, ok := cb.stale[filepath.Base(w.Path)]; ok {
						return "stale-staged-wal-after-install"
					}
				}
			}
		}
		return "follower-unexplained"
	}
	// writes are updates of single rows of p, a table with one row per database page, so that
	// each WAL holds a chosen page: step -> row. With big=false the write after the install
	// touches a page the retained WAL does not hold; with big=true it touches the same page.
	rowOf := map[int]int64{0: 1, 1: 1, 2: 1, 3: 3, 4: 2}
	if big {
		rowOf[4] = 1
	}
	write := func(i int) {
		id := rowOf[i]
		ca.exec(fmt.Sprintf("UPDATE p SET g=g+1 WHERE id=%d", id))
		r := ca.model["p"][id]
		r.g++
		ca.model["p"][id] = r
	}
	caughtUp := func() {
		want := a.fsmIdx.Load()
		c04WaitFor("b to apply", func() bool { return b.fsmIdx.Load() >= want })
	}
	var steps []string
	say := func(f string, args ...any) { steps = append(steps, fmt.Sprintf(f, args...)) }

	ca.exec(c04CreateSQL("t"))
	ca.exec(c04CreateSQL("p"))
	ca.model["p"] = map[int64]c04Row{}
	for id := int64(1); id <= 6; id++ {
		v := strings.Repeat(string(rune('a'+id)), 3000)
		ca.exec(fmt.Sprintf("INSERT INTO p(id,g,v) VALUES(%d,0,'%s')", id, v))
		ca.model["p"][id] = c04Row{0, v}
	}
	c04Must(name, "join b", a.Join(joinRequest("b", b.Addr(), false)))
	write(0) // also moves B's FSM index past the configuration entry of its own join
	caughtUp()
	c04Must(name, "b first snapshot", b.Snapshot(0))
	say("B full snapshot")
	// A has a full snapshot too, so that the one it takes behind the cut link is an
	// incremental and the stream B installs is a database plus a WAL
	c04Must(name, "a first snapshot", a.Snapshot(0))
	write(1)
	caughtUp()
	switch retain {
	case 'K':
		c04Must(name, "join ghost", a.Join(joinRequest("ghost", "127.0.0.1:1", false)))
		ci := a.raft.LastIndex() // the configuration entry
		c04WaitFor("b to see the configuration", func() bool {
			// committed on B, not just received: raft skips the persist for a committed
			// configuration entry that the FSM has not passed
			return b.raft.AppliedIndex() >= ci
		})
		err := b.Snapshot(0)
		say("B snapshot: %s", cb.snapErrClass(err))
		c04Must(name, "remove ghost", a.Remove(context.Background(), removeNodeRequest("ghost")))
	case 'F':
		say("B snapshot: %s", c04SnapshotPersistFails(name, b, cb.snapErrClass))
	}
	stagedAtInstall := cb.stagedWALs()
	say("B staged WALs: %d", len(stagedAtInstall))
	if len(stagedAtInstall) == 0 {
		// the situation this scenario is about did not arise (it always does on the unchanged tree)
		res.obs = strings.Join(steps, "; ") + "; NOT REACHED: B retained no staged WAL"
		res.key = res.obs
		return res
	}

	// cut the link, let A run ahead and compact its log
	g.blocked.Store(true)
	write(2)
	write(3)
	c04Must(name, "a snapshot", a.Snapshot(1))
	aSnapIdx, _, err := a.snapshotStore.(*snapshot.Store).LatestIndexTerm()
	c04Must(name, "a snapshot index", err)
	g.blocked.Store(false)
	c04WaitFor("b to install a's snapshot", func() bool {
		li, _, err := b.snapshotStore.(*snapshot.Store).LatestIndexTerm()
		return err == nil && li >= aSnapIdx && b.fsmIdx.Load() >= aSnapIdx
	})
	say("B installed snapshot at index %d", aSnapIdx)
	for _, w := range stagedAtInstall {
		if c04Exists(w) {
			cb.stale[filepath.Base(w)] = "install"
		}
	}
	write(4)
	caughtUp()
	ld, err := c04DumpDB(b.db.QueryStringStmt)
	c04Must(name, "b dump", err)
	if md := ca.model.dump(); ld.hash != md.hash {
		cb.violate(cb.mechanism(), "live-database-wrong", fmt.Sprintf("after installing the leader's snapshot and one more write B holds %s, the leader's writes make %s", ld, md))
	}
	err = b.Snapshot(0)
	say("B snapshot after install: %s", cb.snapErrClass(err))
	if err == nil {
		cb.haveSnap, cb.snapModel = true, ca.model.dump()
		li, _, _ := b.snapshotStore.(*snapshot.Store).LatestIndexTerm()
		cb.snapIdx = li
	} else {
		// whatever B's store holds now is A's installed snapshot (index aSnapIdx); its content is not tracked here
		cb.haveSnap = false
	}
	res.obs = strings.Join(steps, "; ")
	res.steps = 12
	res.key = res.obs
	cb.model = ca.model
	cb.checkRestore()
	if len(res.violations) == 0 {
		// reap on B consolidates the installed snapshot (database + WAL) and B's incremental
		n, w, err := c04Reap(b.Reap)
		say("B reap: %d snapshots, %d WALs, err=%v", n, w, err)
		res.obs = strings.Join(steps, "; ")
		if err != nil {
			cb.violate(cb.mechanism(), "reap-fails", fmt.Sprintf("reaping B's snapshot store fails: %v", err))
		} else {
			cb.checkRestore()
		}
	}
	// restart B with a forced restore; A stays up so that B finds its leader
	before, err := c04DumpDB(b.db.QueryStringStmt)
	c04Must(name, "b dump", err)
	want := b.fsmIdx.Load()
	mech := cb.mechanism()
	c04Must(name, "close b", b.Close(true))
	c04Must(name, "force restore", b.ForceSnapshotRestore())
	if err := b.Open(); err != nil {
		cb.violate(mech, "restart-fails", fmt.Sprintf("B restarted with a forced restore fails to open: %v [%s]", err, res.obs))
		if b.db != nil {
			b.db.Close()
		}
		if b.boltStore != nil {
			b.boltStore.Close()
		}
		if b.snapshotStore != nil {
			b.snapshotStore.Close()
		}
		return res
	}
	c04WaitFor("b to re-apply", func() bool { return b.fsmIdx.Load() >= want })
	after, err := c04DumpDB(b.db.QueryStringStmt)
	if err != nil {
		cb.violate(mech, "restart-wrong", fmt.Sprintf("B restarted with a forced restore cannot read its database: %v [%s]", err, res.obs))
	} else if after.hash != before.hash {
		cb.violate(mech, "restart-wrong", fmt.Sprintf("B restarted with a forced restore holds %s, before the restart %s [%s]", after, before, res.obs))
	}
	return res
}

func TestVerif_C04_follower(t *testing.T) {
	r := kit.Start(t, "C04", "follower")
	defer r.Finish()
	log.SetOutput(c04FatalOnly{})
	r.Rule("4 directed two-node histories (follower keeps a staged WAL because its persist was skipped / failed) x (small / page-heavy writes): leader runs ahead behind a cut link and compacts its log, raft installs the leader's snapshot on the follower through the real sink and fsmRestore, one more write, follower snapshots; then the C04 oracle on the follower's snapshot store and a forced-restore restart of the follower. distinct = scenario outcomes")
	r.Assume("directed histories only: a search over two-node histories is not built")
	// (a replay of this part re-runs all four scenarios)
	type sc struct {
		retain byte
		big    bool
	}
	scs := []sc{{'K', false}, {'K', true}, {'F', false}, {'F', true}}
	out := make([]*c04Result, len(scs))
	var wg sync.WaitGroup
	for i, s := range scs {
		wg.Add(1)
		go func(i int, s sc) {
			defer wg.Done()
			out[i] = c04FollowerRun(t, s.retain, s.big)
		}(i, s)
	}
	wg.Wait()
	for _, res := range out {
		r.Eval(1)
		r.Transition(res.steps)
		r.Distinct(res.hist + " || " + res.obs)
		r.Sample(map[string]any{"scenario": res.hist, "outcomes": res.obs, "violations": len(res.violations)})
		if strings.Contains(res.obs, "NOT REACHED") {
			r.Cap("scenario %s did not reach the install with a staged WAL: %s", res.hist, res.obs)
		}
		for _, vi := range res.violations {
			r.Violation(vi.key, vi.what, map[string]any{"scenario": res.hist})
		}
	}
	r.State(len(scs))
}
