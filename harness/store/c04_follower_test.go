package store

import (
	"context"
	"errors"
	"fmt"
	"log"
	"net"
	"os"
	"path/filepath"
	"strings"
	"sync"
	"sync/atomic"
	"testing"
	"time"

	"github.com/rqlite/rqlite/v10/command/proto"
	sql "github.com/rqlite/rqlite/v10/db"
	kit "github.com/rqlite/rqlite/v10/internal/verifkit"
	"github.com/rqlite/rqlite/v10/snapshot"
)

// C04, follower part: "a follower installing such a snapshot never sees reverted,
// corrupted or missing data" - for a follower that itself holds a staged WAL (its own
// persist was skipped or failed) at the moment raft installs the leader's snapshot on it.
// This needs two live nodes, so it is a small set of directed histories, not a search:
//
//	leader A (single voter), read-only follower B, both real Stores over a gated TCP layer.
//	1. A writes; B joins and catches up; B takes its first (full) snapshot.
//	2. A writes; B receives it. B snapshots with the persist skipped (A joins an
//	   unreachable non-voter first: the configuration entry is ahead of B's FSM) or with
//	   the persist failing (sink refuses the header, see operation F): B keeps one staged WAL.
//	3. the link is cut, A writes twice and snapshots leaving one trailing log, the link is
//	   restored: B is behind A's first log index, raft installs A's snapshot on B (real
//	   sink + real fsmRestore).
//	4. A writes once more, B receives it, B snapshots (incremental).
//	Oracle on B (the C04 oracle): the newest snapshot of B's snapshot store restores (directly and
//	through a second store's sink) to the database at that index, and B restarted with a forced
//	restore shows the same database as before.

type c04Gate struct{ blocked atomic.Bool }

// c04GateLayer is a Layer whose listener survives Store.Close (so that a re-opened Store
// keeps its address): Close only ends the Accept calls that are pending at that moment.
type c04GateLayer struct {
	Layer
	g     *c04Gate
	mu    sync.Mutex
	stop  chan struct{}
	conns chan net.Conn
	once  sync.Once
}

func c04NewGateLayer(g *c04Gate) *c04GateLayer {
	return &c04GateLayer{Layer: mustMockLayer("localhost:0"), g: g, stop: make(chan struct{}), conns: make(chan net.Conn)}
}

func (l *c04GateLayer) pump() {
	for {
		c, err := l.Layer.Accept()
		if err != nil {
			return
		}
		if l.g.blocked.Load() {
			c.Close()
			continue
		}
		l.conns <- c
	}
}

func (l *c04GateLayer) Close() error {
	l.mu.Lock()
	close(l.stop)
	l.stop = make(chan struct{})
	l.mu.Unlock()
	return nil
}

func (l *c04GateLayer) reallyClose() { l.Layer.Close() }

type c04GateConn struct {
	net.Conn
	g *c04Gate
}

func (c *c04GateConn) Write(p []byte) (int, error) {
	if c.g.blocked.Load() {
		c.Conn.Close()
		return 0, errors.New("c04: link cut")
	}
	return c.Conn.Write(p)
}

func (l *c04GateLayer) Dial(addr string, timeout time.Duration) (net.Conn, error) {
	if l.g.blocked.Load() {
		return nil, errors.New("c04: link cut")
	}
	c, err := l.Layer.Dial(addr, timeout)
	if err != nil {
		return nil, err
	}
	return &c04GateConn{Conn: c, g: l.g}, nil
}

func (l *c04GateLayer) Accept() (net.Conn, error) {
	l.once.Do(func() { go l.pump() })
	l.mu.Lock()
	stop := l.stop
	l.mu.Unlock()
	select {
	case c := <-l.conns:
		return &c04GateConn{Conn: c, g: l.g}, nil
	case <-stop:
		return nil, errors.New("c04: layer closed")
	}
}

func c04NewStoreLy(dir, id string, ly Layer) *Store {
	s := New(&Config{DBConf: NewDBConfig(), Dir: dir, ID: id, Logger: log.New(c04FatalOnly{}, "[store] ", log.LstdFlags)}, ly)
	s.NoSnapshotOnClose = true
	s.SnapshotReapThreshold = 1 << 20
	s.RaftLogLevel = "ERROR"
	s.HeartbeatTimeout = 300 * time.Millisecond
	s.ElectionTimeout = 300 * time.Millisecond
	s.LeaderLeaseTimeout = 300 * time.Millisecond
	return s
}

func c04WaitFor(what string, f func() bool) {
	dl := time.Now().Add(120 * time.Second)
	for time.Now().Before(dl) {
		if f() {
			return
		}
		time.Sleep(5 * time.Millisecond)
	}
	panic("c04 follower harness: timed out waiting for " + what)
}

// c04FollowerRun runs one scenario; retain is 'K' (persist skipped) or 'F' (persist fails),
// big selects whether the last write overlaps the page of the retained WAL.
func c04FollowerRun(t *testing.T, retain byte, big bool) *c04Result {
	name := fmt.Sprintf("follower:%c:overlap=%t", retain, big)
	res := &c04Result{hist: name}
	dir := kit.Scratch(t)
	defer os.RemoveAll(dir)
	g := &c04Gate{}
	la, lb := c04NewGateLayer(g), c04NewGateLayer(g)
	a := c04NewStoreLy(filepath.Join(dir, "a"), "a", la)
	b := c04NewStoreLy(filepath.Join(dir, "b"), "b", lb)
	c04Must(name, "open a", a.Open())
	c04Must(name, "bootstrap a", a.Bootstrap(NewServer(a.ID(), a.Addr(), true)))
	_, err := a.WaitForLeader(120 * time.Second)
	c04Must(name, "leader a", err)
	c04Must(name, "open b", b.Open())
	defer func() {
		b.Close(true)
		a.Close(true)
		la.reallyClose()
		lb.reallyClose()
	}()

	// A is driven through a c04Exec (writes + model); B is judged through another one
	ca := &c04Exec{t: t, hist: name, dir: filepath.Join(dir, "xa"), s: a, model: c04Model{"t": {}}, stale: map[string]string{}, res: &c04Result{}}
	cb := &c04Exec{t: t, hist: name, dir: filepath.Join(dir, "xb"), s: b, model: ca.model, stale: map[string]string{}, res: res}
	cb.mech = func() string {
		// a WAL of B that was staged before the install and is now part of B's newest chain
		set, err := (&snapshot.SnapshotCatalog{}).Scan(b.snapshotDir)
		if err == nil && set.Len() > 0 {
			ids := set.IDs()
			if _, wals, err := set.ResolveFiles(ids[len(ids)-1]); err == nil {
				for _, w := range wals {
					if _, ok := cb.stale[filepath.Base(w.Path)]; ok {
						return "stale-staged-wal-after-install"
					}
				}
			}
		}
		return "follower-unexplained"
	}
	// writes are updates of single rows of p, a table with one row per database page, so that
	// each WAL holds a chosen page: step -> row. With big=false the write after the install
	// touches a page the retained WAL does not hold; with big=true it touches the same page.
	rowOf := map[int]int64{0: 1, 1: 1, 2: 1, 3: 3, 4: 2}
	if big {
		rowOf[4] = 1
	}
	write := func(i int) {
		id := rowOf[i]
		ca.exec(fmt.Sprintf("UPDATE p SET g=g+1 WHERE id=%d", id))
		r := ca.model["p"][id]
		r.g++
		ca.model["p"][id] = r
	}
	caughtUp := func() {
		want := a.fsmIdx.Load()
		c04WaitFor("b to apply", func() bool { return b.fsmIdx.Load() >= want })
	}
	var steps []string
	say := func(f string, args ...any) { steps = append(steps, fmt.Sprintf(f, args...)) }

	ca.exec(c04CreateSQL("t"))
	ca.exec(c04CreateSQL("p"))
	ca.model["p"] = map[int64]c04Row{}
	for id := int64(1); id <= 6; id++ {
		v := strings.Repeat(string(rune('a'+id)), 3000)
		ca.exec(fmt.Sprintf("INSERT INTO p(id,g,v) VALUES(%d,0,'%s')", id, v))
		ca.model["p"][id] = c04Row{0, v}
	}
	c04Must(name, "join b", a.Join(joinRequest("b", b.Addr(), false)))
	write(0) // also moves B's FSM index past the configuration entry of its own join
	caughtUp()
	c04Must(name, "b first snapshot", b.Snapshot(0))
	say("B full snapshot")
	// A has a full snapshot too, so that the one it takes behind the cut link is an
	// incremental and the stream B installs is a database plus a WAL
	c04Must(name, "a first snapshot", a.Snapshot(0))
	write(1)
	caughtUp()
	switch retain {
	case 'K':
		c04Must(name, "join ghost", a.Join(joinRequest("ghost", "127.0.0.1:1", false)))
		ci := a.raft.LastIndex() // the configuration entry
		c04WaitFor("b to see the configuration", func() bool {
			// committed on B, not just received: raft skips the persist for a committed
			// configuration entry that the FSM has not passed
			return b.raft.AppliedIndex() >= ci
		})
		err := b.Snapshot(0)
		say("B snapshot: %s", cb.snapErrClass(err))
		c04Must(name, "remove ghost", a.Remove(context.Background(), removeNodeRequest("ghost")))
	case 'F':
		say("B snapshot: %s", c04SnapshotPersistFails(name, b, cb.snapErrClass))
	}
	stagedAtInstall := cb.stagedWALs()
	say("B staged WALs: %d", len(stagedAtInstall))
	if len(stagedAtInstall) == 0 {
		// the situation this scenario is about did not arise (it always does on the unchanged tree)
		res.obs = strings.Join(steps, "; ") + "; NOT REACHED: B retained no staged WAL"
		res.key = res.obs
		return res
	}

	// cut the link, let A run ahead and compact its log
	g.blocked.Store(true)
	write(2)
	write(3)
	c04Must(name, "a snapshot", a.Snapshot(1))
	aSnapIdx, _, err := a.snapshotStore.(*snapshot.Store).LatestIndexTerm()
	c04Must(name, "a snapshot index", err)
	g.blocked.Store(false)
	c04WaitFor("b to install a's snapshot", func() bool {
		li, _, err := b.snapshotStore.(*snapshot.Store).LatestIndexTerm()
		return err == nil && li >= aSnapIdx && b.fsmIdx.Load() >= aSnapIdx
	})
	say("B installed snapshot at index %d", aSnapIdx)
	for _, w := range stagedAtInstall {
		if c04Exists(w) {
			cb.stale[filepath.Base(w)] = "install"
		}
	}
	write(4)
	caughtUp()
	ld, err := c04DumpDB(b.db.QueryStringStmt)
	c04Must(name, "b dump", err)
	if md := ca.model.dump(); ld.hash != md.hash {
		cb.violate(cb.mechanism(), "live-database-wrong", fmt.Sprintf("after installing the leader's snapshot and one more write B holds %s, the leader's writes make %s", ld, md))
	}
	err = b.Snapshot(0)
	say("B snapshot after install: %s", cb.snapErrClass(err))
	if err == nil {
		cb.haveSnap, cb.snapModel = true, ca.model.dump()
		li, _, _ := b.snapshotStore.(*snapshot.Store).LatestIndexTerm()
		cb.snapIdx = li
	} else {
		// whatever B's store holds now is A's installed snapshot (index aSnapIdx); its content is not tracked here
		cb.haveSnap = false
	}
	res.obs = strings.Join(steps, "; ")
	res.steps = 12
	res.key = res.obs
	cb.model = ca.model
	cb.checkRestore()
	if len(res.violations) == 0 {
		// reap on B consolidates the installed snapshot (database + WAL) and B's incremental
		n, w, err := c04Reap(b.Reap)
		say("B reap: %d snapshots, %d WALs, err=%v", n, w, err)
		res.obs = strings.Join(steps, "; ")
		if err != nil {
			cb.violate(cb.mechanism(), "reap-fails", fmt.Sprintf("reaping B's snapshot store fails: %v", err))
		} else {
			cb.checkRestore()
		}
	}
	// restart B with a forced restore; A stays up so that B finds its leader
	before, err := c04DumpDB(b.db.QueryStringStmt)
	c04Must(name, "b dump", err)
	want := b.fsmIdx.Load()
	mech := cb.mechanism()
	c04Must(name, "close b", b.Close(true))
	c04Must(name, "force restore", b.ForceSnapshotRestore())
	if err := b.Open(); err != nil {
		cb.violate(mech, "restart-fails", fmt.Sprintf("B restarted with a forced restore fails to open: %v [%s]", err, res.obs))
		if b.db != nil {
			b.db.Close()
		}
		if b.boltStore != nil {
			b.boltStore.Close()
		}
		if b.snapshotStore != nil {
			b.snapshotStore.Close()
		}
		return res
	}
	c04WaitFor("b to re-apply", func() bool { return b.fsmIdx.Load() >= want })
	after, err := c04DumpDB(b.db.QueryStringStmt)
	if err != nil {
		cb.violate(mech, "restart-wrong", fmt.Sprintf("B restarted with a forced restore cannot read its database: %v [%s]", err, res.obs))
	} else if after.hash != before.hash {
		cb.violate(mech, "restart-wrong", fmt.Sprintf("B restarted with a forced restore holds %s, before the restart %s [%s]", after, before, res.obs))
	}
	return res
}

// ---------------------------------------------------------------- replicated load

// c04WALModeCopy returns the same database as data but as a WAL-mode SQLite file.
func c04WALModeCopy(t *testing.T, data []byte) []byte {
	dir := kit.Scratch(t)
	defer os.RemoveAll(dir)
	p := filepath.Join(dir, "wal.db")
	if err := os.WriteFile(p, data, 0644); err != nil {
		panic(err)
	}
	d, err := sql.Open(p, false, true)
	if err != nil {
		panic(fmt.Sprintf("c04 harness: WAL-mode copy: %v", err))
	}
	if _, err := d.ExecuteStringStmt("CREATE TABLE zz(x); DROP TABLE zz"); err != nil {
		panic(err)
	}
	if meta, err := d.Checkpoint(sql.CheckpointTruncate); err != nil || !meta.Success() {
		panic(fmt.Sprintf("c04 harness: WAL-mode copy checkpoint: %v %v", err, meta))
	}
	if err := d.Close(); err != nil {
		panic(err)
	}
	b, err := os.ReadFile(p)
	if err != nil || len(b) < 20 || b[18] != 2 || b[19] != 2 {
		panic(fmt.Sprintf("c04 harness: WAL-mode copy is not a WAL-mode file: %v", err))
	}
	return b
}

// c04LoadRun is a directed two-node history about a LOAD that reaches a node through the
// raft log while that node already has a snapshot chain of its own:
//
//	leader A, read-only follower B; setup writes; the node under test T (B or A) takes its
//	first (full) snapshot; optionally T is restarted as a new process would be (new Store
//	object, same directory and address; the start-up must take the fast path - checked);
//	A loads a SQLite file (DELETE-mode or WAL-mode) - T applies the LOAD entry; A writes
//	(page-sparse); T snapshots; A writes; T snapshots again.
//	Oracle on T after each of its two snapshots: its newest snapshot restores (directly and
//	through a second store's sink) to the model at that index; finally T is restarted with
//	a forced restore and must show the database it had before.
func c04LoadRun(t *testing.T, onFollower, restarted, walFile bool) *c04Result {
	node := map[bool]string{true: "follower", false: "leader"}[onFollower]
	name := fmt.Sprintf("load:%s:restarted=%t:walfile=%t", node, restarted, walFile)
	res := &c04Result{hist: name}
	dir := kit.Scratch(t)
	defer os.RemoveAll(dir)
	g := &c04Gate{}
	la, lb := c04NewGateLayer(g), c04NewGateLayer(g)
	a := c04NewStoreLy(filepath.Join(dir, "a"), "a", la)
	b := c04NewStoreLy(filepath.Join(dir, "b"), "b", lb)
	c04Must(name, "open a", a.Open())
	c04Must(name, "bootstrap a", a.Bootstrap(NewServer(a.ID(), a.Addr(), true)))
	_, err := a.WaitForLeader(120 * time.Second)
	c04Must(name, "leader a", err)
	c04Must(name, "open b", b.Open())
	defer func() {
		b.Close(true)
		a.Close(true)
		la.reallyClose()
		lb.reallyClose()
	}()
	file := c04LoadFiles(t)[0]
	data := file.data
	if walFile {
		data = c04WALModeCopy(t, data)
	}

	ca := &c04Exec{t: t, hist: name, dir: filepath.Join(dir, "xa"), s: a, model: c04Model{"t": {}}, stale: map[string]string{}, res: &c04Result{}}
	ct := &c04Exec{t: t, hist: name, dir: filepath.Join(dir, "xt"), stale: map[string]string{}, res: res}
	T := func() *Store {
		if onFollower {
			return b
		}
		return a
	}
	loaded := false
	ct.mech = func() string {
		set, err := (&snapshot.SnapshotCatalog{}).Scan(T().snapshotDir)
		if err == nil && set.Len() > 0 && loaded {
			ids := set.IDs()
			// is there a full snapshot taken after the load? the one before it is ids[0]
			if _, newer := set.PartitionAtFull(); newer.Len() == set.Len()-1 && set.Len() > 1 && ids[0] == ct.firstSnapID {
				return "snapshot-chain-continues-across-replicated-load"
			}
		}
		return "replicated-load-unexplained"
	}
	var steps []string
	say := func(f string, args ...any) { steps = append(steps, fmt.Sprintf(f, args...)) }
	caughtUp := func() {
		want := a.fsmIdx.Load()
		c04WaitFor("b to apply", func() bool { return b.fsmIdx.Load() >= want })
	}
	check := func(when string) {
		ct.s, ct.model = T(), ca.model
		ld, err := c04DumpDB(T().db.QueryStringStmt)
		c04Must(name, "dump", err)
		md := ca.model.dump()
		if ld.hash != md.hash {
			ct.violate(ct.mechanism(), "live-database-wrong", fmt.Sprintf("%s: the %s holds %s, the leader's writes make %s", when, node, ld, md))
		}
		li, _, err := T().snapshotStore.(*snapshot.Store).LatestIndexTerm()
		c04Must(name, "latest index", err)
		ct.haveSnap, ct.snapIdx, ct.snapModel = true, li, md
		ct.checkRestore()
	}

	ca.setup()
	c04Must(name, "join b", a.Join(joinRequest("b", b.Addr(), false)))
	ca.step(0, 'w') // also moves B's FSM index past the configuration entry of its own join
	caughtUp()
	c04Must(name, "first snapshot", T().Snapshot(0))
	if ids := func() []string {
		set, _ := (&snapshot.SnapshotCatalog{}).Scan(T().snapshotDir)
		return set.IDs()
	}(); len(ids) == 1 {
		ct.firstSnapID = ids[0]
	}
	say("%s full snapshot", node)
	if restarted {
		// a new process: new Store object on the same directory, same address
		old := T()
		c04Must(name, "close", old.Close(true))
		var ns *Store
		if onFollower {
			ns = c04NewStoreLy(old.raftDir, "b", lb)
			b = ns
		} else {
			ns = c04NewStoreLy(old.raftDir, "a", la)
			a = ns
			ca.s = ns
		}
		c04Must(name, "reopen", ns.Open())
		_, err := a.WaitForLeader(120 * time.Second)
		c04Must(name, "leader after restart", err)
		c04WaitFor("a to lead", func() bool { return a.IsLeader() })
		if ns.numSnapshotsSkipped.Load() != 1 {
			res.obs = strings.Join(steps, "; ") + "; NOT REACHED: the restart did not take the fast path"
			res.key = res.obs
			return res
		}
		say("%s restarted on the fast path", node)
		ca.step(1, 'w')
		caughtUp()
	}
	c04Must(name, "load", a.Load(context.Background(), &proto.LoadRequest{Data: data}))
	loaded = true
	ca.model = file.model.clone()
	ca.nSmall = 0
	say("load replicated")
	ca.step(2, 'w')
	caughtUp()
	err = T().Snapshot(0)
	say("%s snapshot after load: %s", node, ct.snapErrClass(err))
	c04Must(name, "snapshot after load", err)
	check("after the load, one write and a snapshot")
	if len(res.violations) == 0 {
		ca.step(3, 'w')
		caughtUp()
		err = T().Snapshot(0)
		say("%s second snapshot after load: %s", node, ct.snapErrClass(err))
		c04Must(name, "second snapshot after load", err)
		check("after the load, two writes and two snapshots")
	}
	res.obs = strings.Join(steps, "; ")
	res.key = res.obs
	res.steps = 10

	// forced-restore restart of T (new Store object)
	old := T()
	before, err := c04DumpDB(old.db.QueryStringStmt)
	c04Must(name, "dump", err)
	want := old.fsmIdx.Load()
	mech := ct.mechanism()
	c04Must(name, "close", old.Close(true))
	c04Must(name, "force restore", old.ForceSnapshotRestore())
	var ns *Store
	if onFollower {
		ns = c04NewStoreLy(old.raftDir, "b", lb)
		b = ns
	} else {
		ns = c04NewStoreLy(old.raftDir, "a", la)
		a = ns
	}
	if err := ns.Open(); err != nil {
		ct.violate(mech, "restart-fails", fmt.Sprintf("the %s restarted with a forced restore fails to open: %v [%s]", node, err, res.obs))
		if ns.db != nil {
			ns.db.Close()
		}
		if ns.boltStore != nil {
			ns.boltStore.Close()
		}
		if ns.snapshotStore != nil {
			ns.snapshotStore.Close()
		}
		return res
	}
	c04WaitFor("re-apply", func() bool { return ns.fsmIdx.Load() >= want })
	after, err := c04DumpDB(ns.db.QueryStringStmt)
	if err != nil {
		ct.violate(mech, "restart-wrong", fmt.Sprintf("the %s restarted with a forced restore cannot read its database: %v [%s]", node, err, res.obs))
	} else if after.hash != before.hash {
		ct.violate(mech, "restart-wrong", fmt.Sprintf("the %s restarted with a forced restore holds %s, before the restart %s [%s]", node, after, before, res.obs))
	}
	return res
}

func TestVerif_C04_follower(t *testing.T) {
	r := kit.Start(t, "C04", "follower")
	defer r.Finish()
	log.SetOutput(c04FatalOnly{})
	r.Rule("8 directed two-node histories about a LOAD replicated to a node that has a snapshot chain of its own ({follower, leader} x {restarted on the fast path before the load, not restarted} x {DELETE-mode, WAL-mode file}; then writes and two snapshots on that node, the C04 oracle on its snapshot store after each, and a forced-restore restart), and 4 directed two-node histories (follower keeps a staged WAL because its persist was skipped / failed) x (small / page-heavy writes): leader runs ahead behind a cut link and compacts its log, raft installs the leader's snapshot on the follower through the real sink and fsmRestore, one more write, follower snapshots; then the C04 oracle on the follower's snapshot store and a forced-restore restart of the follower. distinct = scenario outcomes")
	r.Assume("directed histories only: a search over two-node histories is not built")
	// (a replay of this part re-runs all four scenarios)
	var runs []func() *c04Result
	for _, retain := range []byte{'K', 'F'} {
		for _, big := range []bool{false, true} {
			runs = append(runs, func() *c04Result { return c04FollowerRun(t, retain, big) })
		}
	}
	for _, onFollower := range []bool{true, false} {
		for _, restarted := range []bool{true, false} {
			for _, walFile := range []bool{false, true} {
				runs = append(runs, func() *c04Result { return c04LoadRun(t, onFollower, restarted, walFile) })
			}
		}
	}
	out := make([]*c04Result, len(runs))
	var wg sync.WaitGroup
	sem := make(chan struct{}, 6)
	for i, f := range runs {
		wg.Add(1)
		sem <- struct{}{}
		go func(i int, f func() *c04Result) {
			defer wg.Done()
			defer func() { <-sem }()
			out[i] = f()
		}(i, f)
	}
	wg.Wait()
	for _, res := range out {
		r.Eval(1)
		r.Transition(res.steps)
		r.Distinct(res.hist + " || " + res.obs)
		r.Sample(map[string]any{"scenario": res.hist, "outcomes": res.obs, "violations": len(res.violations)})
		if strings.Contains(res.obs, "NOT REACHED") {
			r.Cap("scenario %s did not reach the situation it is about: %s", res.hist, res.obs)
		}
		for _, vi := range res.violations {
			r.Violation(vi.key, vi.what, map[string]any{"scenario": res.hist})
		}
	}
	r.State(len(runs))
}
