package store

import (
	"context"
	"encoding/json"
	"fmt"
	"os"
	"strings"
	"sync"
	"sync/atomic"
	"testing"
	"time"

	"github.com/rqlite/rqlite/v10/command/proto"
	kit "github.com/rqlite/rqlite/v10/internal/verifkit"
)

// C17 part "cluster": both sentences of the statement on a live cluster of real
// Stores - leader, voting follower, non-voter (kit: c02_cluster_test.go,
// vx_roles_test.go).
//
//	"No query-endpoint request, and no statement a unified request treats as
//	 read-only, at any consistency level, changes the database of ANY node. A
//	 node's database changes only by applying committed log entries, installing
//	 a snapshot, or an explicit boot or load."
//
// Every request of the statement menu of the single-node part (c17Cases: read-only
// firsts, modifying seconds, multi-statement texts, two-statement requests) is
// sent at each of NONE, WEAK, STRONG, LINEARIZABLE, AUTO through Store.Query and
// through Store.Request to EVERY node (no forwarding: a node that answers "not
// leader" has answered). Before and after each request, once replication has come
// to rest, every node's content digest (schema, all rows of both tables,
// user_version) and its applied log index are taken.
//
// Oracle
//  1. (second sentence) a node whose digest changed has a higher applied index than
//     before: the Store's applied index moves only when the FSM applies a command
//     entry of the log (or restores a snapshot; none is installed here, no boot, no
//     load). A digest that changes under an unchanged applied index was changed
//     behind the log.
//  2. (first sentence, on every node) after a Store.Query request, and after a
//     Store.Request request in which no statement was answered with an execute
//     result, no node's digest has changed.
//
// A request that legitimately writes (Store.Request with an execute result) is
// judged by rule 1 only; the cluster is then reset through the leader and all
// digests must be back at the base value.
//
// Keys: a rule-2 violation of a request sent to the leader is keyed exactly as in
// the single-node part (C17:db-changed:<endpoint>:<level>:<shape>:<kind>), so the
// known findings recorded there match here; anything else gets a key of its own
// (C17:cluster:...).

const c17cWait = 30 * time.Second

type c17cReq struct {
	Target     string   `json:"target_role"`
	Node       int      `json:"node"`
	Endpoint   string   `json:"endpoint"`
	Level      string   `json:"level"`
	Statements []string `json:"statements"`
}

var c17cRoles = []string{"leader", "follower", "non-voter"}

func c17cDigest(s *Store) (string, error) {
	qr := queryRequestFromStrings([]string{
		"SELECT type,name,tbl_name,sql FROM sqlite_master ORDER BY name",
		"SELECT * FROM t ORDER BY id", "SELECT * FROM u ORDER BY id", "PRAGMA user_version"}, false, false, false)
	qr.Level = proto.ConsistencyLevel_NONE
	rows, _, _, err := s.Query(context.Background(), qr)
	if err != nil {
		return "", err
	}
	var b strings.Builder
	for _, q := range rows {
		fmt.Fprintf(&b, "%v:", q.Columns)
		for _, row := range q.Values {
			b.WriteString("(")
			for _, p := range row.Parameters {
				switch v := p.GetValue().(type) {
				case *proto.Parameter_I:
					fmt.Fprintf(&b, "%d,", v.I)
				case *proto.Parameter_D:
					fmt.Fprintf(&b, "%g,", v.D)
				case *proto.Parameter_S:
					fmt.Fprintf(&b, "%q,", v.S)
				case *proto.Parameter_Y:
					fmt.Fprintf(&b, "x%x,", v.Y)
				case *proto.Parameter_B:
					fmt.Fprintf(&b, "%v,", v.B)
				default:
					b.WriteString("NULL,")
				}
			}
			b.WriteString(")")
		}
		fmt.Fprintf(&b, "%s ## ", q.Error)
	}
	return b.String(), nil
}

type c17cNodeState struct {
	digest string
	idx    uint64
}

type c17cWorker struct {
	t    *testing.T
	r    *kit.Run
	c    *vcCluster
	base string
	cur  [3]c17cNodeState
}

func (w *c17cWorker) fail(f string, a ...any) {
	panic(fmt.Sprintf("harness: %s [%s]", fmt.Sprintf(f, a...), w.c.describe()))
}

// rest waits until replication has come to rest (every node holds the leader's
// whole log and has applied what the leader has applied) and then reads every
// node's digest together with the applied index it was taken at.
func (w *c17cWorker) rest() [3]c17cNodeState {
	deadline := time.Now().Add(c17cWait)
	for {
		l := w.c.Leader()
		if l != 0 {
			w.fail("node %d leads instead of node 0 (no fault is injected in this part)", l)
		}
		ls := w.c.nodes[l].store()
		li, last := ls.fsmIdx.Load(), ls.raft.LastIndex()
		ok := true
		for _, n := range w.c.nodes {
			s := n.store()
			if s.fsmIdx.Load() != li || s.raft.LastIndex() != last {
				ok = false
			}
		}
		if ok {
			var out [3]c17cNodeState
			for i, n := range w.c.nodes {
				s := n.store()
				a := s.fsmIdx.Load()
				d, err := c17cDigest(s)
				if err != nil {
					w.fail("digest of node %d: %v", i, err)
				}
				if s.fsmIdx.Load() != a {
					ok = false
					break
				}
				out[i] = c17cNodeState{d, a}
			}
			if ok && ls.raft.LastIndex() == last {
				return out
			}
		}
		if time.Now().After(deadline) {
			w.fail("replication did not come to rest within %v", c17cWait)
		}
		time.Sleep(200 * time.Microsecond)
	}
}

func (w *c17cWorker) reset() {
	res, _, err := w.c.nodes[0].store().Execute(context.Background(), executeRequestFromStrings(c17Reset, false, false))
	if err != nil {
		w.fail("reset: %v", err)
	}
	for _, x := range res {
		if x.GetError() != "" {
			w.fail("reset: %s", x.GetError())
		}
	}
	w.cur = w.rest()
}

func c17cSend(s *Store, ep string, lvl proto.ConsistencyLevel, stmts []string) (outcome string, treatedAsRead bool) {
	treatedAsRead = true
	if ep == "query" {
		qr := queryRequestFromStrings(stmts, false, false, false)
		qr.Level = lvl
		qr.LinearizableTimeout = int64(5 * time.Second)
		rows, _, _, err := s.Query(context.Background(), qr)
		return c17Outcome(err, len(rows)), true
	}
	eqr := executeQueryRequestFromStrings(stmts, lvl, false, false, false)
	eqr.LinearizableTimeout = int64(5 * time.Second)
	resp, _, _, err := s.Request(context.Background(), eqr)
	outcome = c17Outcome(err, len(resp))
	for _, x := range resp {
		if x.GetE() != nil {
			treatedAsRead = false
			outcome += "+execute-result"
		}
	}
	return outcome, treatedAsRead
}

// run judges one request.
func (w *c17cWorker) run(cs c17Case, lvl proto.ConsistencyLevel, ep string, target int, sample bool) {
	before := w.cur
	rq := c17cReq{Target: c17cRoles[target], Node: target, Endpoint: ep, Level: lvl.String(), Statements: cs.stmts}
	outcome, treatedAsRead := c17cSend(w.c.nodes[target].store(), ep, lvl, cs.stmts)
	after := w.rest()
	w.cur = after
	w.r.Eval(1)
	kind := cs.sec.kind
	if kind == "" {
		kind = "none"
	}
	var changed, behind []string
	for i := range after {
		if after[i].digest != before[i].digest {
			changed = append(changed, c17cRoles[i])
			if after[i].idx == before[i].idx {
				behind = append(behind, c17cRoles[i])
			}
		}
	}
	w.r.Distinct(fmt.Sprintf("%s|%s|%s|%s|%s|%s|changed=%v|behind-the-log=%v|index-advanced=%v", c17cRoles[target], ep, lvl, cs.shape, kind, outcome, changed, behind, after[0].idx > before[0].idx))
	if sample {
		w.r.Sample(map[string]any{"request": rq, "outcome": outcome, "nodes_changed": changed, "applied_index_before": before[0].idx, "applied_index_after": after[0].idx})
	}
	where := fmt.Sprintf("Store.%s on the %s at level %s, statements %q (%s), answer %s", map[string]string{"query": "Query", "request": "Request"}[ep], c17cRoles[target], lvl, cs.stmts, cs.shape, outcome)
	for _, role := range behind {
		i := map[string]int{"leader": 0, "follower": 1, "non-voter": 2}[role]
		w.r.Violation(fmt.Sprintf("C17:cluster:db-changed-behind-the-log:%s:%s:%s:%s:%s", role, ep, lvl, cs.shape, kind),
			fmt.Sprintf("%s: the database of the %s changed although its applied log index stayed at %d (no log entry was applied, no snapshot installed, no boot, no load): before %s ; after %s",
				where, role, after[i].idx, before[i].digest, after[i].digest), rq)
	}
	if treatedAsRead && len(changed) > 0 {
		key := fmt.Sprintf("C17:db-changed:%s:%s:%s:%s", ep, lvl, cs.shape, kind)
		if target != 0 {
			key = fmt.Sprintf("C17:cluster:db-changed:sent-to-%s:%s:%s:%s:%s", c17cRoles[target], ep, lvl, cs.shape, kind)
		}
		i := map[string]int{"leader": 0, "follower": 1, "non-voter": 2}[changed[0]]
		w.r.Violation(key, fmt.Sprintf("%s: every statement was answered as a read but the database of %v changed (applied index of the leader %d -> %d): %s before %s ; after %s",
			where, changed, before[0].idx, after[0].idx, changed[0], before[i].digest, after[i].digest), rq)
	}
	if len(changed) > 0 {
		w.reset()
		for i := range w.cur {
			if w.cur[i].digest != w.base {
				w.r.Violation("C17:cluster:reset-does-not-restore:"+c17cRoles[i], fmt.Sprintf("after %s and the reset script through the leader, the %s holds %s instead of %s", where, c17cRoles[i], w.cur[i].digest, w.base), rq)
				w.fail("reset did not restore node %d", i)
			}
		}
	}
}

type c17cJob struct {
	ci     int
	cs     c17Case
	lvl    proto.ConsistencyLevel
	ep     string
	target int
}

func TestVerif_C17_cluster(t *testing.T) {
	r := kit.Start(t, "C17", "cluster")
	defer r.Finish()
	if os.Getenv("VERIF_DEBUG") == "" {
		if f, err := os.OpenFile(os.DevNull, os.O_WRONLY, 0); err == nil {
			os.Stderr = f
		}
	}
	cases := c17Cases()
	r.Rule(fmt.Sprintf("every request of the single-node part's menu (all %d: read-only firsts, modifying seconds, multi-statement texts first+sep+second with 4 separators, two-statement requests) x level {NONE, WEAK, STRONG, LINEARIZABLE, AUTO} x endpoint {Store.Query, Store.Request} x node addressed {leader, voting follower, non-voter} on live 3-node clusters of real Stores (both tiers alike); every node's digest (schema, rows, user_version) and applied index taken before and after each request with replication at rest. distinct = (node addressed, endpoint, level, shape, kind of second, answer, nodes changed, nodes changed behind the log, whether the log index advanced)", len(cases)))
	r.Assume("TEMP tables and ATTACH are left out, as in the single-node part; no snapshot is installed and no boot or load happens during the run, so the applied index of a node moves only by the FSM applying a command entry")
	r.Assume("no forwarding: a request is handed to the addressed node's Store; 'not leader' is an answer")
	r.Note("cluster part: the interleavings inside raft are uncontrolled, but every observation is taken with replication at rest (all logs equal, all applied indexes equal), so the verdicts do not depend on them")

	var jobs []c17cJob
	for ci, c := range cases {
		for _, lvl := range c17Levels {
			for _, ep := range []string{"query", "request"} {
				for target := 0; target < 3; target++ {
					jobs = append(jobs, c17cJob{ci, c, lvl, ep, target})
				}
			}
		}
	}
	if rp := kit.Replay(); rp != nil {
		var x c17cReq
		if err := json.Unmarshal(rp, &x); err != nil || len(x.Statements) == 0 {
			t.Fatalf("harness: bad replay: %v", err)
		}
		var lvl proto.ConsistencyLevel
		for _, l := range c17Levels {
			if l.String() == x.Level {
				lvl = l
			}
		}
		cs := c17Case{shape: "replay", stmts: x.Statements}
		for _, c := range cases {
			if strings.Join(c.stmts, "\x00") == strings.Join(x.Statements, "\x00") {
				cs = c
			}
		}
		jobs = nil
		for i := 0; i < 5; i++ {
			jobs = append(jobs, c17cJob{0, cs, lvl, x.Endpoint, x.Node})
		}
	}
	workers := 8
	if len(jobs) < workers {
		workers = 1
	}
	var next, nJudged, nSkipped atomic.Int64
	var wg sync.WaitGroup
	chunk := 30 // one case at all levels, endpoints and nodes stays on one cluster
	// guarded runs f and turns a harness panic (a set-up step that could not be carried out) into an error
	guarded := func(f func()) (err error) {
		defer func() {
			if p := recover(); p != nil {
				err = fmt.Errorf("%v", p)
			}
		}()
		f()
		return nil
	}
	for wi := 0; wi < workers; wi++ {
		wg.Add(1)
		go func() {
			defer wg.Done()
			var w *c17cWorker
			closeW := func() {
				if w != nil {
					vxClose(w.c)
					w = nil
				}
			}
			defer closeW()
			open := func() error {
				c, err := vxNewCluster(vcOpts{CommitTimeout: 20 * time.Millisecond}, []bool{true, true, false})
				if err != nil {
					return fmt.Errorf("harness: cluster: %v", err)
				}
				w = &c17cWorker{t: t, r: r, c: c}
				return guarded(func() {
					w.reset()
					w.base = w.cur[0].digest
					for i := range w.cur {
						if w.cur[i].digest != w.base {
							w.fail("nodes differ after the first reset")
						}
					}
				})
			}
			rebuilds := 0
			for {
				from := int(next.Add(int64(chunk))) - chunk
				if from >= len(jobs) {
					return
				}
				for k := from; k < from+chunk && k < len(jobs); k++ {
					if w == nil {
						if err := open(); err != nil {
							closeW()
							rebuilds++
							t.Logf("cluster could not be started: %v", err)
							if rebuilds > 3 {
								// the other workers take the remaining chunks; what is left of this one is not judged
								left := min(from+chunk, len(jobs)) - k
								nSkipped.Add(int64(left))
								r.Cap("a worker gave up after %d failed cluster starts (%v): %d requests not judged", rebuilds, err, left)
								return
							}
							k--
							continue
						}
					}
					j := jobs[k]
					if err := guarded(func() { w.run(j.cs, j.lvl, j.ep, j.target, k%1499 == 13) }); err != nil {
						// the cluster could not be brought to rest or reset: no verdict for this request
						nSkipped.Add(1)
						r.Cap("request %d (%v at %s through %s to node %d) could not be judged: %v", k, j.cs.stmts, j.lvl, j.ep, j.target, err)
						closeW()
						continue
					}
					nJudged.Add(1)
				}
			}
		}()
	}
	wg.Wait()
	if left := int64(len(jobs)) - nJudged.Load() - nSkipped.Load(); left > 0 {
		r.Cap("%d requests were not run (every worker gave up)", left)
	}
	r.Set("requests_not_judged", int64(len(jobs))-nJudged.Load())
	if nJudged.Load() == 0 {
		t.Fatalf("harness: no request at all could be judged")
	}
	r.Set("requests", len(jobs))
}
