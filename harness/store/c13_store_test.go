package store

import (
	"context"
	"encoding/json"
	"fmt"
	"path/filepath"
	"strings"
	"testing"
	"time"

	"github.com/rqlite/rqlite/v10/command/proto"
	rdb "github.com/rqlite/rqlite/v10/db"
	kit "github.com/rqlite/rqlite/v10/internal/verifkit"
	pb "google.golang.org/protobuf/proto"
)

// C13 at the Store: the same requests sent through Store.Execute / Store.Request (Raft
// log, command marshalling, FSM apply) on a live single-node store. Two oracles:
//  1. the all-or-nothing rule checked directly (no reference needed): with the
//     transaction flag, a reported statement error must be the last result and the table
//     must be exactly what it was before the request;
//  2. the store must give exactly what the database layer gives for the same request
//     (result list and final table) - the database layer itself is decided against a
//     shadow SQLite database by parts enum/explicit.

type c13sItem struct {
	Name  string
	SQL   string
	FQ    bool
	class string
}

var c13sMenu = []c13sItem{
	{"ins", "INSERT INTO t(v) SELECT 'k'||(MAX(id)+1) FROM t", false, "valid"},
	{"insx", "INSERT INTO t(v) VALUES('x')", false, "failing"},
	{"upd", "UPDATE t SET n = n + 1", false, "valid"},
	{"syn", "INSRT INTO t(v) VALUES('s')", false, "unparsable"},
	{"notab", "INSERT INTO nosuch(v) VALUES('z')", false, "unknown-table"},
	{"conpk", "INSERT INTO t(id, v) VALUES(1, 'pk')", false, "failing"},
	{"ret", "INSERT INTO t(v) SELECT 'r'||(MAX(id)+1) FROM t RETURNING id, v", true, "valid"},
	{"sel", "SELECT count(*), COALESCE(SUM(n), 0), COALESCE(MAX(v), '') FROM t", false, "valid"},
	{"selfail", "SELECT abs(-9223372036854775808)", false, "failing"},
	{"empty", "", false, "empty"},
}

const (
	c13sSchema  = "CREATE TABLE t (id INTEGER PRIMARY KEY, v TEXT NOT NULL UNIQUE, n INTEGER NOT NULL DEFAULT 0)"
	c13sSeed    = "INSERT INTO t(id, v, n) VALUES(1, 'a', 0)"
	c13sDumpQ   = "SELECT id, v, n FROM t ORDER BY id"
	c13sInitial = `[[1,"a",0]]`
)

func c13sReq(items []c13sItem, tx, roe bool) *proto.Request {
	req := &proto.Request{Transaction: tx, RollbackOnError: roe}
	for _, it := range items {
		req.Statements = append(req.Statements, &proto.Statement{Sql: it.SQL, ForceQuery: it.FQ})
	}
	return req
}

func c13sErr(r *proto.ExecuteQueryResponse) string {
	if e := r.GetError(); e != "" {
		return e
	}
	if e := r.GetE().GetError(); e != "" {
		return e
	}
	return r.GetQ().GetError()
}

func c13sSig(r *proto.ExecuteQueryResponse) string {
	if e := c13sErr(r); e != "" {
		return "err(" + e + ")"
	}
	switch {
	case r.GetQ() != nil:
		return "rows(" + asJSON(r.GetQ().GetValues()) + ")"
	case r.GetE() != nil:
		return fmt.Sprintf("exec(ra=%d,id=%d)", r.GetE().GetRowsAffected(), r.GetE().GetLastInsertId())
	}
	return "none"
}

func c13sSigs(rs []*proto.ExecuteQueryResponse) []string {
	out := make([]string, len(rs))
	for i, r := range rs {
		out[i] = c13sSig(r)
	}
	return out
}

type c13sCase struct {
	Part  string   `json:"part"`
	Path  string   `json:"path"`
	Tx    bool     `json:"transaction"`
	Roe   bool     `json:"rollback_on_error"`
	Items []string `json:"statements"`
	Store []string `json:"store_results,omitempty"`
	DB    []string `json:"db_results,omitempty"`
	Dump  string   `json:"store_final_table,omitempty"`
}

func TestVerif_C13_store(t *testing.T) {
	r := kit.Start(t, "C13", "store")
	defer r.Finish()
	maxLen := r.Pick(2, 3)
	names := make([]string, len(c13sMenu))
	for i, it := range c13sMenu {
		names[i] = it.Name
	}
	roes := []bool{false}
	if r.Thorough() {
		roes = []bool{false, true}
	}
	r.Rule(fmt.Sprintf("every request of 1..%d statements over %v x transaction flag x rollback-on-error flag (quick: off only) x {Store.Execute, Store.Request(level strong)} on one live single-node store (table reset to one seed row before every case through a checked transactional request); oracles: with the transaction flag an error result is the last result and the table is unchanged; result list and final table equal those of db.Execute/db.Request on a stand-alone database for the same request; distinct = distinct (path, flags, result list, final table)", maxLen, names))
	ctx := context.Background()

	s, ln := mustNewStore(t)
	defer ln.Close()
	if err := s.Open(); err != nil {
		t.Fatalf("open store: %v", err)
	}
	if err := s.Bootstrap(NewServer(s.ID(), s.Addr(), true)); err != nil {
		t.Fatalf("bootstrap: %v", err)
	}
	defer s.Close(true)
	if _, err := s.WaitForLeader(120 * time.Second); err != nil {
		t.Fatalf("leader: %v", err)
	}
	ref, err := rdb.Open(filepath.Join(kit.Scratch(t), "ref.db"), false, true)
	if err != nil {
		t.Fatalf("open reference database: %v", err)
	}
	defer ref.Close()

	okAll := func(rs []*proto.ExecuteQueryResponse, err error, n int) bool {
		if err != nil || len(rs) != n {
			return false
		}
		for _, x := range rs {
			if c13sErr(x) != "" {
				return false
			}
		}
		return true
	}
	setup := &proto.Request{Transaction: true, Statements: []*proto.Statement{{Sql: c13sSchema}, {Sql: c13sSeed}}}
	rs, _, err := s.Execute(ctx, &proto.ExecuteRequest{Request: pb.Clone(setup).(*proto.Request)})
	if !okAll(rs, err, 2) {
		t.Fatalf("seed store: %v %v", err, rs)
	}
	rs, err = ref.Execute(pb.Clone(setup).(*proto.Request), false)
	if !okAll(rs, err, 2) {
		t.Fatalf("seed reference: %v %v", err, rs)
	}
	reset := &proto.Request{Transaction: true, Statements: []*proto.Statement{{Sql: "DELETE FROM t"}, {Sql: c13sSeed}}}
	storeDump := func() string {
		qr := &proto.QueryRequest{Request: &proto.Request{Statements: []*proto.Statement{{Sql: c13sDumpQ}}}}
		rows, _, _, err := s.Query(ctx, qr)
		if err != nil || len(rows) != 1 || rows[0].GetError() != "" {
			t.Fatalf("dump store: %v %v", err, rows)
		}
		if len(rows[0].GetValues()) == 0 {
			return "[]"
		}
		return asJSON(rows[0].GetValues())
	}
	refDump := func() string {
		rows, err := ref.QueryStringStmt(c13sDumpQ)
		if err != nil || len(rows) != 1 || rows[0].GetError() != "" {
			t.Fatalf("dump reference: %v %v", err, rows)
		}
		if len(rows[0].GetValues()) == 0 {
			return "[]"
		}
		return asJSON(rows[0].GetValues())
	}
	if d := storeDump(); d != c13sInitial {
		t.Fatalf("unexpected seed dump %s", d)
	}

	runCase := func(items []c13sItem, tx, roe bool, path string) {
		rs, _, err := s.Execute(ctx, &proto.ExecuteRequest{Request: pb.Clone(reset).(*proto.Request)})
		if !okAll(rs, err, 2) {
			t.Fatalf("reset store: %v %v", err, rs)
		}
		rs, err = ref.Execute(pb.Clone(reset).(*proto.Request), false)
		if !okAll(rs, err, 2) {
			t.Fatalf("reset reference: %v %v", err, rs)
		}
		req := c13sReq(items, tx, roe)
		var got, want []*proto.ExecuteQueryResponse
		var gerr, werr error
		if path == "execute" {
			got, _, gerr = s.Execute(ctx, &proto.ExecuteRequest{Request: pb.Clone(req).(*proto.Request)})
			want, werr = ref.Execute(pb.Clone(req).(*proto.Request), false)
		} else {
			got, _, _, gerr = s.Request(ctx, &proto.ExecuteQueryRequest{Request: pb.Clone(req).(*proto.Request), Level: proto.ConsistencyLevel_STRONG})
			want, werr = ref.Request(pb.Clone(req).(*proto.Request), false)
		}
		gd, wd := storeDump(), refDump()
		gs, ws := c13sSigs(got), c13sSigs(want)
		r.Eval(1)
		r.Validated(1)
		r.Distinct(fmt.Sprintf("%s|%v|%v|%s|%s|%v", path, tx, roe, strings.Join(gs, ";"), gd, gerr))
		c := c13sCase{Part: "store", Path: path, Tx: tx, Roe: roe, Store: gs, DB: ws, Dump: gd}
		for _, it := range items {
			c.Items = append(c.Items, it.Name)
		}
		bad := func(key, why string) {
			r.Violation(key, fmt.Sprintf("Store %s path, transaction=%v rollback_on_error=%v, statements %v: %s; results %v, final table %s", path, tx, roe, c.Items, why, gs, gd), c)
		}
		if gerr != nil {
			bad("C13:request-level-error:store-"+path, "request returned error "+gerr.Error())
			return
		}
		nonEmpty := 0
		for _, it := range items {
			if it.SQL != "" {
				nonEmpty++
			}
		}
		if len(got) > nonEmpty {
			bad("C13:result-count-mismatch:store-"+path, fmt.Sprintf("%d results for %d non-empty statements", len(got), nonEmpty))
		}
		if tx {
			// results map 1:1 onto the non-empty statements in order (count checked above)
			var ne []c13sItem
			for _, it := range items {
				if it.SQL != "" {
					ne = append(ne, it)
				}
			}
			failed := -1
			for i, x := range got {
				if c13sErr(x) != "" {
					failed = i
					break
				}
			}
			if failed >= 0 {
				if failed != len(got)-1 {
					class := "failing"
					if failed < len(ne) && (ne[failed].class == "unparsable" || ne[failed].class == "unknown-table") {
						class = ne[failed].class
					}
					bad(fmt.Sprintf("C13:tx-continues-after-%s-statement:store-%s", class, path),
						fmt.Sprintf("result %d is an error but %d result(s) follow it", failed, len(got)-1-failed))
				}
				if gd != c13sInitial {
					bad("C13:partial-commit:store-"+path, "a statement of the transaction failed but the table changed")
				}
			} else if len(got) != nonEmpty {
				bad("C13:result-count-mismatch:store-"+path, fmt.Sprintf("%d results for %d non-empty statements, none failed", len(got), nonEmpty))
			}
		}
		if werr != nil || strings.Join(gs, ";") != strings.Join(ws, ";") || gd != wd {
			bad("C13:store-differs-from-db:"+path, fmt.Sprintf("database layer alone gives results %v, final table %s, error %v", ws, wd, werr))
		}
	}

	if raw := kit.Replay(); raw != nil {
		var c c13sCase
		if err := json.Unmarshal(raw, &c); err != nil {
			t.Fatalf("bad replay: %v", err)
		}
		var items []c13sItem
		for _, n := range c.Items {
			for _, it := range c13sMenu {
				if it.Name == n {
					items = append(items, it)
				}
			}
		}
		runCase(items, c.Tx, c.Roe, c.Path)
		return
	}

	seqs := 0
	for l := 1; l <= maxLen; l++ {
		idx := make([]int, l)
		for {
			if r.OverBudget() {
				r.Cap("time budget used up at length %d after %d requests", l, seqs)
				r.State(seqs)
				return
			}
			items := make([]c13sItem, l)
			for i, k := range idx {
				items[i] = c13sMenu[k]
			}
			for _, tx := range []bool{false, true} {
				for _, roe := range roes {
					for _, path := range []string{"execute", "unified"} {
						runCase(items, tx, roe, path)
					}
				}
			}
			r.SampleEvery(seqs, map[string]any{"statements": func() []string {
				var n []string
				for _, it := range items {
					n = append(n, it.Name)
				}
				return n
			}()})
			seqs++
			k := l - 1
			for k >= 0 {
				idx[k]++
				if idx[k] < len(c13sMenu) {
					break
				}
				idx[k] = 0
				k--
			}
			if k < 0 {
				break
			}
		}
	}
	r.State(seqs)
	r.Add("requests", int64(seqs))
}
