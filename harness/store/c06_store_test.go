package store

import (
	"context"
	dsql "database/sql"
	"encoding/binary"
	"encoding/json"
	"errors"
	"fmt"
	"io"
	"log"
	"os"
	"path/filepath"
	"sort"
	"strings"
	"sync"
	"testing"
	"time"

	sql "github.com/rqlite/rqlite/v10/db"
	kit "github.com/rqlite/rqlite/v10/internal/verifkit"
)

// C06, store part: the same property as the db part, through the whole stack - the real
// Store.fsmSnapshot (segment written to the staging directory, Checkpoint, segment
// cancelled on error), the real sink moving staged segments into the snapshot store, the
// real chain resolution and Restore. This file reuses the C04 executor (c04_*).
//
// Engine E-SEQ on a fresh real single-node Store per history. The initial state already
// holds one full snapshot (setup: create table, insert, snapshot). Alphabet:
//
//	w  small write         W  page-heavy write
//	r  reader start: BEGIN + SELECT on a separate read-only connection to the store's
//	   SQLite file (at most 2 readers)
//	s  the oldest reader rolls back        S  the newest reader rolls back
//	P  Store.Snapshot(0): an incremental snapshot whose checkpoint the readers may block
//	   (the store waits 250 ms for them), let through partially, or let through without
//	   truncating the WAL
//
// Oracle in every state:
//   - a snapshot attempt that failed leaves exactly the staged segment files that were
//     there before it (a failed checkpoint never leaves a captured segment behind);
//   - the live database equals the reference model after every operation;
//   - (after the readers are closed) the newest snapshot restored by the real
//     snapshot.Store/Restore equals the model at the moment it was taken, directly and
//     through a second store's sink, and a restart with forced restore + log replay
//     reproduces the live database (the C04 oracle).

const c06sAlphabet = "wWrsSP"

var c06sOpName = map[byte]string{'w': "write", 'W': "big-write", 'r': "reader-start", 's': "stop-oldest-reader",
	'S': "stop-newest-reader", 'P': "snapshot"}

// c06sRecorder wraps the store's Checkpointer to see the outcome of every attempt; it
// passes everything through unchanged.
type c06sRecorder struct {
	inner    Checkpointer
	mu       sync.Mutex
	outcomes []string
}

func (r *c06sRecorder) Checkpoint(w io.Writer, timeout time.Duration) (*sql.CheckpointManagerMeta, int64, error) {
	meta, n, err := r.inner.Checkpoint(w, timeout)
	o := "error"
	switch {
	case err == nil && meta != nil && meta.Code == 0:
		o = "truncated"
	case err == nil:
		o = "allmoved"
	case errors.Is(err, sql.ErrDatabaseCheckpointBusy):
		o = "busy"
	}
	if w == nil {
		o = "full-" + o
	}
	if meta != nil && meta.WALReset {
		o += "+reset"
	}
	r.mu.Lock()
	r.outcomes = append(r.outcomes, o)
	r.mu.Unlock()
	return meta, n, err
}

func (r *c06sRecorder) last(n int) string {
	r.mu.Lock()
	defer r.mu.Unlock()
	o := r.outcomes
	if len(o) > n {
		o = o[len(o)-n:]
	}
	if len(o) == 0 {
		return "none"
	}
	return strings.Join(o, ",")
}

type c06sReader struct {
	db   *dsql.DB
	conn *dsql.Conn
	desc string
}

func c06sWalIndex(dbPath string) (mx, backfill uint32) {
	b, err := os.ReadFile(dbPath + "-shm")
	if err != nil || len(b) < 136 {
		return 0, 0
	}
	return binary.LittleEndian.Uint32(b[16:]), binary.LittleEndian.Uint32(b[96:])
}

func c06sRun(t *testing.T, hist string) (res *c04Result) {
	res = &c04Result{hist: hist}
	c := &c04Exec{t: t, hist: hist, dir: kit.Scratch(t), model: c04Model{"t": {}},
		stale: map[string]string{}, fullReason: "first", res: res, prop: "C06", names: c06sOpName}
	defer os.RemoveAll(c.dir)
	c.s = c04NewStore(filepath.Join(c.dir, "node"))
	c04Must(hist, "open", c.open(true))
	rec := &c06sRecorder{inner: c.s.checkpointer}
	c.s.checkpointer = rec
	c.mech = func() string { return "store:after-checkpoints-" + rec.last(2) }
	var readers []*c06sReader
	stopReader := func(k int) {
		rd := readers[k]
		rd.conn.ExecContext(context.Background(), "ROLLBACK")
		rd.conn.Close()
		rd.db.Close()
		readers = append(readers[:k], readers[k+1:]...)
	}
	defer func() {
		for len(readers) > 0 {
			stopReader(0)
		}
		c.s.Close(true)
		c.s.ly.Close()
		res.obs = strings.Join(c.obs, " ")
		if p := recover(); p != nil {
			if _, ok := p.(c04Stop); !ok {
				panic(p)
			}
		}
	}()
	// setup: one full snapshot exists
	c.setup()
	c.step(-1, 'w')
	if err := c.s.Snapshot(0); err != nil {
		panic(fmt.Sprintf("c06 harness: setup snapshot: %v", err))
	}
	c.obs = nil
	c.afterOp(-1, 'S', nil)

	ctx := context.Background()
	for i := 0; i < len(hist); i++ {
		staged := c.stagedWALs()
		op := hist[i]
		switch op {
		case 'w', 'W':
			c.step(i, op)
		case 'r':
			mx, bf := c06sWalIndex(c.s.dbPath)
			d, err := dsql.Open(sql.DefaultDriver().Name(), sql.MakeDSN(c.s.dbPath, sql.ModeReadOnly, false, true))
			c04Must(hist, "reader open", err)
			conn, err := d.Conn(ctx)
			c04Must(hist, "reader conn", err)
			_, err = conn.ExecContext(ctx, "BEGIN")
			c04Must(hist, "reader begin", err)
			var n int
			c04Must(hist, "reader select", conn.QueryRowContext(ctx, "SELECT count(*) FROM p").Scan(&n))
			desc := fmt.Sprintf("m%d", mx)
			if mx == bf {
				desc = "z"
			}
			readers = append(readers, &c06sReader{db: d, conn: conn, desc: desc})
			c.obs = append(c.obs, "r:"+desc)
		case 's':
			stopReader(0)
			c.obs = append(c.obs, "s")
		case 'S':
			stopReader(len(readers) - 1)
			c.obs = append(c.obs, "S")
		case 'P':
			nAttempts := len(rec.outcomes)
			err := c.s.Snapshot(0)
			cls := c.snapErrClass(err)
			if err != nil && errors.Is(err, sql.ErrDatabaseCheckpointBusy) || err != nil && strings.Contains(err.Error(), "checkpoint busy") {
				cls = "checkpoint-busy"
			}
			out := "no-checkpoint"
			if len(rec.outcomes) > nAttempts {
				out = rec.outcomes[len(rec.outcomes)-1]
			}
			c.obs = append(c.obs, "P="+cls+"/"+out)
			if err != nil && (strings.Contains(out, "busy") || strings.Contains(out, "error")) {
				// the snapshot failed because its checkpoint failed
				after := c.stagedWALs()
				if strings.Join(after, ",") != strings.Join(staged, ",") {
					c.violate("store:segment-left-after-failed-checkpoint", "staging-directory-changed",
						fmt.Sprintf("operation %d: the snapshot failed (%v, checkpoint outcome %s) but the staging directory went from %d to %d segment files", i, err, out, len(staged), len(after)))
					panic(c04Stop{}) // a broken state is reported, not driven further
				}
			}
		}
		res.steps++
		c.afterOp(i, op, staged)
	}
	// state key: the C04 key + WAL structure + readers + the manager's state as far as the
	// outcomes determine it
	var rd []string
	for _, r := range readers {
		rd = append(rd, r.desc)
	}
	sort.Strings(rd)
	mx, bf := c06sWalIndex(c.s.dbPath)
	res.key = c.key() + fmt.Sprintf(" wal=[%s] mx=%d backfill=%d readers=%v lastcheckpoints=%s", c04WALShape(c.s.walPath), mx, bf, rd, rec.last(2))
	for len(readers) > 0 {
		stopReader(0)
	}
	c.checkRestore()
	c.checkRestart()
	return res
}

func c06sEnabled(h string, op byte) bool {
	n := 0
	for i := 0; i < len(h); i++ {
		switch h[i] {
		case 'r':
			n++
		case 's', 'S':
			n--
		}
	}
	switch op {
	case 'r':
		return n < 2
	case 's':
		return n >= 1
	case 'S':
		return n >= 2
	}
	return true
}

// directed histories: the three checkpoint outcomes and what follows them
var c06sDirected = []string{
	"rwPsP",      // reader before the write: partial checkpoint fails, retry after the reader left
	"wrPswP",     // reader at the end of the WAL: all moved, not truncated; reader leaves; next write resets the WAL
	"wrPwsP",     // ... next write is appended behind the captured frames; resume from there
	"wrPwPsP",    // ... and an attempt in between fails
	"WrPsWPwP",   // page-heavy, reset, then a normal one
	"wrPrswPsP",  // second reader reads the database file only (slot 0) while the first leaves: WAL reset under a reader
	"wrPPsP",     // attempt with nothing new while armed
	"wrwPsPwP",   // partial (reader in the middle of the WAL)
	"WrWPswPwP",  // partial with page-heavy writes
	"wrPswrPswP", // two resets in a row
	"wrPwrsPwsP", // all moved but not truncated twice in a row, then an appended write
	"wrPwrsPswP", // ... then a reset
	// a busy attempt after an untruncated one in the same WAL generation, blocked by a later
	// reader (small writes touch a different page each, so a lost transaction shows)
	"wrPwrswPsP",
	"WrPwrswPsP",
	"wrPWrswPsP",
	"wrPwrsWPsP",
	"wrPwwrswPsP",
	"wrPwrswPwPsP",
	"wrPwrswPrswPsP",
	"wrPwrswPswP",
}

func TestVerif_C06_store(t *testing.T) {
	r := kit.Start(t, "C06", "store")
	defer r.Finish()
	log.SetOutput(c04FatalOnly{})
	depth := r.Pick(3, 4)
	workers := 12
	r.Rule(fmt.Sprintf("breadth-first over histories of a fresh real single-node Store that already holds a full snapshot, alphabet {write, big write, reader start, stop oldest/newest reader, snapshot}: every history of length <=%d (equal state keys expanded once) plus every prefix of %d directed histories; in every state a failed snapshot must leave the staging directory as it was, and (readers closed) the newest snapshot restored by the real snapshot store, directly and through a second store's sink, equals the model at its index and a forced-restore restart reproduces the live database", depth, len(c06sDirected)))
	r.Assume("readers are read transactions on separate read-only connections to the store's SQLite file; they start and stop between operations; a blocked checkpoint waits the store's 250 ms")

	if rp := kit.Replay(); rp != nil {
		var v struct {
			History string `json:"history"`
		}
		if err := json.Unmarshal(rp, &v); err != nil {
			t.Fatalf("bad replay: %v", err)
		}
		res := c06sRun(t, v.History)
		t.Logf("history %q outcomes [%s] key [%s] violations %d", res.hist, res.obs, res.key, len(res.violations))
		r.Eval(1)
		r.State(1)
		r.Transition(res.steps)
		for _, vi := range res.violations {
			r.Violation(vi.key, vi.what, map[string]any{"history": res.hist})
		}
		return
	}

	runAll := func(hs []string) []*c04Result {
		out := make([]*c04Result, len(hs))
		var wg sync.WaitGroup
		sem := make(chan struct{}, workers)
		for i, h := range hs {
			wg.Add(1)
			sem <- struct{}{}
			go func(i int, h string) {
				defer wg.Done()
				defer func() { <-sem }()
				out[i] = c06sRun(t, h)
			}(i, h)
		}
		wg.Wait()
		return out
	}
	ran := map[string]bool{}
	nres := 0
	record := func(res *c04Result) {
		ran[res.hist] = true
		r.Eval(1)
		r.Transition(res.steps + 1)
		r.Distinct(res.key + " || " + res.obs)
		c04DumpKey(res)
		r.SampleEvery(nres, map[string]any{"history": res.hist, "outcomes": res.obs, "state_key": res.key, "violations": len(res.violations)})
		nres++
		for _, vi := range res.violations {
			r.Violation(vi.key, vi.what, map[string]any{"history": res.hist})
		}
	}
	seen := map[string]bool{}
	frontier := []string{""}
	root := runAll(frontier)[0]
	record(root)
	seen[root.key] = true
	states := 1
	for d := 1; d <= depth; d++ {
		if r.OverBudget() {
			r.Cap("time budget reached before depth %d (all histories of length <=%d are covered)", d, d-1)
			break
		}
		var hs []string
		for _, h := range frontier {
			for i := 0; i < len(c06sAlphabet); i++ {
				if c06sEnabled(h, c06sAlphabet[i]) {
					hs = append(hs, h+string(c06sAlphabet[i]))
				}
			}
		}
		results := runAll(hs)
		var next []string
		for _, res := range results {
			record(res)
			if len(res.violations) > 0 {
				continue
			}
			if !seen[res.key] {
				seen[res.key] = true
				states++
				next = append(next, res.hist)
			}
		}
		r.Note("depth %d: %d histories run, %d new states", d, len(hs), len(next))
		frontier = next
	}
	for _, d := range c06sDirected {
		for i := 0; i < len(d); i++ {
			if !strings.ContainsRune(c06sAlphabet, rune(d[i])) || !c06sEnabled(d[:i], d[i]) {
				t.Fatalf("c06 harness: directed history %q is not executable at position %d", d, i)
			}
		}
	}
	var dir []string
	for _, h := range c04Prefixes(c06sDirected) {
		if !ran[h] {
			dir = append(dir, h)
		}
	}
	for _, res := range runAll(dir) {
		record(res)
		if !seen[res.key] {
			seen[res.key] = true
			states++
		}
	}
	r.Note("directed: %d further prefixes run", len(dir))
	r.State(states)
}
