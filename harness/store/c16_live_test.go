package store

import (
	"context"
	"encoding/json"
	"errors"
	"fmt"
	"os"
	"strings"
	"sync"
	"sync/atomic"
	"testing"
	"time"

	"github.com/hashicorp/raft"
	"github.com/rqlite/rqlite/v10/command/proto"
	kit "github.com/rqlite/rqlite/v10/internal/verifkit"
)

// C16 part (b) "live": the read consistency levels on a live cluster of real
// Stores: leader + voting follower + non-voter (kit: c02_cluster_test.go and
// vx_roles_test.go). Part (a) (c16_stale_test.go) exhausts the staleness
// DECISION FUNCTION; this part checks the level dispatch around it: which node
// serves which level, that AUTO is WEAK on voters and NONE on non-voters
// including the freshness rules of NONE, which values the Store hands to the
// decision function, and that a linearizable read needs a quorum.
//
// Full product, on every node of the cluster, under every node condition:
//
//	level      NONE, WEAK, STRONG (control), LINEARIZABLE, AUTO
//	API        Store.Query, Store.Request with one read-only statement
//	freshness  0, 500 ms, 1 h          freshness_strict  off, on
//
// Node conditions (set up deterministically, never raced):
//
//	healthy            every node in contact with the leader
//	nonvoter-cut-off   the non-voter partitioned away for longer than the small bound
//	restarted          follower and non-voter crashed, restarted and caught up again (their
//	                   count of received commands starts at 0, below their applied index)
//	behind-prompt      follower and non-voter hold a received command they have not applied
//	                   (the commit index in the AppendEntries they receive is held back through
//	                   rqlite's own receive hook); the last command they applied was applied at once
//	behind-slow        the same, but the last command they applied had been held back for
//	                   longer than the small bound before it was applied (strict refusal)
//	leader-isolated    the leader cut off from both others, inside its lease: it still believes
//	                   it leads (weak/none served, linearizable/strong must NOT be served); the
//	                   others have not heard from it for longer than the small bound
//	leader-deposed     the same partition after the lease ran out: the old leader knows it
//	                   does not lead any more
//	healed             after healing, whoever leads now
//
// Oracle: the documented table (store/DESIGN.md "Consistency levels", the C16
// statement). The expected answer is computed from what the HARNESS knows
// (designed suffrage of the node, network matrix) and from the node's own raft
// state and timestamps read immediately before and after the read:
//
//	WEAK          served iff the node believes it is leader; otherwise ErrNotLeader
//	AUTO          WEAK on a voter, NONE on a non-voter (with NONE's freshness rules)
//	NONE          a node that believes it is leader always serves; any other node decides by
//	              the reference rule of part (a) (c16aRef) applied to the node's real last
//	              contact, FSM update time, appended-at time, FSM index and received-command index
//	LINEARIZABLE  not served by a node that is not leader; not served by a leader that cannot
//	              reach a quorum of voters (error or timeout); served (possibly upgraded to
//	              STRONG) by a leader that believes it leads and can reach a quorum
//	STRONG        as LINEARIZABLE (control)
//
// If the node's state moved during the read so that the bracket [before, after]
// allows both answers, the read is repeated (nothing is concluded from it).
// No wall-clock bound is an oracle; all waits are polls with a 30 s limit.

const (
	c16lSmall   = int64(500 * time.Millisecond)
	c16lLarge   = int64(time.Hour)
	c16lWait    = 30 * time.Second
	c16lKey     = "c16"
	c16lVal     = 16
	c16lLinTO   = 5 * time.Second
	c16lRetries = 40
)

var c16lLevels = []proto.ConsistencyLevel{proto.ConsistencyLevel_NONE, proto.ConsistencyLevel_WEAK, proto.ConsistencyLevel_STRONG, proto.ConsistencyLevel_LINEARIZABLE, proto.ConsistencyLevel_AUTO}
var c16lFresh = []int64{0, c16lSmall, c16lLarge}
var c16lAPIs = []string{"query", "request"}
var c16lVoter = []bool{true, true, false}

type c16lCase struct {
	Job       string `json:"job"`
	Condition string `json:"condition"`
	Role      string `json:"role"`
	Node      int    `json:"node"`
	API       string `json:"api"`
	Level     string `json:"level"`
	Freshness int64  `json:"freshness_ns"`
	Strict    bool   `json:"freshness_strict"`
}

// c16lSnap is what a node says about itself at one instant.
type c16lSnap struct {
	leader bool
	term   uint64
	at     time.Time
	lc     time.Time // raft: last contact from a leader
	fu     time.Time // FSM update time
	aa     time.Time // appended-at time of the last applied entry
	fi     uint64    // FSM index
	ci     uint64    // index of the last command received
}

func c16lSnapOf(s *Store) c16lSnap {
	return c16lSnap{leader: s.raft.State() == raft.Leader, term: s.raft.CurrentTerm(), at: time.Now(), lc: s.raft.LastContact(),
		fu: s.fsmUpdateTime.Load(), aa: s.appendedAtTime.Load(), fi: s.fsmIdx.Load(), ci: s.raftTn.CommandCommitIndex()}
}

func (a c16lSnap) String() string {
	ago := func(t time.Time) string {
		if t.IsZero() {
			return "never"
		}
		return a.at.Sub(t).Round(time.Millisecond).String() + " ago"
	}
	return fmt.Sprintf("leader=%v term=%d last-contact=%s fsm-update=%s appended-at=%s fsm-index=%d received-command-index=%d", a.leader, a.term, ago(a.lc), ago(a.fu), ago(a.aa), a.fi, a.ci)
}

// c16lRead performs one read and classifies the answer.
func c16lRead(s *Store, cs c16lCase, level proto.ConsistencyLevel) (outcome string, err error) {
	sql := fmt.Sprintf("SELECT v FROM kv WHERE k='%s'", c16lKey)
	var rows *proto.QueryRows
	served := level
	if cs.API == "request" {
		eqr := executeQueryRequestFromString(sql, level, false, false, false)
		eqr.Freshness, eqr.FreshnessStrict, eqr.LinearizableTimeout = cs.Freshness, cs.Strict, int64(c16lLinTO)
		res, _, _, e := s.Request(context.Background(), eqr)
		if e != nil {
			return c16lErrClass(e), e
		}
		if len(res) != 1 || res[0].GetQ() == nil {
			return "served-wrong-result", fmt.Errorf("result %v", res)
		}
		rows, served = res[0].GetQ(), eqr.Level
	} else {
		qr := queryRequestFromString(sql, false, false, false)
		qr.Level, qr.Freshness, qr.FreshnessStrict, qr.LinearizableTimeout = level, cs.Freshness, cs.Strict, int64(c16lLinTO)
		rr, lvl, _, e := s.Query(context.Background(), qr)
		if e != nil {
			return c16lErrClass(e), e
		}
		if len(rr) != 1 {
			return "served-wrong-result", fmt.Errorf("result %v", rr)
		}
		rows, served = rr[0], lvl
	}
	if rows.Error != "" || len(rows.Values) != 1 || rows.Values[0].Parameters[0].GetI() != c16lVal {
		return "served-wrong-result", fmt.Errorf("rows %v", rows)
	}
	if level == proto.ConsistencyLevel_LINEARIZABLE && served == proto.ConsistencyLevel_STRONG {
		return "served-upgraded-to-strong", nil
	}
	return "served", nil
}

func c16lErrClass(err error) string {
	switch {
	case errors.Is(err, ErrNotLeader):
		return "ErrNotLeader"
	case errors.Is(err, ErrStaleRead):
		return "ErrStaleRead"
	case errors.Is(err, ErrWaitForFSMTimeout):
		return "ErrWaitForFSMTimeout"
	case errors.Is(err, ErrNotReady):
		return "ErrNotReady"
	case errors.Is(err, raft.ErrLeadershipLost) || strings.Contains(err.Error(), "leadership lost"):
		return "raft-leadership-lost"
	case strings.Contains(err.Error(), "not the leader") || strings.Contains(err.Error(), "not leader"):
		return "raft-not-leader"
	case strings.Contains(err.Error(), "timed out enqueuing"):
		return "raft-enqueue-timeout"
	}
	return "other-error"
}

// c16lExpect returns what the documented table demands: "serve", "not-leader"
// (refused with ErrNotLeader), "stale" (refused with ErrStaleRead), "no-serve"
// (any error), or "" when the bracket [pre, post] does not decide it.
func c16lExpect(level proto.ConsistencyLevel, voter, quorum bool, pre, post c16lSnap, fresh int64, strict bool) (want, why string) {
	resolved := level
	if level == proto.ConsistencyLevel_AUTO {
		resolved = proto.ConsistencyLevel_WEAK
		if !voter {
			resolved = proto.ConsistencyLevel_NONE
		}
	}
	lead := pre.leader && post.leader && pre.term == post.term
	notLead := !pre.leader && !post.leader && pre.term == post.term
	switch resolved {
	case proto.ConsistencyLevel_WEAK:
		switch {
		case lead:
			return "serve", "believes-it-leads"
		case notLead:
			return "not-leader", "does-not-believe-it-leads"
		}
		return "", ""
	case proto.ConsistencyLevel_NONE:
		if lead {
			return "serve", "leader-never-stale"
		}
		if !notLead {
			return "", ""
		}
		if pre.fu != post.fu || pre.aa != post.aa || pre.fi != post.fi || pre.ci != post.ci {
			return "", ""
		}
		// least and greatest possible age of the last leader contact during the read
		v0, w0 := c16aRef(pre.at, post.lc, pre.fu, pre.aa, pre.fi, pre.ci, fresh, strict)
		v1, w1 := c16aRef(post.at, pre.lc, pre.fu, pre.aa, pre.fi, pre.ci, fresh, strict)
		if v0 != v1 || w0 != w1 {
			return "", ""
		}
		if v0 == c16aRefuse {
			return "stale", w0
		}
		return "serve", w0
	default: // LINEARIZABLE, STRONG
		switch {
		case !quorum:
			return "no-serve", "cannot-reach-a-quorum"
		case notLead:
			return "no-serve", "does-not-believe-it-leads"
		case lead:
			return "serve", "leads-and-reaches-a-quorum"
		}
		return "", ""
	}
}

// c16lClass names the class of a disagreement.
func c16lClass(level proto.ConsistencyLevel, voter bool, want, why, outcome string) string {
	served := strings.HasPrefix(outcome, "served") && outcome != "served-wrong-result"
	if outcome == "served-wrong-result" {
		return "served-wrong-result"
	}
	lv := strings.ToLower(level.String())
	switch level {
	case proto.ConsistencyLevel_AUTO:
		if voter {
			if served {
				return "auto-on-voter-served-by-non-leader"
			}
			if want == "serve" {
				return "auto-on-voter-refused-on-leader"
			}
			return "auto-on-voter-non-leader-wrong-error"
		}
		if served {
			return "auto-on-nonvoter-ignores-freshness"
		}
		if want == "serve" {
			return "auto-on-nonvoter-refused-although-fresh:" + why
		}
		return "auto-on-nonvoter-wrong-error"
	case proto.ConsistencyLevel_WEAK:
		if served {
			return "weak-served-by-non-leader"
		}
		if want == "serve" {
			return "weak-refused-on-leader"
		}
		return "weak-on-non-leader-wrong-error"
	case proto.ConsistencyLevel_NONE:
		if served {
			return "none-served-although-stale:" + why
		}
		if want == "serve" && why == "leader-never-stale" {
			return "none-refused-on-leader"
		}
		if want == "serve" {
			return "none-refused-although-fresh:" + why
		}
		return "none-stale-wrong-error"
	default:
		if served && why == "cannot-reach-a-quorum" {
			return lv + "-served-without-quorum"
		}
		if served {
			return lv + "-served-by-non-leader"
		}
		return lv + "-fails-on-healthy-leader"
	}
}

type c16lRun struct {
	t      *testing.T
	r      *kit.Run
	c      *vcCluster
	job    string
	filter *c16lCase
	n      atomic.Int64
	undec  atomic.Int64
	mu     sync.Mutex
	clamp  [3]atomic.Uint64 // commit index the node is allowed to learn (0 = no limit)
	fresh  [3]bool          // the condition keeps this node in contact with the leader: read only while the contact is recent
	held   [3]bool          // the condition holds this node's commit index back
	known  [3]atomic.Uint64 // index of the last command the node received, as watched by the harness (0 = ask the Store)
}

func (x *c16lRun) fail(f string, a ...any) {
	var ci []string
	for i, n := range x.c.nodes {
		if s := n.store(); s != nil {
			ci = append(ci, fmt.Sprintf("n%d: received-command-index %d, last contact %v ago", i, s.raftTn.CommandCommitIndex(), x.since(i).Round(time.Millisecond)))
			if os.Getenv("VERIF_C16_DEBUG") != "" {
				li := s.raft.LastIndex()
				for k := li - 14; k <= li; k++ {
					var le raft.Log
					if err := s.raftLog.GetLog(k, &le); err == nil {
						ci = append(ci, fmt.Sprintf("%d:%s/t%d", k, le.Type, le.Term))
					}
				}
			}
		}
	}
	panic(fmt.Sprintf("harness: job %s: %s [%s; %s]", x.job, fmt.Sprintf(f, a...), x.c.describe(), strings.Join(ci, "; ")))
}

func (x *c16lRun) poll(what string, ok func() bool) {
	deadline := time.Now().Add(c16lWait)
	for !ok() {
		if time.Now().After(deadline) {
			x.fail("waited %v for: %s", c16lWait, what)
		}
		time.Sleep(2 * time.Millisecond)
	}
}

func (x *c16lRun) quorum(i int) bool {
	nv, reach := 0, 0
	for j, v := range c16lVoter {
		if !v {
			continue
		}
		nv++
		if j == i || (x.c.Up(j) && x.c.net.Connected(i, j)) {
			reach++
		}
	}
	return c16lVoter[i] && reach > nv/2
}

// roles: the node that believes it leads when the condition starts is "leader",
// the other voter "follower".
func (x *c16lRun) roles() (names [3]string, leader int) {
	leader = x.c.Leader()
	if leader < 0 {
		x.fail("no leader when a condition starts")
	}
	for i, v := range c16lVoter {
		switch {
		case !v:
			names[i] = "non-voter"
		case i == leader:
			names[i] = "leader"
		default:
			names[i] = "follower"
		}
	}
	return
}

func (x *c16lRun) wants(cs c16lCase) bool {
	f := x.filter
	return f == nil || (f.Condition == cs.Condition && f.Role == cs.Role && f.API == cs.API && f.Level == cs.Level && f.Freshness == cs.Freshness && f.Strict == cs.Strict)
}

// one evaluates one case (repeating it while the node's state moved under the read).
func (x *c16lRun) one(cs c16lCase, level proto.ConsistencyLevel) {
	s := x.c.nodes[cs.Node].store()
	if s == nil {
		x.fail("node %d is down", cs.Node)
	}
	for try := 0; ; try++ {
		quorum := x.quorum(cs.Node)
		if x.fresh[cs.Node] && s.raft.State() != raft.Leader {
			// contact is renewed every 50-100 ms; start the read right after one
			x.poll("recent contact from the leader", func() bool { return x.since(cs.Node) < time.Duration(c16lSmall)/2 })
		}
		pre := c16lSnapOf(s)
		outcome, err := c16lRead(s, cs, level)
		post := c16lSnapOf(s)
		if k := x.known[cs.Node].Load(); k > 0 {
			// the harness watched the requests itself: "behind" is judged by what the node received
			pre.ci, post.ci = k, k
		}
		if err == nil && (level == proto.ConsistencyLevel_STRONG || level == proto.ConsistencyLevel_LINEARIZABLE) {
			x.afterLogRead(cs.Node)
		}
		want, why := c16lExpect(level, c16lVoter[cs.Node], quorum, pre, post, cs.Freshness, cs.Strict)
		if want == "" {
			if try < c16lRetries {
				time.Sleep(5 * time.Millisecond)
				continue
			}
			x.undec.Add(1)
			x.r.Distinct(fmt.Sprintf("%s|%s|%s|%s|undecided", cs.Condition, cs.Role, cs.Level, cs.API))
			return
		}
		x.n.Add(1)
		x.r.Eval(1)
		served := strings.HasPrefix(outcome, "served") && outcome != "served-wrong-result"
		ok := false
		switch want {
		case "serve":
			ok = served
		case "not-leader":
			ok = outcome == "ErrNotLeader"
		case "stale":
			ok = outcome == "ErrStaleRead"
		case "no-serve":
			ok = !served && outcome != "served-wrong-result"
		}
		fr := map[int64]string{0: "0", c16lSmall: "small", c16lLarge: "large"}[cs.Freshness]
		// "caught up" and "applied index ahead of the received-command index" are one situation
		// for the evidence: which of the two a node is in after a leader change is not controlled
		dwhy := strings.NewReplacer("strict:caught-up", "strict:not-behind", "strict:fsm-index-ahead-of-known-commit-index", "strict:not-behind").Replace(why)
		x.r.Distinct(fmt.Sprintf("%s|%s|%s|%s|f=%s|strict=%v|want=%s(%s)|got=%s", cs.Condition, cs.Role, cs.Level, cs.API, fr, cs.Strict, want, dwhy, outcome))
		if k := x.n.Load(); k%389 == 1 {
			x.r.Sample(map[string]any{"case": cs, "node_before": pre.String(), "documented": want + " (" + why + ")", "answer": outcome})
		}
		if !ok {
			cls := c16lClass(level, c16lVoter[cs.Node], want, why, outcome)
			x.r.Violation("C16:live:"+cls+":"+cs.API,
				fmt.Sprintf("condition %s, %s (node %d, %s), Store.%s level %s freshness %v strict %v: answer %s (%v), documented: %s because %s; node before: %s; after: %s; can reach a quorum of voters: %v",
					cs.Condition, cs.Role, cs.Node, map[bool]string{true: "voter", false: "non-voter"}[c16lVoter[cs.Node]], map[string]string{"query": "Query", "request": "Request"}[cs.API],
					cs.Level, time.Duration(cs.Freshness), cs.Strict, outcome, err, want, why, pre, post, quorum), cs)
		}
		return
	}
}

// afterLogRead: a strong read served by node l went through the log. Before the
// next case, every node in contact has received that entry, and has applied it
// unless the condition holds its commit index back - so that the state the next
// reads find does not depend on how fast replication happened to be.
func (x *c16lRun) afterLogRead(l int) {
	ls := x.c.nodes[l].store()
	if ls == nil || ls.raft.State() != raft.Leader {
		return
	}
	li, last := ls.fsmIdx.Load(), ls.raft.LastIndex()
	// (the node's count of received commands is not used here: a late AppendEntries of a
	// deposed leader's term sets it back, see the note in the test function)
	x.poll("the strong read's log entry reached every node in contact", func() bool {
		for j := range x.c.nodes {
			s := x.c.nodes[j].store()
			if j == l || s == nil || !x.c.net.Connected(l, j) {
				continue
			}
			if s.raft.LastIndex() < last || (!x.held[j] && s.fsmIdx.Load() < li) {
				return false
			}
		}
		return true
	})
}

// product runs every case of the product on the given nodes; levels selects the levels (nil = all).
func (x *c16lRun) product(cond string, names [3]string, nodes []int, levels []proto.ConsistencyLevel, async *sync.WaitGroup) {
	if levels == nil {
		levels = c16lLevels
	}
	for _, i := range nodes {
		for _, api := range c16lAPIs {
			for _, lvl := range levels {
				for _, f := range c16lFresh {
					for _, st := range []bool{false, true} {
						cs := c16lCase{Job: x.job, Condition: cond, Role: names[i], Node: i, API: api, Level: lvl.String(), Freshness: f, Strict: st}
						if !x.wants(cs) {
							continue
						}
						if async != nil {
							async.Add(1)
							go func(cs c16lCase, lvl proto.ConsistencyLevel) {
								defer async.Done()
								defer x.recoverTo()
								x.one(cs, lvl)
							}(cs, lvl)
						} else {
							x.one(cs, lvl)
						}
					}
				}
			}
		}
	}
}

var c16lPanics sync.Map

func (x *c16lRun) recoverTo() {
	if p := recover(); p != nil {
		c16lPanics.Store(fmt.Sprint(p), true)
	}
}

func (x *c16lRun) since(i int) time.Duration {
	s := x.c.nodes[i].store()
	lc := s.raft.LastContact()
	if lc.IsZero() {
		return time.Duration(1 << 62)
	}
	return time.Since(lc)
}

func (x *c16lRun) write(key string, val int) uint64 {
	l := x.c.Leader()
	res := x.c.Write(l, key, val, vcAPIQuery, false)
	if res.Err != nil {
		x.fail("write %s through n%d: %v", key, l, res.Err)
	}
	return res.Index
}

func (x *c16lRun) caughtUp(nodes ...int) {
	x.poll("nodes caught up with the leader and in contact", func() bool {
		l := x.c.Leader()
		if l < 0 {
			return false
		}
		li := x.c.nodes[l].store().fsmIdx.Load()
		for _, i := range nodes {
			if i == l {
				continue
			}
			s := x.c.nodes[i].store()
			if s == nil || s.fsmIdx.Load() != li || x.since(i) > time.Duration(c16lSmall)/2 {
				return false
			}
		}
		return true
	})
}

func (x *c16lRun) installClamp(i int) {
	s := x.c.nodes[i].store()
	lim := &x.clamp[i]
	s.raftTn.SetAppendEntriesRxHandler(func(req *raft.AppendEntriesRequest) error {
		if m := lim.Load(); m > 0 && req.LeaderCommitIndex > m {
			req.LeaderCommitIndex = m
		}
		return nil
	})
}

func (x *c16lRun) healthy(cond string) {
	names, _ := x.roles()
	x.caughtUp(0, 1, 2)
	x.fresh = [3]bool{true, true, true}
	x.product(cond, names, []int{0, 1, 2}, nil, nil)
}

func (x *c16lRun) jobA() {
	c := x.c
	x.healthy("healthy")

	// the non-voter alone is cut off
	names, _ := x.roles()
	c.net.Isolate(2)
	x.fresh[2] = false
	x.poll("non-voter out of contact for longer than the small bound", func() bool { return x.since(2) > time.Duration(c16lSmall)*3/2 })
	x.product("nonvoter-cut-off", names, []int{0, 1, 2}, nil, nil)
	c.net.Heal()
	x.fresh[2] = true
	x.caughtUp(0, 1, 2)

	// follower and non-voter restarted
	l := c.Leader()
	for i := range c.nodes {
		if i != l {
			if err := c.CrashRestart(i); err != nil {
				x.fail("restart n%d: %v", i, err)
			}
		}
	}
	x.caughtUp(0, 1, 2)
	names, _ = x.roles()
	// the restarted nodes first: the leader's strong reads are commands, and the first
	// command a restarted node receives ends the state this condition is about
	var order []int
	for i := range c.nodes {
		if i != l {
			order = append(order, i)
			if got := c.nodes[i].store().raftTn.CommandCommitIndex(); got != 0 {
				x.fail("restarted n%d has already received command %d", i, got)
			}
		}
	}
	x.product("restarted", names, append(order, l), nil, nil)

	// behind: the others receive commands but are not told that they are committed
	var others []int
	for i := range c.nodes {
		if i != l {
			others = append(others, i)
			x.installClamp(i)
		}
	}
	k := x.write("c16-a", 1) // applied promptly everywhere
	x.caughtUp(others...)
	for _, i := range others {
		x.clamp[i].Store(k)
		x.held[i] = true
	}
	k1 := x.write("c16-b", 1)
	received := func(idx uint64) func() bool {
		return func() bool {
			for _, i := range others {
				if c.nodes[i].store().raftTn.CommandCommitIndex() < idx {
					return false
				}
			}
			return true
		}
	}
	x.poll("follower and non-voter received the held-back command", received(k1))
	heldSince := time.Now()
	for _, i := range others {
		if got := c.nodes[i].store().fsmIdx.Load(); got != k {
			x.fail("n%d applied index %d while its commit index is held at %d", i, got, k)
		}
	}
	names, _ = x.roles()
	x.product("behind-prompt", names, []int{0, 1, 2}, nil, nil)

	// let them apply k1 only now, more than the small bound after it was appended, and hold k2
	x.poll("held-back command older than the small bound", func() bool { return time.Since(heldSince) > time.Duration(c16lSmall)*3/2 })
	for _, i := range others {
		x.clamp[i].Store(k1)
	}
	x.poll("held-back command applied", func() bool {
		for _, i := range others {
			if c.nodes[i].store().fsmIdx.Load() != k1 {
				return false
			}
		}
		return true
	})
	k2 := x.write("c16-c", 1)
	x.poll("follower and non-voter received the second held-back command", received(k2))
	x.product("behind-slow", names, []int{0, 1, 2}, nil, nil)
	for _, i := range others {
		if got := c.nodes[i].store().fsmIdx.Load(); got != k1 {
			x.fail("n%d applied index %d while its commit index is held at %d", i, got, k1)
		}
		x.clamp[i].Store(0)
		x.held[i] = false
	}
	x.caughtUp(others...)
}

func (x *c16lRun) jobB() {
	c := x.c
	x.healthy("healthy")
	names, l := x.roles()
	var others []int
	for i := range c.nodes {
		if i != l {
			others = append(others, i)
		}
	}
	isolatedAt := time.Now()
	c.net.Isolate(l)
	x.fresh = [3]bool{}
	// nothing sent before the partition is still on its way; the others are out of contact
	time.Sleep(time.Second)
	x.poll("the others out of contact for longer than the small bound", func() bool {
		return x.since(others[0]) > time.Duration(c16lSmall)*3/2 && x.since(others[1]) > time.Duration(c16lSmall)*3/2
	})
	if lead, _ := vxBelievesLeader(c, l); !lead {
		x.fail("the isolated leader gave up before its lease ran out")
	}
	// reads that need a quorum block until the lease runs out: all at once
	var blocked sync.WaitGroup
	x.product("leader-isolated", names, []int{l}, []proto.ConsistencyLevel{proto.ConsistencyLevel_STRONG, proto.ConsistencyLevel_LINEARIZABLE}, &blocked)
	x.product("leader-isolated", names, []int{l}, []proto.ConsistencyLevel{proto.ConsistencyLevel_NONE, proto.ConsistencyLevel_WEAK, proto.ConsistencyLevel_AUTO}, nil)
	x.product("leader-isolated", names, others, nil, nil)
	x.poll("the isolated leader gives up", func() bool { lead, _ := vxBelievesLeader(c, l); return !lead })
	done := make(chan struct{})
	go func() { blocked.Wait(); close(done) }()
	select {
	case <-done:
	case <-time.After(2 * c16lWait):
		x.fail("reads on the isolated leader still blocked %v after it gave up", 2*c16lWait)
	}
	deposedAt := time.Now()
	x.product("leader-deposed", names, []int{0, 1, 2}, nil, nil)

	// The deposed leader's replication goroutines of its old term are still asleep in
	// their retry backoff (raft: each sleep is at most as long as all earlier ones
	// together, i.e. at most as long as the partition has lasted). Each wakes up once
	// more and sends one last AppendEntries of the old term. Heal only after that: a
	// late message of the old term arriving in the middle of the next term's first
	// leader verification costs the new leader its leadership (seen while building this
	// part: "peer has newer term" / "new leader elected, stepping down", then 5 s without
	// a leader) - legitimate asynchrony, but not what the "healed" condition is about.
	x.poll("old-term retries of the deposed leader have run out", func() bool { return time.Since(deposedAt) > deposedAt.Sub(isolatedAt)+time.Second })
	if os.Getenv("VERIF_C16_DEBUG") != "" {
		for i := range c.nodes {
			i := i
			c.nodes[i].store().raftTn.SetAppendEntriesRxHandler(func(req *raft.AppendEntriesRequest) error {
				if len(req.Entries) > 0 {
					fmt.Printf("DEBUG %s n%d rx AE term %d prev %d entries %d..%d commit %d\n", time.Now().Format("15:04:05.000"), i, req.Term, req.PrevLogEntry, req.Entries[0].Index, req.Entries[len(req.Entries)-1].Index, req.LeaderCommitIndex)
				}
				return nil
			})
		}
	}
	c.net.Heal()
	if _, err := vxSettle(c, c16lVoter, c16lWait); err != nil {
		x.fail("after healing: %v", err)
	}
	nl := c.Leader()
	if res := c.Read(nl, c16lKey, proto.ConsistencyLevel_STRONG, vcAPIQuery, false); res.Err != nil {
		x.fail("strong read on the leader after healing: %v", res.Err)
	}
	x.healthy("healed")
}

func c16lJob(t *testing.T, r *kit.Run, job string, rotate bool, filter *c16lCase) (err error) {
	defer func() {
		if p := recover(); p != nil {
			err = fmt.Errorf("%v", p)
		}
	}()
	c, err := vxNewCluster(vcOpts{CommitTimeout: 50 * time.Millisecond}, c16lVoter)
	if err != nil {
		return fmt.Errorf("harness: cluster: %w", err)
	}
	defer vxClose(c)
	x := &c16lRun{t: t, r: r, c: c, job: job, filter: filter}
	if rotate {
		// the other voter leads
		term := c.Term(0)
		if err := c.Stepdown(0, 1); err != nil {
			return fmt.Errorf("harness: leadership transfer: %w", err)
		}
		// the old leader keeps leading until it hears of the new term
		if _, err := c.WaitLeader(nil, term, c16lWait); err != nil {
			return err
		}
		if _, err := vxSettle(c, c16lVoter, c16lWait); err != nil {
			return err
		}
		if c.Leader() != 1 {
			return fmt.Errorf("harness: leadership transfer did not make n1 the leader")
		}
		if res := c.Read(1, "-", proto.ConsistencyLevel_STRONG, vcAPIQuery, false); res.Err != nil {
			return fmt.Errorf("harness: strong read after the transfer: %w", res.Err)
		}
	}
	x.write(c16lKey, c16lVal)
	switch job[0] {
	case 'A':
		x.jobA()
	case 'B':
		x.jobB()
	case 'M':
		x.jobM()
	case 'L':
		x.jobL()
	default:
		x.jobW()
	}
	if n := x.undec.Load(); n > 0 {
		r.Cap("job %s: %d reads could not be decided (node state kept moving under the read)", job, n)
	}
	return nil
}

func TestVerif_C16_live(t *testing.T) {
	r := kit.Start(t, "C16", "live")
	defer r.Finish()
	if os.Getenv("VERIF_DEBUG") == "" {
		if f, err := os.OpenFile(os.DevNull, os.O_WRONLY, 0); err == nil {
			os.Stderr = f
		}
	}
	r.Rule("on live clusters of real Stores (leader + voting follower + non-voter): full product of level {NONE, WEAK, STRONG, LINEARIZABLE, AUTO} x node {leader, follower, non-voter} x API {Store.Query, Store.Request with a read-only statement} x freshness {0, 500ms, 1h} x freshness_strict {off, on}, under each node condition {healthy; non-voter cut off longer than the small bound; follower and non-voter restarted and caught up; follower and non-voter holding a received but unapplied command, last applied promptly; the same with the last applied command held back longer than the small bound; leader isolated inside its lease; the same after the lease ran out; healed}. Every answer is compared with the documented table evaluated on the node's own raft state and timestamps read before and after the read. Job W (c16_wiring_test.go): on a follower and a non-voter in contact / cut off longer than the small bound, and on the leader, every combination of FSM update time {now-1s, now-2h} x appended-at time {never, now-1.1s, now-3s, now-5h, now-90min} x FSM index {5,7,9} x received-command index {5,7,9} x freshness x strict is stored into the node's real fields and the real Store.isStaleRead is compared with the reference rule of part (a). Job M (c16_batch_test.go): follower and non-voter cut off while three writes wait in the leader's log, healed after more than the small bound so that each receives the three commands in ONE AppendEntries request, commit index held at the first: the Store's received-command index must be the last command's index, and the full product of reads on both nodes is judged with the index the harness watched (strict + small bound refused, controls served). Job L: after a strong read in the leader's term a slow write is sent to the leader; once raft's commit index covers it and it is still being applied, a LINEARIZABLE read of its row through each API (60 s timeout) must return the row; missed windows are counted, not judged. thorough: the same with the other voter leading, jobs A, B, M and L twice. evaluations = reads judged + grid points; distinct = (condition, role, level, API, freshness, strict, documented answer and reason, answer)")
	r.Add("slow_write_windows_hit", 0)
	r.Add("slow_write_windows_missed", 0)
	r.Assume("interleavings inside hashicorp/raft are uncontrolled; conditions are reached by deterministic set-up (partition, then poll the node's own last-contact age; commit index held back through rqlite's AppendEntries receive hook) and every expectation is computed from the node's state read immediately before and after the read; a read whose bracket allows both answers is repeated")
	r.Assume("all raft timeouts are 5 s (kit default): an isolated leader keeps believing for 5 s, followers do not start elections during a condition; the non-voter never stands for election")
	r.Note("observed while building this part (not a C16 violation): NodeTransport's received-command index is stored from every AppendEntries request before raft validates it, so a late request of a deposed leader's term sets it back below the node's applied index; IsStaleRead treats 'applied index ahead' as not behind, so no read is affected.")
	r.Note("live part: requests are sent to the Store of each node directly (no HTTP layer, no forwarding: a refusal with ErrNotLeader is the documented answer that the HTTP layer turns into a redirect/forward).")

	type job struct {
		name   string
		rotate bool
	}
	jobs := []job{{"A", false}, {"B", false}, {"W", false}, {"M", false}, {"L", false}}
	if r.Thorough() {
		jobs = []job{{"A", false}, {"B", false}, {"W", false}, {"M", false}, {"L", false}, {"M-rotated", true}, {"L-rotated", true}, {"M-2", false}, {"L-2", false}, {"A-rotated", true}, {"B-rotated", true}, {"W-rotated", true}, {"A-2", false}, {"B-2", false}, {"A-rotated-2", true}, {"B-rotated-2", true}}
	}
	if js := os.Getenv("VERIF_C16_JOBS"); js != "" {
		// development aid: VERIF_C16_JOBS="B B-rotated" runs just these jobs
		jobs = nil
		for _, n := range strings.Fields(js) {
			jobs = append(jobs, job{n, strings.Contains(n, "rotated")})
		}
	}
	var filter *c16lCase
	if rp := kit.Replay(); rp != nil {
		filter = &c16lCase{}
		if err := json.Unmarshal(rp, filter); err != nil || filter.Job == "" {
			t.Fatalf("harness: bad replay: %v", err)
		}
		jobs = nil
		for i := 0; i < 3; i++ {
			jobs = append(jobs, job{filter.Job, strings.Contains(filter.Job, "rotated")})
		}
		if filter.Job[0] == 'W' {
			filter = nil // the wiring grid is cheap: the whole job is repeated
		}
	}
	var wg sync.WaitGroup
	var nIncomplete atomic.Int64
	for _, j := range jobs {
		wg.Add(1)
		go func(j job) {
			defer wg.Done()
			var err error
			for attempt := 0; attempt < 2; attempt++ {
				if err = c16lJob(t, r, j.name, j.rotate, filter); err == nil {
					return
				}
				t.Logf("job %s attempt %d: %v", j.name, attempt, err)
			}
			// a condition could not be set up: no verdict for what this job did not reach, not a failure
			r.Cap("job %s could not be completed in two attempts (its remaining conditions were not judged): %v", j.name, err)
			nIncomplete.Add(1)
		}(j)
	}
	wg.Wait()
	c16lPanics.Range(func(k, _ any) bool {
		r.Cap("a read running beside a condition could not be judged: %v", k)
		return true
	})
	r.Set("jobs_not_completed", nIncomplete.Load())
	if int(nIncomplete.Load()) == len(jobs) {
		t.Fatalf("harness: no job at all could be completed")
	}
}
