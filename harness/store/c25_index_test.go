package store

import (
	"bytes"
	"context"
	"encoding/json"
	"fmt"
	"os"
	"path/filepath"
	"regexp"
	"sort"
	"strings"
	"sync"
	"testing"
	"time"

	"github.com/hashicorp/raft"
	"github.com/rqlite/rqlite/v10/command"
	"github.com/rqlite/rqlite/v10/command/proto"
	sql "github.com/rqlite/rqlite/v10/db"
	kit "github.com/rqlite/rqlite/v10/internal/verifkit"
	"github.com/rqlite/rqlite/v10/snapshot"
)

// C25 part (a) "index": on a real single-node Store with CDC enabled, every
// request of 1..3 statements over a 10-statement menu x transaction flag x
// entry point (Execute / Request) x table filter {none, ^t$}. Every committed
// row change (before/after table images, by rowid) must be delivered in an
// event group labelled with the Raft index of the log entry of that request;
// no group may carry index 0 or another entry's index; indexes never decrease.
//
// All identifiers are prefixed c25a (part (b), cdc.Service, lives elsewhere).

var c25aMenu = []struct{ Name, SQL string }{
	{"insA", "INSERT INTO t(v) VALUES('a')"},                // fails (UNIQUE) the 2nd time in a request
	{"insBC", "INSERT INTO t(v) VALUES('b'),('c')"},         // multi-row
	{"upd1", "UPDATE t SET v=v||'!' WHERE id=1"},            // one row
	{"updNone", "UPDATE t SET v='zz' WHERE id=99"},          // zero rows
	{"del2", "DELETE FROM t WHERE id=2"},                    // one row, zero rows the 2nd time
	{"failMid", "INSERT INTO t(v) VALUES('f'),('f')"},       // fails after changing a row
	{"badTable", "INSERT INTO nosuch(v) VALUES(1)"},         // fails at prepare
	{"ddl", "CREATE TABLE IF NOT EXISTS u (x)"},             // commits, no row change
	{"sel", "SELECT COUNT(*) FROM t"},                       // read
	{"insO", "INSERT INTO o(v) VALUES('o')"},                // other table (outside the filter ^t$)
}

var c25aReset = []string{
	"DELETE FROM t",
	"DELETE FROM o",
	"DROP TABLE IF EXISTS u",
	"INSERT INTO t(id,v) VALUES(1,'x'),(2,'y')",
}

type c25aCase struct {
	Stmts  []int  `json:"stmts"`
	Names  []string `json:"names"`
	Tx     bool   `json:"tx"`
	Entry  string `json:"entry"`
	Filter string `json:"filter"`

	// sections "filter" and "install" (empty Section = the request enumeration above)
	Section string `json:"section,omitempty"`
	Trigger string `json:"trigger,omitempty"` // filter: what (re-)registers the hooks before the judged steps: fresh | load | boot
	First   string `json:"first,omitempty"`   // table hit by the first change after the first registration
	First2  string `json:"first2,omitempty"`  // table hit by the first change after the re-registration
	Rounds  int    `json:"rounds,omitempty"`  // install: number of snapshot installs
	Lead    bool   `json:"lead,omitempty"`    // install: finally the follower is made leader and written through
}

type c25aNode struct {
	s       *Store
	ch      chan *proto.CDCIndexedEventGroup
	filter  string
	re      *regexp.Regexp
	lastIdx uint64 // highest non-zero group index seen so far (order check)
	name    string // node name in the multi-node section
	seq     int    // makes inserted values unique
}

func c25aNewNode(t *testing.T, filter string) *c25aNode {
	s, ln := mustNewStore(t)
	t.Cleanup(func() { ln.Close() })
	if err := s.Open(); err != nil {
		t.Fatalf("open: %v", err)
	}
	if err := s.Bootstrap(NewServer(s.ID(), s.Addr(), true)); err != nil {
		t.Fatalf("bootstrap: %v", err)
	}
	if _, err := s.WaitForLeader(120 * time.Second); err != nil {
		t.Fatalf("leader: %v", err)
	}
	n := &c25aNode{s: s, ch: make(chan *proto.CDCIndexedEventGroup, 4096), filter: filter}
	if filter != "" {
		n.re = regexp.MustCompile(filter)
	}
	for _, q := range []string{
		"CREATE TABLE t (id INTEGER PRIMARY KEY, v TEXT UNIQUE)",
		"CREATE TABLE o (id INTEGER PRIMARY KEY, v TEXT)",
	} {
		res, _, err := s.Execute(context.Background(), executeRequestFromString(q, false, false))
		if err != nil || res[0].GetError() != "" {
			t.Fatalf("schema: %v %v", err, res)
		}
	}
	if err := s.EnableCDC(n.ch, n.re, false); err != nil {
		t.Fatalf("EnableCDC: %v", err)
	}
	return n
}

func (n *c25aNode) drain() []*proto.CDCIndexedEventGroup {
	var out []*proto.CDCIndexedEventGroup
	for {
		select {
		case g := <-n.ch:
			out = append(out, g)
		default:
			return out
		}
	}
}

// image returns table -> rowid -> value, read with a NONE-level local query.
func (n *c25aNode) image() map[string]map[int64]string {
	out := map[string]map[int64]string{}
	for _, tb := range []string{"t", "o"} {
		rows, err := n.s.db.QueryStringStmt("SELECT id, v FROM " + tb + " ORDER BY id")
		if err != nil || len(rows) != 1 || rows[0].Error != "" {
			panic(fmt.Sprintf("C25a harness: image query failed: %v %v", err, rows))
		}
		m := map[int64]string{}
		for _, v := range rows[0].Values {
			m[v.Parameters[0].GetI()] = v.Parameters[1].GetS()
		}
		out[tb] = m
	}
	return out
}

// logEntryStatements decodes the Raft log entry at idx and returns its SQL.
func (n *c25aNode) logEntryStatements(idx uint64) ([]string, bool, error) {
	var l raft.Log
	if err := n.s.raftLog.GetLog(idx, &l); err != nil {
		return nil, false, err
	}
	if l.Type != raft.LogCommand {
		return nil, false, fmt.Errorf("entry %d has type %v", idx, l.Type)
	}
	var c proto.Command
	if err := command.Unmarshal(l.Data, &c); err != nil {
		return nil, false, err
	}
	var req *proto.Request
	switch c.Type {
	case proto.Command_COMMAND_TYPE_EXECUTE:
		var er proto.ExecuteRequest
		if err := command.UnmarshalSubCommand(&c, &er); err != nil {
			return nil, false, err
		}
		req = er.Request
	case proto.Command_COMMAND_TYPE_EXECUTE_QUERY:
		var eqr proto.ExecuteQueryRequest
		if err := command.UnmarshalSubCommand(&c, &eqr); err != nil {
			return nil, false, err
		}
		req = eqr.Request
	default:
		return nil, false, fmt.Errorf("entry %d has command type %v", idx, c.Type)
	}
	var out []string
	for _, s := range req.Statements {
		out = append(out, s.Sql)
	}
	return out, req.Transaction, nil
}

type c25aDiffItem struct {
	table string
	id    int64
	kind  string
}

func c25aDiff(before, after map[string]map[int64]string) []c25aDiffItem {
	var out []c25aDiffItem
	for _, tb := range []string{"t", "o"} {
		ids := map[int64]bool{}
		for id := range before[tb] {
			ids[id] = true
		}
		for id := range after[tb] {
			ids[id] = true
		}
		var sorted []int64
		for id := range ids {
			sorted = append(sorted, id)
		}
		sort.Slice(sorted, func(i, j int) bool { return sorted[i] < sorted[j] })
		for _, id := range sorted {
			b, inB := before[tb][id]
			a, inA := after[tb][id]
			switch {
			case inB && !inA:
				out = append(out, c25aDiffItem{tb, id, "deleted"})
			case !inB && inA:
				out = append(out, c25aDiffItem{tb, id, "inserted"})
			case a != b:
				out = append(out, c25aDiffItem{tb, id, "updated"})
			}
		}
	}
	return out
}

func c25aCovers(g *proto.CDCIndexedEventGroup, d c25aDiffItem) bool {
	for _, ev := range g.Events {
		if ev.Table != d.table {
			continue
		}
		switch d.kind {
		case "inserted":
			if (ev.Op == proto.CDCEvent_INSERT || ev.Op == proto.CDCEvent_UPDATE) && ev.NewRowId == d.id {
				return true
			}
		case "deleted":
			if (ev.Op == proto.CDCEvent_DELETE || ev.Op == proto.CDCEvent_UPDATE) && ev.OldRowId == d.id {
				return true
			}
		case "updated":
			if ev.NewRowId == d.id || ev.OldRowId == d.id {
				return true
			}
		}
	}
	return false
}

func (n *c25aNode) run(r *kit.Run, c c25aCase) {
	ctx := context.Background()
	desc := fmt.Sprintf("%v tx=%v entry=%s filter=%q", c.Names, c.Tx, c.Entry, c.Filter)
	mode := "non-tx"
	if c.Tx {
		mode = "tx"
	}

	// Reset the tables with one transactional request; its own group is judged too.
	res, ridx, err := n.s.Execute(ctx, executeRequestFromStrings(c25aReset, false, true))
	if err != nil {
		panic(fmt.Sprintf("C25a harness: reset failed: %v", err))
	}
	for _, x := range res {
		if x.GetError() != "" {
			panic("C25a harness: reset failed: " + x.GetError())
		}
	}
	for _, g := range n.drain() {
		n.judgeIndex(r, g, ridx, 0, "tx", "reset request before "+desc, c)
	}

	before := n.image()
	var sqls []string
	for _, i := range c.Stmts {
		sqls = append(sqls, c25aMenu[i].SQL)
	}
	var idx uint64
	if c.Entry == "Execute" {
		_, idx, err = n.s.Execute(ctx, executeRequestFromStrings(sqls, false, c.Tx))
	} else {
		_, _, idx, err = n.s.Request(ctx, executeQueryRequestFromStrings(sqls, proto.ConsistencyLevel_WEAK, false, c.Tx, false))
	}
	groups := n.drain()
	after := n.image()
	r.Eval(1)
	if err != nil {
		// request-level errors (e.g. a failed tx commit) are not expected with this menu
		r.Violation("C25:request-error", desc+": "+err.Error(), c)
		return
	}
	diff := c25aDiff(before, after)

	if idx == 0 {
		// no log entry (read-only request served locally): nothing may change, nothing may be delivered
		if len(diff) != 0 || len(groups) != 0 {
			r.Violation("C25:change-without-log-entry", fmt.Sprintf("%s: no log index returned, diff=%v groups=%d", desc, diff, len(groups)), c)
		}
		r.Distinct("no-entry")
		return
	}
	// Ground truth for "the index of that log entry": the entry stored in the Raft log at idx is this request.
	got, gtx, lerr := n.logEntryStatements(idx)
	if lerr != nil || gtx != c.Tx || strings.Join(got, "\x00") != strings.Join(sqls, "\x00") {
		r.Violation("C25:returned-index-is-not-the-requests-log-entry", fmt.Sprintf("%s: index %d holds %v tx=%v err=%v", desc, idx, got, gtx, lerr), c)
		return
	}
	r.Validated(1)

	var shape []string
	for gi, g := range groups {
		n.judgeIndex(r, g, idx, gi, mode, desc, c)
		lbl := "other"
		switch g.Index {
		case idx:
			lbl = "entry"
		case 0:
			lbl = "zero"
		}
		shape = append(shape, fmt.Sprintf("%s:%d", lbl, len(g.Events)))
	}
	r.Distinct(mode + " " + strings.Join(shape, ","))
	n.judgeOutside(r, groups, desc, "", c)

	for _, d := range diff {
		if n.re != nil && !n.re.MatchString(d.table) {
			continue // outside the filter: not owed
		}
		right, wrong := false, false
		for _, g := range groups {
			if c25aCovers(g, d) {
				if g.Index == idx {
					right = true
				} else {
					wrong = true
				}
			}
		}
		switch {
		case right:
		case wrong:
			// reported by judgeIndex under the index class; the change is there but mislabelled
			r.Add("changes_delivered_only_under_wrong_index", 1)
		default:
			r.Violation("C25:committed-change-not-delivered:"+mode, fmt.Sprintf("%s: %s row %d of %s (entry %d) is in no delivered group", desc, d.kind, d.id, d.table, idx), c)
		}
	}
}

func (n *c25aNode) judgeIndex(r c25aRec, g *proto.CDCIndexedEventGroup, idx uint64, pos int, mode, desc string, c any) {
	where := "first-commit"
	if pos > 0 {
		where = "later-commit"
	}
	where += "-of-" + mode + "-request"
	switch {
	case g.Index == 0:
		r.Violation("C25:group-index-zero:"+where, fmt.Sprintf("%s: group #%d of the request (log entry %d) with %d events is labelled index 0", desc, pos, idx, len(g.Events)), c)
		return
	case g.Index != idx:
		r.Violation("C25:group-index-of-another-entry:"+where, fmt.Sprintf("%s: group #%d of the request (log entry %d) is labelled index %d", desc, pos, idx, g.Index), c)
	}
	if g.Index < n.lastIdx {
		r.Violation("C25:group-index-decreases", fmt.Sprintf("%s: group index %d delivered after %d", desc, g.Index, n.lastIdx), c)
	}
	if g.Index > n.lastIdx {
		n.lastIdx = g.Index
	}
}

// ---------------------------------------------------------------------------
// Sections "filter" and "install": hook (re-)registration.
//
// The Store registers the pre-update and commit hooks lazily, in fsmApply, and
// must register them again whenever the SQLite connection was replaced (Load,
// Boot, a Raft snapshot installed into the running node). The table filter is
// evaluated inside the pre-update hook and memoised per registration. Both are
// upstream of every delivery: a node whose hooks are gone, or whose filter memo
// is wrong, hands over nothing (or the wrong tables) for the entries it applies.
//
// filter:  single node x filter {none, ^t$} x first change after the first
//          registration on {t, o} x re-registration by {none, Load, Boot} x
//          first change after the re-registration on {t, o}; after each
//          (re-)registration a fixed sequence of requests that alternates
//          between the two tables (single, non-transactional pair,
//          transactional pair, update+delete) is judged request by request.
// install: three voters (the cluster kit), CDC enabled on every node; a follower
//          is cut off, the leader writes and snapshots with one trailing log,
//          the link is healed and raft installs the snapshot into the running
//          follower; then requests go through the leader and EVERY node that
//          applies them must hand over the groups (right index, right rows,
//          nothing outside the filter) - delivery is the leader's job, but a node
//          that hands over nothing can never deliver once it leads. Optionally a
//          second install and a leadership transfer to that follower.
// Oracle as above, plus: no event of a table the filter excludes.

// c25aRec is what the judging functions need of a kit.Run; the install section
// records into a buffer first, so that an attempt which raft timing kept from
// getting there (and which is repeated on a fresh cluster) is not counted twice.
type c25aRec interface {
	Eval(n int)
	Distinct(key string)
	Violation(key, what string, replay any)
	Add(k string, n int64)
}

type c25aBuf struct {
	all, vios []func(r *kit.Run)
}

func (b *c25aBuf) Eval(n int)          { b.all = append(b.all, func(r *kit.Run) { r.Eval(n) }) }
func (b *c25aBuf) Distinct(key string) { b.all = append(b.all, func(r *kit.Run) { r.Distinct(key) }) }
func (b *c25aBuf) Add(k string, n int64) {
	b.all = append(b.all, func(r *kit.Run) { r.Add(k, n) })
}
func (b *c25aBuf) Violation(key, what string, replay any) {
	f := func(r *kit.Run) { r.Violation(key, what, replay) }
	b.all = append(b.all, f)
	b.vios = append(b.vios, f)
}

// flush records everything of a completed attempt, or only the violations of an abandoned one.
func (b *c25aBuf) flush(r *kit.Run, completed bool) {
	ops := b.vios
	if completed {
		ops = b.all
	}
	for _, f := range ops {
		f(r)
	}
}

// judgeOutside: nothing of a table outside the filter may be handed over.
func (n *c25aNode) judgeOutside(r c25aRec, groups []*proto.CDCIndexedEventGroup, desc, ctx string, replay any) {
	if n.re == nil {
		return
	}
	for _, g := range groups {
		for _, ev := range g.Events {
			if !n.re.MatchString(ev.Table) {
				r.Violation("C25:event-from-table-outside-filter"+ctx, fmt.Sprintf("%s: a group labelled %d carries a %v of table %s, which the filter %q excludes", desc, g.Index, ev.Op, ev.Table, n.filter), replay)
				return
			}
		}
	}
}

// judgeEntry judges what node n handed over for log entry idx, whose committed row changes are diff.
func (n *c25aNode) judgeEntry(r c25aRec, groups []*proto.CDCIndexedEventGroup, idx uint64, diff []c25aDiffItem, mode, desc, ctx string, replay any) {
	r.Eval(1)
	var shape []string
	for gi, g := range groups {
		n.judgeIndex(r, g, idx, gi, mode, desc, replay)
		lbl := "other"
		switch g.Index {
		case idx:
			lbl = "entry"
		case 0:
			lbl = "zero"
		}
		shape = append(shape, fmt.Sprintf("%s:%d", lbl, len(g.Events)))
	}
	r.Distinct(fmt.Sprintf("%s filter=%q %s %s", ctx, n.filter, mode, strings.Join(shape, ",")))
	n.judgeOutside(r, groups, desc, ctx, replay)
	for _, d := range diff {
		if n.re != nil && !n.re.MatchString(d.table) {
			continue
		}
		right, wrong := false, false
		for _, g := range groups {
			if c25aCovers(g, d) {
				if g.Index == idx {
					right = true
				} else {
					wrong = true
				}
			}
		}
		switch {
		case right:
		case wrong:
			r.Add("changes_delivered_only_under_wrong_index", 1)
		default:
			r.Violation("C25:committed-change-not-delivered:"+mode+ctx, fmt.Sprintf("%s: %s row %d of %s (entry %d) is in no group handed over", desc, d.kind, d.id, d.table, idx), replay)
		}
	}
}

type c25aStep struct {
	sqls []string
	tx   bool
}

// c25aSteps: a request sequence whose first row change hits table `first`.
func c25aSteps(first string, seq *int) []c25aStep {
	*seq++
	k := *seq
	ins := func(tb string, j int) string {
		return fmt.Sprintf("INSERT INTO %s(v) VALUES('%s%d_%d')", tb, tb, k, j)
	}
	x, y := "t", "o"
	if first == "o" {
		x, y = "o", "t"
	}
	return []c25aStep{
		{[]string{ins(x, 1)}, false},
		{[]string{ins(y, 2)}, false},
		{[]string{ins(y, 3), ins(x, 4)}, false},
		{[]string{ins(x, 5), ins(y, 6)}, true},
		{[]string{"UPDATE t SET v=v||'!' WHERE id=(SELECT min(id) FROM t)", "DELETE FROM o WHERE id=(SELECT min(id) FROM o)"}, false},
		{[]string{ins(x, 7), ins(x, 8)}, false},
	}
}

func c25aStepMode(st c25aStep) string {
	if st.tx {
		return "tx"
	}
	return "non-tx"
}

// c25aLoadFile is a SQLite file with the tables t and o (for Load and Boot).
func c25aLoadFile(dir string) []byte {
	p := filepath.Join(dir, "c25a-load.db")
	os.Remove(p)
	d, err := sql.Open(p, false, false)
	if err != nil {
		panic(err)
	}
	for _, q := range []string{
		"CREATE TABLE t (id INTEGER PRIMARY KEY, v TEXT UNIQUE)",
		"CREATE TABLE o (id INTEGER PRIMARY KEY, v TEXT)",
		"INSERT INTO t(id,v) VALUES(1,'L1'),(2,'L2')",
		"INSERT INTO o(id,v) VALUES(1,'LO1'),(2,'LO2')",
	} {
		if res, err := d.ExecuteStringStmt(q); err != nil || res[0].GetError() != "" {
			panic(fmt.Sprintf("C25a harness: %s: %v %v", q, err, res))
		}
	}
	if err := d.Close(); err != nil {
		panic(err)
	}
	b, err := os.ReadFile(p)
	if err != nil {
		panic(err)
	}
	os.Remove(p)
	return b
}

func c25aExecOK(s *Store, st c25aStep) (uint64, error) {
	res, idx, err := s.Execute(context.Background(), executeRequestFromStrings(st.sqls, false, st.tx))
	if err != nil {
		return 0, err
	}
	for _, x := range res {
		if x.GetError() != "" {
			return 0, fmt.Errorf("statement error: %s", x.GetError())
		}
	}
	return idx, nil
}

// c25aFilterScenario runs one single-node case of section "filter".
func c25aFilterScenario(t *testing.T, r *kit.Run, c c25aCase, file []byte) {
	n := c25aNewNode(t, c.Filter)
	defer n.s.Close(true)
	runSteps := func(first, ctx string) {
		for i, st := range c25aSteps(first, &n.seq) {
			desc := fmt.Sprintf("filter=%q first-registration-then-%s, first change on %s/%s, %s, step %d %v", c.Filter, c.Trigger, c.First, c.First2, ctx, i+1, st.sqls)
			before := n.image()
			idx, err := c25aExecOK(n.s, st)
			if err != nil {
				r.Violation("C25:request-error"+ctx, desc+": "+err.Error(), c)
				return
			}
			groups := n.drain()
			n.judgeEntry(r, groups, idx, c25aDiff(before, n.image()), c25aStepMode(st), desc, ctx, c)
		}
	}
	runSteps(c.First, ":after-first-registration")
	switch c.Trigger {
	case "load":
		if err := n.s.Load(context.Background(), &proto.LoadRequest{Data: file}); err != nil {
			panic("C25a harness: load: " + err.Error())
		}
	case "boot":
		if _, err := n.s.ReadFrom(bytes.NewReader(file)); err != nil {
			panic("C25a harness: boot: " + err.Error())
		}
	default:
		return
	}
	for _, g := range n.drain() { // replacing the database commits no row change of a log entry
		r.Add("groups_handed_over_by_load_or_boot", int64(len(g.Events)))
	}
	runSteps(c.First2, ":after-"+c.Trigger)
}

func c25aFilterCases() []c25aCase {
	var cs []c25aCase
	for _, f := range []string{"", "^t$"} {
		for _, first := range []string{"t", "o"} {
			cs = append(cs, c25aCase{Section: "filter", Filter: f, Trigger: "fresh", First: first})
			for _, tr := range []string{"load", "boot"} {
				for _, first2 := range []string{"t", "o"} {
					cs = append(cs, c25aCase{Section: "filter", Filter: f, Trigger: tr, First: first, First2: first2})
				}
			}
		}
	}
	return cs
}

func c25aInstallCases(thorough bool) []c25aCase {
	var cs []c25aCase
	for _, f := range []string{"", "^t$"} {
		for _, first2 := range []string{"t", "o"} {
			if !thorough {
				cs = append(cs, c25aCase{Section: "install", Filter: f, First: "t", First2: first2, Rounds: 1, Lead: first2 == "o"})
				continue
			}
			for _, first := range []string{"t", "o"} {
				for _, rounds := range []int{1, 2} {
					cs = append(cs, c25aCase{Section: "install", Filter: f, First: first, First2: first2, Rounds: rounds, Lead: true})
				}
			}
		}
	}
	return cs
}

// c25aInstallScenario runs one case of section "install". It returns "" when the
// scenario was carried out, else why the cluster could not be brought there
// (machinery, not a verdict).
func c25aInstallScenario(t *testing.T, run *kit.Run, c c25aCase) (why string) {
	r := &c25aBuf{}
	defer func() { r.flush(run, why == "") }()
	cl, err := vcNewCluster(vcOpts{N: 3})
	if err != nil {
		return "cluster start: " + err.Error()
	}
	defer cl.Close()
	leader := cl.Leader()
	if leader < 0 {
		return "no leader"
	}
	if _, err := c25aExecOK(cl.nodes[leader].store(), c25aStep{sqls: []string{
		"CREATE TABLE t (id INTEGER PRIMARY KEY, v TEXT UNIQUE)",
		"CREATE TABLE o (id INTEGER PRIMARY KEY, v TEXT)"}}); err != nil {
		return "schema: " + err.Error()
	}
	nodes := make([]*c25aNode, len(cl.nodes))
	for i, vn := range cl.nodes {
		n := &c25aNode{s: vn.store(), ch: make(chan *proto.CDCIndexedEventGroup, 4096), filter: c.Filter, name: vn.id}
		if c.Filter != "" {
			n.re = regexp.MustCompile(c.Filter)
		}
		if err := n.s.EnableCDC(n.ch, n.re, false); err != nil {
			return "EnableCDC: " + err.Error()
		}
		nodes[i] = n
	}
	follower := len(cl.nodes) - 1
	if follower == leader {
		follower--
	}
	seq := 0
	waitApplied := func(i int, idx uint64) bool {
		dl := time.Now().Add(60 * time.Second)
		for nodes[i].s.fsmIdx.Load() < idx {
			if time.Now().After(dl) {
				return false
			}
			time.Sleep(2 * time.Millisecond)
		}
		return true
	}
	// runSteps sends the requests through the current leader and judges every node in `on`
	runSteps := func(first, ctx string, on []int) string {
		for i, st := range c25aSteps(first, &seq) {
			ld := nodes[leader]
			before := ld.image()
			idx, err := c25aExecOK(ld.s, st)
			if err != nil {
				return fmt.Sprintf("%s step %d through %s: %v", ctx, i+1, ld.name, err)
			}
			diff := c25aDiff(before, ld.image())
			for _, j := range on {
				role := "follower"
				if j == leader {
					role = "leader"
				}
				if j == follower {
					role += " (the node the snapshot is installed into)"
				}
				desc := fmt.Sprintf("filter=%q first changes on %s/%s, %d install(s), %s, step %d %v applied as entry %d on node %s, %s", c.Filter, c.First, c.First2, c.Rounds, ctx, i+1, st.sqls, idx, nodes[j].name, role)
				if !waitApplied(j, idx) {
					return fmt.Sprintf("%s: node %s did not apply entry %d within 60 s", ctx, nodes[j].name, idx)
				}
				nodes[j].judgeEntry(r, nodes[j].drain(), idx, diff, c25aStepMode(st), desc, ctx, c)
			}
		}
		return ""
	}
	all := []int{0, 1, 2}
	var others []int
	for _, j := range all {
		if j != follower {
			others = append(others, j)
		}
	}
	if why := runSteps(c.First, ":before-snapshot-install", all); why != "" {
		return why
	}
	firsts := []string{c.First2, c.First} // the first change after the 2nd install hits the other table
	for round := 0; round < c.Rounds; round++ {
		cl.net.Isolate(follower)
		if why := runSteps(firsts[(round+1)%2], ":before-snapshot-install", others); why != "" {
			cl.net.Heal()
			return why
		}
		ls := nodes[leader].s
		if err := ls.Snapshot(1); err != nil {
			cl.net.Heal()
			return "leader snapshot: " + err.Error()
		}
		snapIdx, _, err := ls.snapshotStore.(*snapshot.Store).LatestIndexTerm()
		if err != nil {
			cl.net.Heal()
			return "leader snapshot index: " + err.Error()
		}
		cl.net.Heal()
		cl.FreshenConns(all)
		fs := nodes[follower].s
		dl := time.Now().Add(90 * time.Second)
		for {
			li, _, err := fs.snapshotStore.(*snapshot.Store).LatestIndexTerm()
			if err == nil && li >= snapIdx && fs.fsmIdx.Load() >= snapIdx {
				break
			}
			if time.Now().After(dl) {
				return fmt.Sprintf("node %s did not install the leader's snapshot (index %d) within 90 s", nodes[follower].name, snapIdx)
			}
			time.Sleep(5 * time.Millisecond)
		}
		if l, err := cl.Settle(60 * time.Second); err != nil {
			return "settle after heal: " + err.Error()
		} else {
			leader = l
		}
		nodes[follower].drain() // entries covered by the snapshot are not applied one by one on this node
		r.Add("snapshot_installs_into_running_follower", 1)
		if why := runSteps(firsts[round%2], ":after-snapshot-install", all); why != "" {
			return why
		}
	}
	if c.Lead && leader != follower {
		var terr error
		for try := 0; try < 5 && leader != follower; try++ {
			// raft refuses or abandons a transfer while the target is not caught up or a
			// heartbeat is in flight: ask again
			terr = cl.Stepdown(leader, follower)
			cl.WaitLeader([]int{follower}, 0, 3*time.Second)
			l, err := cl.Settle(60 * time.Second)
			if err != nil {
				return "settle after transfer: " + err.Error()
			}
			leader = l
		}
		if leader != follower {
			return fmt.Sprintf("leadership did not go to the follower in 5 transfers (leader is node %d, last error %v)", leader, terr)
		}
		r.Add("leadership_transfers_to_that_follower", 1)
		if why := runSteps(c.First2, ":after-snapshot-install", all); why != "" {
			return why
		}
	}
	return ""
}


func TestVerif_C25_index(t *testing.T) {
	r := kit.Start(t, "C25", "index")
	defer r.Finish()
	maxLen := 3
	r.Rule(fmt.Sprintf("every request of 1..%d statements over a menu of %d (single-row insert that fails on repetition, multi-row insert, update one row, update no row, delete one row, multi-row insert failing after its first row, statement failing at prepare, DDL, SELECT, insert into a table outside the filter) x transaction flag x entry point {Store.Execute, Store.Request} x CDC table filter {none, ^t$}, each applied as one Raft log entry on a live single-node Store after a reset entry; distinct = (tx, per-group label entry/zero/other and event count) shapes", maxLen, len(c25aMenu)))
	r.Assume("a row change is 'committed by the entry' iff the table image (by rowid) read from the store's database differs before/after the request; changes that cancel out inside one request are not demanded")
	r.Assume("CDC hand-off channel never full (capacity 4096, drained after every request)")
	r.Assume("section install: row changes of an entry are read off the leader's database before/after the request; the entries a cut-off follower receives inside an installed snapshot are not applied one by one there and no groups are demanded for them on that node")

	var cases []c25aCase
	var gen func(prefix []int, n int)
	gen = func(prefix []int, n int) {
		if len(prefix) == n {
			for _, tx := range []bool{false, true} {
				for _, en := range []string{"Execute", "Request"} {
					c := c25aCase{Stmts: append([]int(nil), prefix...), Tx: tx, Entry: en}
					for _, i := range prefix {
						c.Names = append(c.Names, c25aMenu[i].Name)
					}
					cases = append(cases, c)
				}
			}
			return
		}
		for i := range c25aMenu {
			gen(append(prefix, i), n)
		}
	}
	for n := 1; n <= maxLen; n++ {
		gen(nil, n)
	}

	if raw := kit.Replay(); raw != nil {
		var c c25aCase
		if err := json.Unmarshal(raw, &c); err != nil {
			t.Fatal(err)
		}
		switch c.Section {
		case "filter":
			c25aFilterScenario(t, r, c, c25aLoadFile(kit.Scratch(t)))
		case "install":
			if why := c25aInstallScenario(t, r, c); why != "" {
				t.Fatalf("install scenario not carried out: %s", why)
			}
		default:
			n := c25aNewNode(t, c.Filter)
			defer n.s.Close(true)
			n.run(r, c)
		}
		return
	}

	filters := []string{"", "^t$"}
	perFilter := 8
	var wg sync.WaitGroup
	for _, f := range filters {
		for w := 0; w < perFilter; w++ {
			n := c25aNewNode(t, f)
			wg.Add(1)
			go func(n *c25aNode, w int) {
				defer wg.Done()
				defer n.s.Close(true)
				for i := w; i < len(cases); i += perFilter {
					c := cases[i]
					c.Filter = n.filter
					n.run(r, c)
					r.SampleEvery(i, c)
				}
			}(n, w)
		}
	}
	wg.Wait()
	r.Set("requests_per_filter", int64(len(cases)))

	// section "filter"
	file := c25aLoadFile(kit.Scratch(t))
	fcases := c25aFilterCases()
	sem := make(chan struct{}, 8)
	for _, c := range fcases {
		wg.Add(1)
		sem <- struct{}{}
		go func(c c25aCase) {
			defer wg.Done()
			defer func() { <-sem }()
			c25aFilterScenario(t, r, c, file)
		}(c)
	}
	wg.Wait()
	r.Set("filter_section_scenarios", int64(len(fcases)))

	// section "install"
	icases := c25aInstallCases(r.Thorough())
	isem := make(chan struct{}, 4)
	var imu sync.Mutex
	carried := 0
	for _, c := range icases {
		wg.Add(1)
		isem <- struct{}{}
		go func(c c25aCase) {
			defer wg.Done()
			defer func() { <-isem }()
			var why string
			for try := 0; try < 3; try++ { // raft timing can keep a cluster from getting there: try again on a fresh one
				if why = c25aInstallScenario(t, r, c); why == "" {
					break
				}
				r.Add("install_scenarios_restarted", 1)
			}
			imu.Lock()
			defer imu.Unlock()
			if why == "" {
				carried++
			} else {
				r.Cap("install scenario %+v not carried out after 3 attempts: %s", c, why)
			}
		}(c)
	}
	wg.Wait()
	r.Set("install_section_scenarios", int64(len(icases)))
	r.Set("install_section_scenarios_carried_out", int64(carried))
}
