package store

import (
	"context"
	"encoding/json"
	"fmt"
	"regexp"
	"sort"
	"strings"
	"sync"
	"testing"
	"time"

	"github.com/hashicorp/raft"
	"github.com/rqlite/rqlite/v10/command"
	"github.com/rqlite/rqlite/v10/command/proto"
	kit "github.com/rqlite/rqlite/v10/internal/verifkit"
)

// C25 part (a) "index": on a real single-node Store with CDC enabled, every
// request of 1..3 statements over a 10-statement menu x transaction flag x
// entry point (Execute / Request) x table filter {none, ^t$}. Every committed
// row change (before/after table images, by rowid) must be delivered in an
// event group labelled with the Raft index of the log entry of that request;
// no group may carry index 0 or another entry's index; indexes never decrease.
//
// All identifiers are prefixed c25a (part (b), cdc.Service, lives elsewhere).

var c25aMenu = []struct{ Name, SQL string }{
	{"insA", "INSERT INTO t(v) VALUES('a')"},                // fails (UNIQUE) the 2nd time in a request
	{"insBC", "INSERT INTO t(v) VALUES('b'),('c')"},         // multi-row
	{"upd1", "UPDATE t SET v=v||'!' WHERE id=1"},            // one row
	{"updNone", "UPDATE t SET v='zz' WHERE id=99"},          // zero rows
	{"del2", "DELETE FROM t WHERE id=2"},                    // one row, zero rows the 2nd time
	{"failMid", "INSERT INTO t(v) VALUES('f'),('f')"},       // fails after changing a row
	{"badTable", "INSERT INTO nosuch(v) VALUES(1)"},         // fails at prepare
	{"ddl", "CREATE TABLE IF NOT EXISTS u (x)"},             // commits, no row change
	{"sel", "SELECT COUNT(*) FROM t"},                       // read
	{"insO", "INSERT INTO o(v) VALUES('o')"},                // other table (outside the filter ^t$)
}

var c25aReset = []string{
	"DELETE FROM t",
	"DELETE FROM o",
	"DROP TABLE IF EXISTS u",
	"INSERT INTO t(id,v) VALUES(1,'x'),(2,'y')",
}

type c25aCase struct {
	Stmts  []int  `json:"stmts"`
	Names  []string `json:"names"`
	Tx     bool   `json:"tx"`
	Entry  string `json:"entry"`
	Filter string `json:"filter"`
}

type c25aNode struct {
	s       *Store
	ch      chan *proto.CDCIndexedEventGroup
	filter  string
	re      *regexp.Regexp
	lastIdx uint64 // highest non-zero group index seen so far (order check)
}

func c25aNewNode(t *testing.T, filter string) *c25aNode {
	s, ln := mustNewStore(t)
	t.Cleanup(func() { ln.Close() })
	if err := s.Open(); err != nil {
		t.Fatalf("open: %v", err)
	}
	if err := s.Bootstrap(NewServer(s.ID(), s.Addr(), true)); err != nil {
		t.Fatalf("bootstrap: %v", err)
	}
	if _, err := s.WaitForLeader(10 * time.Second); err != nil {
		t.Fatalf("leader: %v", err)
	}
	n := &c25aNode{s: s, ch: make(chan *proto.CDCIndexedEventGroup, 4096), filter: filter}
	if filter != "" {
		n.re = regexp.MustCompile(filter)
	}
	for _, q := range []string{
		"CREATE TABLE t (id INTEGER PRIMARY KEY, v TEXT UNIQUE)",
		"CREATE TABLE o (id INTEGER PRIMARY KEY, v TEXT)",
	} {
		res, _, err := s.Execute(context.Background(), executeRequestFromString(q, false, false))
		if err != nil || res[0].GetError() != "" {
			t.Fatalf("schema: %v %v", err, res)
		}
	}
	if err := s.EnableCDC(n.ch, n.re, false); err != nil {
		t.Fatalf("EnableCDC: %v", err)
	}
	return n
}

func (n *c25aNode) drain() []*proto.CDCIndexedEventGroup {
	var out []*proto.CDCIndexedEventGroup
	for {
		select {
		case g := <-n.ch:
			out = append(out, g)
		default:
			return out
		}
	}
}

// image returns table -> rowid -> value, read with a NONE-level local query.
func (n *c25aNode) image() map[string]map[int64]string {
	out := map[string]map[int64]string{}
	for _, tb := range []string{"t", "o"} {
		rows, err := n.s.db.QueryStringStmt("SELECT id, v FROM " + tb + " ORDER BY id")
		if err != nil || len(rows) != 1 || rows[0].Error != "" {
			panic(fmt.Sprintf("C25a harness: image query failed: %v %v", err, rows))
		}
		m := map[int64]string{}
		for _, v := range rows[0].Values {
			m[v.Parameters[0].GetI()] = v.Parameters[1].GetS()
		}
		out[tb] = m
	}
	return out
}

// logEntryStatements decodes the Raft log entry at idx and returns its SQL.
func (n *c25aNode) logEntryStatements(idx uint64) ([]string, bool, error) {
	var l raft.Log
	if err := n.s.raftLog.GetLog(idx, &l); err != nil {
		return nil, false, err
	}
	if l.Type != raft.LogCommand {
		return nil, false, fmt.Errorf("entry %d has type %v", idx, l.Type)
	}
	var c proto.Command
	if err := command.Unmarshal(l.Data, &c); err != nil {
		return nil, false, err
	}
	var req *proto.Request
	switch c.Type {
	case proto.Command_COMMAND_TYPE_EXECUTE:
		var er proto.ExecuteRequest
		if err := command.UnmarshalSubCommand(&c, &er); err != nil {
			return nil, false, err
		}
		req = er.Request
	case proto.Command_COMMAND_TYPE_EXECUTE_QUERY:
		var eqr proto.ExecuteQueryRequest
		if err := command.UnmarshalSubCommand(&c, &eqr); err != nil {
			return nil, false, err
		}
		req = eqr.Request
	default:
		return nil, false, fmt.Errorf("entry %d has command type %v", idx, c.Type)
	}
	var out []string
	for _, s := range req.Statements {
		out = append(out, s.Sql)
	}
	return out, req.Transaction, nil
}

type c25aDiffItem struct {
	table string
	id    int64
	kind  string
}

func c25aDiff(before, after map[string]map[int64]string) []c25aDiffItem {
	var out []c25aDiffItem
	for _, tb := range []string{"t", "o"} {
		ids := map[int64]bool{}
		for id := range before[tb] {
			ids[id] = true
		}
		for id := range after[tb] {
			ids[id] = true
		}
		var sorted []int64
		for id := range ids {
			sorted = append(sorted, id)
		}
		sort.Slice(sorted, func(i, j int) bool { return sorted[i] < sorted[j] })
		for _, id := range sorted {
			b, inB := before[tb][id]
			a, inA := after[tb][id]
			switch {
			case inB && !inA:
				out = append(out, c25aDiffItem{tb, id, "deleted"})
			case !inB && inA:
				out = append(out, c25aDiffItem{tb, id, "inserted"})
			case a != b:
				out = append(out, c25aDiffItem{tb, id, "updated"})
			}
		}
	}
	return out
}

func c25aCovers(g *proto.CDCIndexedEventGroup, d c25aDiffItem) bool {
	for _, ev := range g.Events {
		if ev.Table != d.table {
			continue
		}
		switch d.kind {
		case "inserted":
			if (ev.Op == proto.CDCEvent_INSERT || ev.Op == proto.CDCEvent_UPDATE) && ev.NewRowId == d.id {
				return true
			}
		case "deleted":
			if (ev.Op == proto.CDCEvent_DELETE || ev.Op == proto.CDCEvent_UPDATE) && ev.OldRowId == d.id {
				return true
			}
		case "updated":
			if ev.NewRowId == d.id || ev.OldRowId == d.id {
				return true
			}
		}
	}
	return false
}

func (n *c25aNode) run(r *kit.Run, c c25aCase) {
	ctx := context.Background()
	desc := fmt.Sprintf("%v tx=%v entry=%s filter=%q", c.Names, c.Tx, c.Entry, c.Filter)
	mode := "non-tx"
	if c.Tx {
		mode = "tx"
	}

	// Reset the tables with one transactional request; its own group is judged too.
	res, ridx, err := n.s.Execute(ctx, executeRequestFromStrings(c25aReset, false, true))
	if err != nil {
		panic(fmt.Sprintf("C25a harness: reset failed: %v", err))
	}
	for _, x := range res {
		if x.GetError() != "" {
			panic("C25a harness: reset failed: " + x.GetError())
		}
	}
	for _, g := range n.drain() {
		n.judgeIndex(r, g, ridx, 0, "tx", "reset request before "+desc, c)
	}

	before := n.image()
	var sqls []string
	for _, i := range c.Stmts {
		sqls = append(sqls, c25aMenu[i].SQL)
	}
	var idx uint64
	if c.Entry == "Execute" {
		_, idx, err = n.s.Execute(ctx, executeRequestFromStrings(sqls, false, c.Tx))
	} else {
		_, _, idx, err = n.s.Request(ctx, executeQueryRequestFromStrings(sqls, proto.ConsistencyLevel_WEAK, false, c.Tx, false))
	}
	groups := n.drain()
	after := n.image()
	r.Eval(1)
	if err != nil {
		// request-level errors (e.g. a failed tx commit) are not expected with this menu
		r.Violation("C25:request-error", desc+": "+err.Error(), c)
		return
	}
	diff := c25aDiff(before, after)

	if idx == 0 {
		// no log entry (read-only request served locally): nothing may change, nothing may be delivered
		if len(diff) != 0 || len(groups) != 0 {
			r.Violation("C25:change-without-log-entry", fmt.Sprintf("%s: no log index returned, diff=%v groups=%d", desc, diff, len(groups)), c)
		}
		r.Distinct("no-entry")
		return
	}
	// Ground truth for "the index of that log entry": the entry stored in the Raft log at idx is this request.
	got, gtx, lerr := n.logEntryStatements(idx)
	if lerr != nil || gtx != c.Tx || strings.Join(got, "\x00") != strings.Join(sqls, "\x00") {
		r.Violation("C25:returned-index-is-not-the-requests-log-entry", fmt.Sprintf("%s: index %d holds %v tx=%v err=%v", desc, idx, got, gtx, lerr), c)
		return
	}
	r.Validated(1)

	var shape []string
	for gi, g := range groups {
		n.judgeIndex(r, g, idx, gi, mode, desc, c)
		lbl := "other"
		switch g.Index {
		case idx:
			lbl = "entry"
		case 0:
			lbl = "zero"
		}
		shape = append(shape, fmt.Sprintf("%s:%d", lbl, len(g.Events)))
	}
	r.Distinct(mode + " " + strings.Join(shape, ","))

	for _, d := range diff {
		if n.re != nil && !n.re.MatchString(d.table) {
			continue // outside the filter: not owed
		}
		right, wrong := false, false
		for _, g := range groups {
			if c25aCovers(g, d) {
				if g.Index == idx {
					right = true
				} else {
					wrong = true
				}
			}
		}
		switch {
		case right:
		case wrong:
			// reported by judgeIndex under the index class; the change is there but mislabelled
			r.Add("changes_delivered_only_under_wrong_index", 1)
		default:
			r.Violation("C25:committed-change-not-delivered:"+mode, fmt.Sprintf("%s: %s row %d of %s (entry %d) is in no delivered group", desc, d.kind, d.id, d.table, idx), c)
		}
	}
}

func (n *c25aNode) judgeIndex(r *kit.Run, g *proto.CDCIndexedEventGroup, idx uint64, pos int, mode, desc string, c c25aCase) {
	where := "first-commit"
	if pos > 0 {
		where = "later-commit"
	}
	where += "-of-" + mode + "-request"
	switch {
	case g.Index == 0:
		r.Violation("C25:group-index-zero:"+where, fmt.Sprintf("%s: group #%d of the request (log entry %d) with %d events is labelled index 0", desc, pos, idx, len(g.Events)), c)
		return
	case g.Index != idx:
		r.Violation("C25:group-index-of-another-entry:"+where, fmt.Sprintf("%s: group #%d of the request (log entry %d) is labelled index %d", desc, pos, idx, g.Index), c)
	}
	if g.Index < n.lastIdx {
		r.Violation("C25:group-index-decreases", fmt.Sprintf("%s: group index %d delivered after %d", desc, g.Index, n.lastIdx), c)
	}
	if g.Index > n.lastIdx {
		n.lastIdx = g.Index
	}
}

func TestVerif_C25_index(t *testing.T) {
	r := kit.Start(t, "C25", "index")
	defer r.Finish()
	maxLen := 3
	r.Rule(fmt.Sprintf("every request of 1..%d statements over a menu of %d (single-row insert that fails on repetition, multi-row insert, update one row, update no row, delete one row, multi-row insert failing after its first row, statement failing at prepare, DDL, SELECT, insert into a table outside the filter) x transaction flag x entry point {Store.Execute, Store.Request} x CDC table filter {none, ^t$}, each applied as one Raft log entry on a live single-node Store after a reset entry; distinct = (tx, per-group label entry/zero/other and event count) shapes", maxLen, len(c25aMenu)))
	r.Assume("a row change is 'committed by the entry' iff the table image (by rowid) read from the store's database differs before/after the request; changes that cancel out inside one request are not demanded")
	r.Assume("single node, CDC hand-off channel never full (capacity 4096, drained after every request)")

	var cases []c25aCase
	var gen func(prefix []int, n int)
	gen = func(prefix []int, n int) {
		if len(prefix) == n {
			for _, tx := range []bool{false, true} {
				for _, en := range []string{"Execute", "Request"} {
					c := c25aCase{Stmts: append([]int(nil), prefix...), Tx: tx, Entry: en}
					for _, i := range prefix {
						c.Names = append(c.Names, c25aMenu[i].Name)
					}
					cases = append(cases, c)
				}
			}
			return
		}
		for i := range c25aMenu {
			gen(append(prefix, i), n)
		}
	}
	for n := 1; n <= maxLen; n++ {
		gen(nil, n)
	}

	if raw := kit.Replay(); raw != nil {
		var c c25aCase
		if err := json.Unmarshal(raw, &c); err != nil {
			t.Fatal(err)
		}
		n := c25aNewNode(t, c.Filter)
		defer n.s.Close(true)
		n.run(r, c)
		return
	}

	filters := []string{"", "^t$"}
	perFilter := 8
	var wg sync.WaitGroup
	for _, f := range filters {
		for w := 0; w < perFilter; w++ {
			n := c25aNewNode(t, f)
			wg.Add(1)
			go func(n *c25aNode, w int) {
				defer wg.Done()
				defer n.s.Close(true)
				for i := w; i < len(cases); i += perFilter {
					c := cases[i]
					c.Filter = n.filter
					n.run(r, c)
					r.SampleEvery(i, c)
				}
			}(n, w)
		}
	}
	wg.Wait()
	r.Set("requests_per_filter", int64(len(cases)))
}
