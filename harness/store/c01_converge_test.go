package store

import (
	"context"
	"encoding/hex"
	"encoding/json"
	"fmt"
	"io"
	"log"
	"os"
	"path/filepath"
	"regexp"
	"sort"
	"strconv"
	"strings"
	"sync"
	"testing"
	"time"

	"github.com/hashicorp/raft"
	"github.com/rqlite/rqlite/v10/command"
	"github.com/rqlite/rqlite/v10/command/chunking"
	"github.com/rqlite/rqlite/v10/command/proto"
	csql "github.com/rqlite/rqlite/v10/command/sql"
	sql "github.com/rqlite/rqlite/v10/db"
	kit "github.com/rqlite/rqlite/v10/internal/verifkit"
)

// C01: every node that applies the same committed log ends with logically
// identical database contents, whichever way it applied it.
//
// Part "paths". Programs (bounded-exhaustive over the menus below) are turned
// into requests exactly the way the HTTP write handlers do it (command/sql
// Process with both rewrite flags on, then Store.Execute / Store.Request, which
// marshal the request into the Raft log). The marshalled log entries of the
// live run are then read back from the Raft log and the very same bytes are
// applied along every other path:
//
//	live            Store.Execute/Request on a real single-node Store (reference)
//	proc-early      real CommandProcessor on a fresh database, right away
//	proc-late       real CommandProcessor on a fresh database >= 1.2 s later
//	restart-replay  the live Store closed without a snapshot, reopened: Raft replays the whole log
//	recover-log     a copy of that log-only directory opened with a peers.json: RecoverNode replays the log
//	fed-live        a second Store fed the same bytes through raft.Apply, with a forced
//	                snapshot after every phase but the last (full, then incremental)
//	snap-fast       that Store closed without a further snapshot and reopened: clean-snapshot
//	                fast path (database file kept) + replay of the log behind the snapshot
//	snap-restore    the same, with the clean-snapshot marker removed: Raft restores the
//	                database from the snapshot store (fsmRestore), then replays the rest
//	recover-snap    that Store reopened with a peers.json: RecoverNode restores the
//	                snapshot and replays the rest
//	close-snap      the live Store, after its replay, closed normally (snapshot on close), reopened
//	recover-snap-unclean  as recover-snap, on a copy whose clean-snapshot marker is gone
//	joiner          a fresh node joining a leader that was fed the same bytes and compacted
//	                its log behind a snapshot: snapshot over the network + the log tail
//
// Every program works on its own tables (prefix p<n>_), so one Store carries a
// whole shard of programs; phases are: all set-ups, all first requests, all
// second requests (1.1 s after the first ones, so that a second 'now' is a
// different value). A snapshot therefore always falls between the requests of a
// program; programs whose statements read connection state get Stores of their
// own. Oracle: for every program the logical dump (schema entries, every
// row of every table with rowid, typeof and quote of each value, the
// sqlite_sequence rows) is the same on every path.

const c01ApplyTimeout = 60 * time.Second

// ---------------------------------------------------------------------------
// program model

type c01Stmt struct {
	SQL   string            `json:"sql"`
	Pos   []string          `json:"pos,omitempty"`   // positional parameters, "i:42" "t:txt" "r:1.5" "y:0aff" "n:"
	Named map[string]string `json:"named,omitempty"` // named parameters
}

type c01Req struct {
	Via   string    `json:"via"` // execute | request
	Tx    bool      `json:"tx"`
	Stmts []c01Stmt `json:"stmts"`
}

type c01Prog struct {
	Class  string   `json:"class"` // feature class, used in violation keys
	Schema string   `json:"schema"`
	FK     bool     `json:"fk,omitempty"`
	Setup  []string `json:"setup"`
	Reqs   []c01Req `json:"reqs"`
	Forms  []string `json:"forms,omitempty"` // labels of the non-deterministic value forms used
	n      int
}

func (p *c01Prog) text() string {
	var sb strings.Builder
	sb.WriteString(p.Schema)
	for _, rq := range p.Reqs {
		fmt.Fprintf(&sb, " | %s tx=%v:", rq.Via, rq.Tx)
		for i, st := range rq.Stmts {
			if i > 0 {
				sb.WriteString(" ;;")
			}
			sb.WriteString(" " + st.SQL)
			if len(st.Pos) > 0 {
				fmt.Fprintf(&sb, " %v", st.Pos)
			}
			if len(st.Named) > 0 {
				fmt.Fprintf(&sb, " %v", st.Named)
			}
		}
	}
	return sb.String()
}

// c01Sub replaces the table placeholders @a, @b ... by the program's own names.
func c01Sub(s string, n int) string {
	return strings.ReplaceAll(s, "@", fmt.Sprintf("p%d_", n))
}

func c01Param(name, v string) *proto.Parameter {
	p := &proto.Parameter{Name: name}
	kind, val, _ := strings.Cut(v, ":")
	switch kind {
	case "i":
		n, err := strconv.ParseInt(val, 10, 64)
		if err != nil {
			panic(err)
		}
		p.Value = &proto.Parameter_I{I: n}
	case "r":
		f, err := strconv.ParseFloat(val, 64)
		if err != nil {
			panic(err)
		}
		p.Value = &proto.Parameter_D{D: f}
	case "t":
		p.Value = &proto.Parameter_S{S: val}
	case "y":
		b, err := hex.DecodeString(val)
		if err != nil {
			panic(err)
		}
		p.Value = &proto.Parameter_Y{Y: b}
	case "n":
	default:
		panic("c01: bad parameter " + v)
	}
	return p
}

func (st c01Stmt) proto(n int) *proto.Statement {
	ps := &proto.Statement{Sql: c01Sub(st.SQL, n)}
	for _, v := range st.Pos {
		ps.Parameters = append(ps.Parameters, c01Param("", v))
	}
	names := make([]string, 0, len(st.Named))
	for k := range st.Named {
		names = append(names, k)
	}
	sort.Strings(names)
	for _, k := range names {
		ps.Parameters = append(ps.Parameters, c01Param(k, st.Named[k]))
	}
	return ps
}

// ---------------------------------------------------------------------------
// menus

type c01Val struct {
	label string
	expr  string
	nd    string // "" deterministic, else family: random | randomblob | time
	pos   []string
	named map[string]string
}

// Non-deterministic forms: only forms the C14 check shows to be rewritten on
// the current tree (ordinary call syntax, explicit 'now', top-level expression).
var c01NDVals = []c01Val{
	{label: "random", expr: "random()", nd: "random"},
	{label: "random-in-expr", expr: "abs(random() % 1000)", nd: "random"},
	{label: "randomblob", expr: "randomblob(4)", nd: "randomblob"},
	{label: "hex-randomblob", expr: "hex(randomblob(3))", nd: "randomblob"},
	{label: "date-now", expr: "date('now')", nd: "time"},
	{label: "time-now", expr: "time('now')", nd: "time"},
	{label: "datetime-now", expr: "datetime('now')", nd: "time"},
	{label: "julianday-now", expr: "julianday('now')", nd: "time"},
	{label: "unixepoch-now", expr: "unixepoch('now')", nd: "time"},
	{label: "unixepoch-now-subsec", expr: "unixepoch('now', 'subsec')", nd: "time"},
	{label: "datetime-now-modifier", expr: "datetime('now', '+1 day')", nd: "time"},
	{label: "strftime-s-now", expr: "strftime('%s', 'now')", nd: "time"},
	{label: "strftime-f-now", expr: "strftime('%Y-%m-%d %H:%M:%f', 'now')", nd: "time"},
	{label: "timediff-now", expr: "timediff('now', '2020-01-02 03:04:05')", nd: "time"},
}

var c01DetVals = []c01Val{
	{label: "int", expr: "7"},
	{label: "text", expr: "'lit'"},
	{label: "null", expr: "NULL"},
	{label: "real", expr: "1.5"},
	{label: "blob", expr: "x'0aff'"},
	{label: "pos-int", expr: "?", pos: []string{"i:42"}},
	{label: "pos-blob", expr: "?", pos: []string{"y:00ff10"}},
	{label: "named-text", expr: ":nv", named: map[string]string{"nv": "t:named"}},
	{label: "named-real", expr: ":nr", named: map[string]string{"nr": "r:2.25"}},
}

func c01ValByLabel(l string) c01Val {
	for _, v := range append(append([]c01Val{}, c01NDVals...), c01DetVals...) {
		if v.label == l {
			return v
		}
	}
	panic("c01: no value form " + l)
}

type c01Tmpl struct {
	label string
	slots int
	sql   string // $1 $2 = value slots
}

var c01Tmpls = []c01Tmpl{
	{"insert", 1, "INSERT INTO @a(v) VALUES($1)"},
	{"insert-2col", 2, "INSERT INTO @a(v, w) VALUES($1, $2)"},
	{"insert-2row", 1, "INSERT INTO @a(v) VALUES($1), ($1)"},
	{"update-one", 1, "UPDATE @a SET v = $1 WHERE id = 1"},
	{"update-all", 1, "UPDATE @a SET w = $1"},
	{"upsert-hit", 2, "INSERT INTO @a(id, v) VALUES(1, $1) ON CONFLICT(id) DO UPDATE SET v = excluded.v, w = $2"},
	{"upsert-miss", 2, "INSERT INTO @a(id, v) VALUES(7, $1) ON CONFLICT(id) DO UPDATE SET w = $2"},
	{"insert-select", 1, "INSERT INTO @b(x, y) SELECT v, $1 FROM @a"},
	{"insert-fails", 1, "INSERT INTO @a(id, v) VALUES(1, $1)"},
	{"replace", 1, "INSERT OR REPLACE INTO @a(id, v) VALUES(2, $1)"},
	{"insert-returning", 1, "INSERT INTO @a(v) VALUES($1) RETURNING id"},
	{"create-as-select", 1, "CREATE TABLE @c AS SELECT id, $1 AS r FROM @a"},
	{"delete-one", 0, "DELETE FROM @a WHERE id = 2"},
	{"delete-all", 0, "DELETE FROM @a"},
	{"alter-add-column", 0, "ALTER TABLE @a ADD COLUMN z DEFAULT 5"},
	{"create-index", 0, "CREATE UNIQUE INDEX @a_iv ON @a(v)"},
	{"drop-table", 0, "DROP TABLE @b"},
}

func c01TmplByLabel(l string) c01Tmpl {
	for _, t := range c01Tmpls {
		if t.label == l {
			return t
		}
	}
	panic("c01: no template " + l)
}

// c01Make instantiates a template. Positional parameters are collected in slot order.
func c01Make(t c01Tmpl, v1, v2 c01Val) (c01Stmt, []string) {
	st := c01Stmt{}
	var forms []string
	s := t.sql
	use := func(ph string, v c01Val) {
		k := strings.Count(s, ph)
		if k == 0 {
			return
		}
		s = strings.ReplaceAll(s, ph, v.expr)
		for i := 0; i < k; i++ {
			st.Pos = append(st.Pos, v.pos...)
		}
		for n, x := range v.named {
			if st.Named == nil {
				st.Named = map[string]string{}
			}
			st.Named[n] = x
		}
		if v.nd != "" {
			forms = append(forms, v.label)
		}
	}
	// slot 1 occurrences precede slot 2 in every template
	use("$1", v1)
	use("$2", v2)
	if len(st.Pos) > 0 && len(st.Named) > 0 {
		// SQLite numbers ? and :name in one sequence; keep a statement to one style
		return c01Stmt{}, nil
	}
	st.SQL = s
	return st, forms
}

var c01Schemas = map[string][]string{
	"autoincrement": {
		"CREATE TABLE @a(id INTEGER PRIMARY KEY AUTOINCREMENT, v, w)",
		"CREATE TABLE @b(id INTEGER PRIMARY KEY, x UNIQUE, y)",
		"INSERT INTO @a(v, w) VALUES('s1', 1), ('s2', 2), ('s3', 3)",
		"DELETE FROM @a WHERE id = 3",
	},
	"rowid-pk": {
		"CREATE TABLE @a(id INTEGER PRIMARY KEY, v, w)",
		"CREATE TABLE @b(id INTEGER PRIMARY KEY, x UNIQUE, y)",
		"INSERT INTO @a(v, w) VALUES('s1', 1), ('s2', 2), ('s3', 3)",
		"DELETE FROM @a WHERE id = 3",
	},
}

type c01Gen struct {
	progs []*c01Prog
	seen  map[string]bool
}

func (g *c01Gen) add(class, schema string, fk bool, setup []string, forms []string, reqs ...c01Req) {
	p := &c01Prog{Class: class, Schema: schema, FK: fk, Setup: setup, Reqs: reqs, Forms: forms}
	k := fmt.Sprintf("%v|%s|%v", fk, strings.Join(setup, ";"), p.text())
	if g.seen[k] {
		return
	}
	g.seen[k] = true
	p.n = len(g.progs) + 1
	g.progs = append(g.progs, p)
}

type c01S struct {
	tmpl  string
	st    c01Stmt
	forms []string
}

// c01Stmts: every instantiation of the given templates with slot 1 from v1s and
// slot 2 from v2s.
func c01Stmts(tmpls []string, v1s, v2s []string) []c01S {
	var out []c01S
	seen := map[string]bool{}
	for _, tl := range tmpls {
		t := c01TmplByLabel(tl)
		a, b := v1s, v2s
		if t.slots < 1 {
			a = []string{"int"}
		}
		if t.slots < 2 {
			b = []string{"int"}
		}
		for _, l1 := range a {
			for _, l2 := range b {
				st, forms := c01Make(t, c01ValByLabel(l1), c01ValByLabel(l2))
				if st.SQL == "" {
					continue
				}
				k := fmt.Sprintf("%s %v %v", st.SQL, st.Pos, st.Named)
				if seen[k] {
					continue
				}
				seen[k] = true
				out = append(out, c01S{tl, st, forms})
			}
		}
	}
	return out
}

func c01Labels(vs []c01Val) []string {
	var out []string
	for _, v := range vs {
		out = append(out, v.label)
	}
	return out
}

var c01DDL = map[string]bool{"create-as-select": true, "alter-add-column": true, "create-index": true, "drop-table": true}

// c01Programs returns the programs that share Stores (batch) and the ones that
// get Stores of their own (alone): programs whose statements read connection
// state, for which the neighbours in a batch would matter.
func c01Programs(thorough bool) (batch, alone []*c01Prog) {
	g := &c01Gen{seen: map[string]bool{}}
	allT := func() []string {
		var out []string
		for _, t := range c01Tmpls {
			out = append(out, t.label)
		}
		return out
	}()
	allV := append(c01Labels(c01NDVals), c01Labels(c01DetVals)...)
	vias := []string{"execute", "request"}
	schemas := []string{"autoincrement", "rowid-pk"}
	class := func(ss ...c01S) (string, []string) {
		c := "dml"
		var forms []string
		for _, s := range ss {
			if c01DDL[s.tmpl] {
				c = "ddl"
			}
			forms = append(forms, s.forms...)
		}
		return c, forms
	}

	// A. one request of one statement: every template x every value form in slot 1
	//    (slot 2: a deterministic and a non-deterministic form) x schema x endpoint
	slot2 := []string{"text", "random"}
	if thorough {
		slot2 = append(slot2, "datetime-now", "pos-int", "randomblob")
	}
	for _, s := range c01Stmts(allT, allV, slot2) {
		for _, sc := range schemas {
			for _, via := range vias {
				c, f := class(s)
				g.add(c, sc, false, c01Schemas[sc], f, c01Req{Via: via, Tx: false, Stmts: []c01Stmt{s.st}})
			}
		}
	}

	// B. one request of two (thorough: also three) statements, transaction flag on/off
	redT := []string{"insert", "update-one", "upsert-hit", "insert-select", "insert-fails", "delete-one"}
	redV := []string{"random", "datetime-now", "pos-int"}
	if thorough {
		redT = append(redT, "replace", "insert-2row", "update-all", "delete-all", "insert-returning", "alter-add-column", "drop-table")
		redV = append(redV, "randomblob", "named-text")
	}
	red := c01Stmts(redT, redV, []string{"text"})
	for _, s1 := range red {
		for _, s2 := range red {
			for _, tx := range []bool{false, true} {
				for _, via := range vias {
					c, f := class(s1, s2)
					g.add(c, "autoincrement", false, c01Schemas["autoincrement"], f, c01Req{Via: via, Tx: tx, Stmts: []c01Stmt{s1.st, s2.st}})
				}
			}
		}
	}
	if thorough {
		small := c01Stmts([]string{"insert", "update-one", "insert-fails", "delete-one", "upsert-hit"}, []string{"random", "datetime-now", "pos-int"}, []string{"text"})
		for _, s1 := range small {
			for _, s2 := range small {
				for _, s3 := range small {
					for _, tx := range []bool{false, true} {
						for _, via := range vias {
							c, f := class(s1, s2, s3)
							g.add(c, "autoincrement", false, c01Schemas["autoincrement"], f, c01Req{Via: via, Tx: tx, Stmts: []c01Stmt{s1.st, s2.st, s3.st}})
						}
					}
				}
			}
		}
	}

	// C. two requests (a snapshot falls between them on the snapshot paths)
	seq := red
	if !thorough {
		seq = c01Stmts([]string{"insert", "update-one", "upsert-hit", "insert-fails", "delete-one", "delete-all"}, []string{"random", "datetime-now", "pos-int"}, []string{"text"})
	}
	for _, s1 := range seq {
		for _, s2 := range seq {
			for _, sc := range schemas {
				c, f := class(s1, s2)
				via := vias[(len(s1.st.SQL)+len(s2.st.SQL))%2]
				g.add(c, sc, false, c01Schemas[sc], f,
					c01Req{Via: via, Tx: false, Stmts: []c01Stmt{s1.st}},
					c01Req{Via: via, Tx: true, Stmts: []c01Stmt{s2.st}})
			}
		}
	}

	// D. schema objects whose bodies contain a non-deterministic call: the body is
	//    stored and evaluated by every later statement that fires/reads it
	one := func(sql string) c01Req { return c01Req{Via: "execute", Stmts: []c01Stmt{{SQL: sql}}} }
	for _, v := range []string{"random", "randomblob", "datetime-now", "unixepoch-now-subsec", "strftime-f-now"} {
		val := c01ValByLabel(v)
		for _, sc := range schemas {
			g.add("trigger-body", sc, false, c01Schemas[sc], []string{v},
				one("CREATE TRIGGER @a_tr AFTER INSERT ON @a BEGIN UPDATE @a SET w = "+val.expr+" WHERE id = NEW.id; END"),
				one("INSERT INTO @a(v) VALUES('fires')"))
			g.add("view-body", sc, false, c01Schemas[sc], []string{v},
				one("CREATE VIEW @vw AS SELECT id, "+val.expr+" AS r FROM @a"),
				one("INSERT INTO @b(x, y) SELECT id, r FROM @vw"))
		}
	}

	// E. foreign keys: the same programs on Stores with the constraint off and on
	fkSetup := append(append([]string{}, c01Schemas["autoincrement"]...),
		"CREATE TABLE @k(id INTEGER PRIMARY KEY, aid INTEGER REFERENCES @a(id) ON DELETE CASCADE, note)",
		"INSERT INTO @k(aid, note) VALUES(1, 'c1'), (2, 'c2'), (2, 'c3')")
	fkStmts := []string{
		"DELETE FROM @a WHERE id = 1",
		"INSERT INTO @k(aid, note) VALUES(99, 'orphan')",
		"INSERT INTO @k(aid, note) VALUES(2, random())",
		"UPDATE @k SET aid = 77 WHERE id = 1",
		"INSERT OR REPLACE INTO @a(id, v) VALUES(2, datetime('now'))",
	}
	for _, fk := range []bool{false, true} {
		for _, s1 := range fkStmts {
			g.add("foreign-key", "autoincrement+child", fk, fkSetup, nil, one(s1))
			for _, s2 := range fkStmts {
				for _, tx := range []bool{false, true} {
					g.add("foreign-key", "autoincrement+child", fk, fkSetup, nil, c01Req{Via: "execute", Tx: tx, Stmts: []c01Stmt{{SQL: s1}, {SQL: s2}}})
				}
				g.add("foreign-key", "autoincrement+child", fk, fkSetup, nil, one(s1), one(s2))
			}
		}
	}
	batch = g.progs

	// F. statements that read the state of the connection they run on
	h := &c01Gen{seen: map[string]bool{}}
	sc := "autoincrement"
	for _, via := range vias {
		rq := func(tx bool, sqls ...string) c01Req {
			r := c01Req{Via: via, Tx: tx}
			for _, q := range sqls {
				r.Stmts = append(r.Stmts, c01Stmt{SQL: q})
			}
			return r
		}
		h.add("connection-state:last_insert_rowid", sc, false, c01Schemas[sc], nil,
			rq(false, "INSERT INTO @a(v) VALUES('parent')"),
			rq(false, "INSERT INTO @b(x, y) VALUES('child', last_insert_rowid())"))
		h.add("connection-state:last_insert_rowid", sc, false, c01Schemas[sc], nil,
			rq(true, "INSERT INTO @a(v) VALUES('parent')", "INSERT INTO @b(x, y) VALUES('child', last_insert_rowid())"))
		h.add("connection-state:changes", sc, false, c01Schemas[sc], nil,
			rq(false, "UPDATE @a SET w = 0"),
			rq(false, "INSERT INTO @b(x, y) VALUES('n', changes())"))
		h.add("connection-state:total_changes", sc, false, c01Schemas[sc], nil,
			rq(false, "UPDATE @a SET w = 0"),
			rq(false, "INSERT INTO @b(x, y) VALUES('n', total_changes())"))
		h.add("connection-state:temp-table", sc, false, c01Schemas[sc], nil,
			rq(false, "CREATE TEMP TABLE @t(k)", "INSERT INTO @t(k) VALUES(5), (6)", "INSERT INTO @b(x, y) VALUES('marker', 1)"),
			rq(false, "INSERT INTO @a(v) SELECT k FROM @t"))
		h.add("connection-state:temp-table", sc, false, c01Schemas[sc], nil,
			rq(true, "CREATE TEMP TABLE @t(k)", "INSERT INTO @t(k) VALUES(5), (6)", "INSERT INTO @a(v) SELECT k FROM @t"))
	}
	alone = h.progs
	for i, p := range alone {
		p.n = len(batch) + i + 1
	}
	return batch, alone
}

// ---------------------------------------------------------------------------
// dump

type c01Query func(stmts []string) ([]*proto.QueryRows, error)

func c01StoreQuery(s *Store) c01Query {
	return func(stmts []string) ([]*proto.QueryRows, error) {
		req := &proto.Request{}
		for _, q := range stmts {
			req.Statements = append(req.Statements, &proto.Statement{Sql: q})
		}
		return s.db.Query(req, false)
	}
}

func c01DBQuery(db *sql.SwappableDB) c01Query {
	return func(stmts []string) ([]*proto.QueryRows, error) {
		req := &proto.Request{}
		for _, q := range stmts {
			req.Statements = append(req.Statements, &proto.Statement{Sql: q})
		}
		return db.Query(req, false)
	}
}

func c01Cell(p *proto.Parameter) string {
	switch v := p.GetValue().(type) {
	case *proto.Parameter_I:
		return strconv.FormatInt(v.I, 10)
	case *proto.Parameter_D:
		return strconv.FormatFloat(v.D, 'g', -1, 64)
	case *proto.Parameter_S:
		return v.S
	case *proto.Parameter_Y:
		return "blob:" + hex.EncodeToString(v.Y)
	case *proto.Parameter_B:
		return fmt.Sprint(v.B)
	case nil:
		return "NULL"
	}
	return "?"
}

var c01NameRe = regexp.MustCompile(`^p(\d+)_`)

func c01Owner(name string) int {
	m := c01NameRe.FindStringSubmatch(name)
	if m == nil {
		return 0
	}
	n, _ := strconv.Atoi(m[1])
	return n
}

type c01Dump struct {
	full  map[int][]string // program -> dump lines
	shape map[int]string   // program -> value-free shape (types and row ids only)
}

// c01TakeDump reads the whole database logically and splits it by owning program.
func c01TakeDump(q c01Query) (*c01Dump, error) {
	d := &c01Dump{full: map[int][]string{}, shape: map[int]string{}}
	rs, err := q([]string{
		"SELECT type, name, tbl_name, coalesce(sql, '') FROM sqlite_master ORDER BY tbl_name, type, name",
		"SELECT m.name, p.name FROM sqlite_master m, pragma_table_info(m.name) p WHERE m.type = 'table' ORDER BY m.name, p.cid",
	})
	if err != nil {
		return nil, err
	}
	for _, r := range rs {
		if r.Error != "" {
			return nil, fmt.Errorf("dump: %s", r.Error)
		}
	}
	hasSeq := false
	for _, v := range rs[0].Values {
		typ, name, tbl, text := c01Cell(v.Parameters[0]), c01Cell(v.Parameters[1]), c01Cell(v.Parameters[2]), c01Cell(v.Parameters[3])
		if name == "sqlite_sequence" {
			hasSeq = true
			continue
		}
		o := c01Owner(tbl)
		d.full[o] = append(d.full[o], fmt.Sprintf("schema %s %s on %s: %s", typ, name, tbl, text))
	}
	cols := map[string][]string{}
	var tables []string
	for _, v := range rs[1].Values {
		t, c := c01Cell(v.Parameters[0]), c01Cell(v.Parameters[1])
		if strings.HasPrefix(t, "sqlite_") {
			continue
		}
		if _, ok := cols[t]; !ok {
			tables = append(tables, t)
		}
		cols[t] = append(cols[t], c)
	}
	var qs []string
	for _, t := range tables {
		var sel []string
		for _, c := range cols[t] {
			sel = append(sel, fmt.Sprintf(`typeof("%s")`, c), fmt.Sprintf(`quote("%s")`, c))
		}
		qs = append(qs, fmt.Sprintf(`SELECT rowid, %s FROM "%s" ORDER BY rowid`, strings.Join(sel, ", "), t))
	}
	if hasSeq {
		qs = append(qs, "SELECT name, seq FROM sqlite_sequence ORDER BY name")
	}
	const chunk = 400
	var res []*proto.QueryRows
	for i := 0; i < len(qs); i += chunk {
		j := min(i+chunk, len(qs))
		r, err := q(qs[i:j])
		if err != nil {
			return nil, err
		}
		res = append(res, r...)
	}
	if len(res) != len(qs) {
		return nil, fmt.Errorf("dump: %d results for %d queries", len(res), len(qs))
	}
	shape := map[int]*strings.Builder{}
	sh := func(o int) *strings.Builder {
		if shape[o] == nil {
			shape[o] = &strings.Builder{}
		}
		return shape[o]
	}
	for i, t := range tables {
		if res[i].Error != "" {
			return nil, fmt.Errorf("dump of %s: %s", t, res[i].Error)
		}
		o := c01Owner(t)
		fmt.Fprintf(sh(o), "%s:", c01NameRe.ReplaceAllString(t, ""))
		for _, v := range res[i].Values {
			var cells []string
			fmt.Fprintf(sh(o), "[%s", c01Cell(v.Parameters[0]))
			for k, c := range cols[t] {
				ty, qv := c01Cell(v.Parameters[1+2*k]), c01Cell(v.Parameters[2+2*k])
				cells = append(cells, fmt.Sprintf("%s=%s:%s", c, ty, qv))
				fmt.Fprintf(sh(o), " %s", ty)
			}
			sh(o).WriteString("]")
			d.full[o] = append(d.full[o], fmt.Sprintf("row %s rowid=%s %s", t, c01Cell(v.Parameters[0]), strings.Join(cells, " ")))
		}
		sh(o).WriteString(";")
	}
	if hasSeq {
		r := res[len(res)-1]
		if r.Error != "" {
			return nil, fmt.Errorf("dump of sqlite_sequence: %s", r.Error)
		}
		for _, v := range r.Values {
			t, seq := c01Cell(v.Parameters[0]), c01Cell(v.Parameters[1])
			o := c01Owner(t)
			d.full[o] = append(d.full[o], fmt.Sprintf("sequence %s seq=%s", t, seq))
			fmt.Fprintf(sh(o), "seq(%s)=%s;", c01NameRe.ReplaceAllString(t, ""), seq)
		}
	}
	for o, b := range shape {
		d.shape[o] = b.String()
	}
	return d, nil
}

// c01Diff returns "" when the two dumps of program n agree, else the first difference.
func c01Diff(a, b *c01Dump, n int) string {
	x, y := a.full[n], b.full[n]
	for i := 0; i < len(x) || i < len(y); i++ {
		var l, r string
		if i < len(x) {
			l = x[i]
		}
		if i < len(y) {
			r = y[i]
		}
		if l != r {
			return fmt.Sprintf("%q vs %q", c01Trunc(l), c01Trunc(r))
		}
	}
	return ""
}

func c01Trunc(s string) string {
	if s == "" {
		return "(nothing)"
	}
	if len(s) > 220 {
		return s[:220] + "..."
	}
	return s
}

// ---------------------------------------------------------------------------
// stores

type c01Node struct {
	t   *testing.T
	dir string
	id  string
	fk  bool
	s   *Store
}

func c01Must(what string, err error) {
	if err != nil {
		panic(fmt.Sprintf("c01 harness: %s: %v", what, err))
	}
}

func (n *c01Node) open(bootstrap bool) {
	cfg := NewDBConfig()
	cfg.FKConstraints = n.fk
	ly := mustMockLayer("localhost:0")
	s := New(&Config{DBConf: cfg, Dir: n.dir, ID: n.id, Logger: log.New(io.Discard, "", 0)}, ly)
	s.RaftLogLevel = "ERROR"
	s.SnapshotThreshold = 1 << 30 // no snapshot unless the harness asks for one
	s.SnapshotInterval = time.Hour
	s.NoSnapshotOnClose = true
	// a single node elects itself; no need to wait the default second each time
	s.HeartbeatTimeout = 250 * time.Millisecond
	s.ElectionTimeout = 250 * time.Millisecond
	s.LeaderLeaseTimeout = 250 * time.Millisecond
	c01Must("open store", s.Open())
	if bootstrap {
		c01Must("bootstrap", s.Bootstrap(NewServer(s.ID(), s.Addr(), true)))
	}
	_, err := s.WaitForLeader(60 * time.Second)
	c01Must("wait for leader", err)
	// everything in the log is applied once a barrier comes back
	for i := 0; ; i++ {
		err := s.raft.Barrier(c01ApplyTimeout).Error()
		if err == nil {
			break
		}
		if i > 100 {
			c01Must("barrier", err)
		}
		time.Sleep(50 * time.Millisecond)
	}
	n.s = s
}

// openBare opens a node that is not bootstrapped: it waits to be joined.
func (n *c01Node) openBare() {
	cfg := NewDBConfig()
	cfg.FKConstraints = n.fk
	s := New(&Config{DBConf: cfg, Dir: n.dir, ID: n.id, Logger: log.New(io.Discard, "", 0)}, mustMockLayer("localhost:0"))
	s.RaftLogLevel = "ERROR"
	s.SnapshotThreshold = 1 << 30
	s.SnapshotInterval = time.Hour
	s.NoSnapshotOnClose = true
	c01Must("open store", s.Open())
	n.s = s
}

func (n *c01Node) close(snapshotOnClose bool) {
	n.s.NoSnapshotOnClose = !snapshotOnClose
	c01Must("close store", n.s.Close(true))
	n.s.ly.Close()
}

// reopenRecover restarts the node through manual recovery (peers.json).
func (n *c01Node) reopenRecover() {
	ly := mustMockLayer("localhost:0")
	addr := ly.Addr().String()
	ly.Close()
	peers := fmt.Sprintf(`[{"id": "%s", "address": "%s", "non_voter": false}]`, n.id, addr)
	c01Must("mkdir", os.MkdirAll(filepath.Join(n.dir, "raft"), 0o755))
	c01Must("write peers.json", os.WriteFile(filepath.Join(n.dir, "raft", "peers.json"), []byte(peers), 0o644))
	n.open(false)
	if _, err := os.Stat(filepath.Join(n.dir, "raft", "peers.json")); err == nil {
		panic("c01 harness: peers.json still present after open: no recovery happened")
	}
}

func (n *c01Node) dump() *c01Dump {
	d, err := c01TakeDump(c01StoreQuery(n.s))
	c01Must("dump", err)
	return d
}

func (n *c01Node) feed(data []byte) uint64 {
	f := n.s.raft.Apply(data, c01ApplyTimeout)
	c01Must("raft apply", f.Error())
	return f.Index()
}

// commandEntries returns the command entries of the node's Raft log, by index.
func (n *c01Node) commandEntries() map[uint64][]byte {
	out := map[uint64][]byte{}
	fi, err := n.s.raftLog.FirstIndex()
	c01Must("first index", err)
	li, err := n.s.raftLog.LastIndex()
	c01Must("last index", err)
	for i := fi; i <= li; i++ {
		var l raft.Log
		c01Must("get log", n.s.raftLog.GetLog(i, &l))
		if l.Type == raft.LogCommand {
			out[i] = append([]byte(nil), l.Data...)
		}
	}
	return out
}

// c01Scratch returns a scratch directory, on tmpfs when there is one (the Raft log
// and SQLite fsync a lot; the data is thrown away).
func c01Scratch(t *testing.T) string {
	if st, err := os.Stat("/dev/shm"); err == nil && st.IsDir() {
		d, err := os.MkdirTemp("/dev/shm", "verif-c01-")
		if err == nil {
			t.Cleanup(func() { os.RemoveAll(d) })
			return d
		}
	}
	return kit.Scratch(t)
}

func c01CopyDir(src, dst string) {
	c01Must("copy dir", filepath.Walk(src, func(p string, fi os.FileInfo, err error) error {
		if err != nil {
			return err
		}
		rel, _ := filepath.Rel(src, p)
		to := filepath.Join(dst, rel)
		if fi.IsDir() {
			return os.MkdirAll(to, 0o755)
		}
		b, err := os.ReadFile(p)
		if err != nil {
			return err
		}
		if err := os.WriteFile(to, b, fi.Mode()); err != nil {
			return err
		}
		return os.Chtimes(to, fi.ModTime(), fi.ModTime())
	}))
}

// ---------------------------------------------------------------------------
// one shard: a list of programs through every path

type c01Entry struct {
	prog  *c01Prog
	phase int
	data  []byte
	sqls  []string // replicated statement texts
}

type c01Shard struct {
	name  string
	fk    bool
	progs []*c01Prog
}

type c01PathDump struct {
	path string
	d    *c01Dump
}

type c01Result struct {
	entries []c01Entry
	live    *c01Dump
	atSnap  *c01Dump // the fed node's database right after its last snapshot
	paths   []c01PathDump
	resp    map[int][]string // program -> per-request outcome summary of the live run
	facts   map[string]int
}

func c01BuildRequest(p *c01Prog, phase int) (via string, tx bool, stmts []*proto.Statement) {
	if phase == 0 {
		for _, s := range p.Setup {
			stmts = append(stmts, &proto.Statement{Sql: c01Sub(s, p.n)})
		}
		return "execute", true, stmts
	}
	rq := p.Reqs[phase-1]
	for _, st := range rq.Stmts {
		stmts = append(stmts, st.proto(p.n))
	}
	return rq.Via, rq.Tx, stmts
}

func c01Summ(rs []*proto.ExecuteQueryResponse, err error) string {
	if err != nil {
		return "error:" + err.Error()
	}
	var out []string
	for _, r := range rs {
		switch {
		case r.GetError() != "":
			out = append(out, "E("+r.GetError()+")")
		case r.GetE() != nil && r.GetE().Error != "":
			out = append(out, "E("+r.GetE().Error+")")
		case r.GetQ() != nil && r.GetQ().Error != "":
			out = append(out, "E("+r.GetQ().Error+")")
		case r.GetE() != nil:
			out = append(out, fmt.Sprintf("ok(rows=%d)", r.GetE().RowsAffected))
		case r.GetQ() != nil:
			out = append(out, fmt.Sprintf("rows(%d)", len(r.GetQ().Values)))
		default:
			out = append(out, "empty")
		}
	}
	return strings.Join(out, ",")
}

// c01Decode returns the statement texts carried by a marshalled log entry.
func c01Decode(data []byte) []string {
	var c proto.Command
	c01Must("unmarshal command", command.Unmarshal(data, &c))
	var out []string
	switch c.Type {
	case proto.Command_COMMAND_TYPE_EXECUTE:
		var er proto.ExecuteRequest
		c01Must("unmarshal execute", command.UnmarshalSubCommand(&c, &er))
		for _, s := range er.Request.Statements {
			out = append(out, s.Sql)
		}
	case proto.Command_COMMAND_TYPE_EXECUTE_QUERY:
		var er proto.ExecuteQueryRequest
		c01Must("unmarshal execute-query", command.UnmarshalSubCommand(&c, &er))
		for _, s := range er.Request.Statements {
			out = append(out, s.Sql)
		}
	}
	return out
}

func c01RunShard(t *testing.T, sh c01Shard) *c01Result {
	res := &c01Result{resp: map[int][]string{}, facts: map[string]int{}}
	base := c01Scratch(t)
	t0 := time.Now()
	lap := func(what string) {
		if os.Getenv("C01_TIMING") != "" {
			t.Logf("shard %s: %s at %.1fs", sh.name, what, time.Since(t0).Seconds())
		}
	}
	mk := func(name string) *c01Node {
		d := filepath.Join(base, name)
		c01Must("mkdir", os.MkdirAll(d, 0o755))
		return &c01Node{t: t, dir: d, id: "n-" + name, fk: sh.fk}
	}
	add := func(path string, d *c01Dump) { res.paths = append(res.paths, c01PathDump{path, d}) }
	phases := 0
	for _, p := range sh.progs {
		phases = max(phases, len(p.Reqs)+1)
	}

	// ---- live
	L := mk("live")
	L.open(true)
	byIndex := map[uint64]c01Entry{}
	for ph := 0; ph < phases; ph++ {
		for _, p := range sh.progs {
			if ph > len(p.Reqs) {
				continue
			}
			via, tx, stmts := c01BuildRequest(p, ph)
			// what every HTTP write handler does before handing the request to the Store
			c01Must("sql.Process", csql.Process(stmts, true, true))
			var idx uint64
			var summ string
			if via == "execute" {
				rs, i, err := L.s.Execute(context.Background(), &proto.ExecuteRequest{Request: &proto.Request{Transaction: tx, Statements: stmts}})
				idx, summ = i, c01Summ(rs, err)
			} else {
				rs, _, i, err := L.s.Request(context.Background(), &proto.ExecuteQueryRequest{Request: &proto.Request{Transaction: tx, Statements: stmts}, Level: proto.ConsistencyLevel_WEAK})
				idx, summ = i, c01Summ(rs, err)
			}
			if idx == 0 {
				panic(fmt.Sprintf("c01 harness: request of program %d phase %d did not go through the log: %s", p.n, ph, summ))
			}
			if ph == 0 && strings.Contains(summ, "E(") {
				panic(fmt.Sprintf("c01 harness: set-up of program %d failed: %s", p.n, summ))
			}
			if ph > 0 {
				res.resp[p.n] = append(res.resp[p.n], summ)
			}
			byIndex[idx] = c01Entry{prog: p, phase: ph}
		}
		if ph >= 1 && ph < phases-1 {
			// a second request that stores 'now' must store a value different from the first
			// one's, or its loss on some path could not be seen (and would be seen or not
			// depending on how fast this machine is)
			time.Sleep(1100 * time.Millisecond)
		}
	}
	liveDone := time.Now()
	lap("live applied")
	res.live = L.dump()
	raw := L.commandEntries()
	var idxs []uint64
	for i := range raw {
		idxs = append(idxs, i)
	}
	sort.Slice(idxs, func(a, b int) bool { return idxs[a] < idxs[b] })
	for _, i := range idxs {
		e, ok := byIndex[i]
		if !ok {
			panic(fmt.Sprintf("c01 harness: command entry at index %d was not written by the harness", i))
		}
		e.data = raw[i]
		e.sqls = c01Decode(e.data)
		res.entries = append(res.entries, e)
	}
	if len(res.entries) != len(byIndex) {
		panic("c01 harness: log entries missing")
	}

	// ---- CommandProcessor on fresh databases, now and >= 1.2 s later
	proc := func(name string) *c01Dump {
		dir := filepath.Join(base, name)
		c01Must("mkdir", os.MkdirAll(dir, 0o755))
		db, err := sql.OpenSwappable(filepath.Join(dir, "db.sqlite"), sql.DefaultDriver(), sh.fk, true, 0)
		c01Must("open database", err)
		defer db.Close()
		dm, err := chunking.NewDechunkerManager(dir)
		c01Must("dechunker", err)
		defer dm.Close()
		cp := NewCommandProcessor(log.New(io.Discard, "", 0), dm)
		for _, e := range res.entries {
			cp.Process(e.data, db)
		}
		d, err := c01TakeDump(c01DBQuery(db))
		c01Must("dump", err)
		return d
	}
	add("proc-early", proc("proc-early"))
	if w := 1200*time.Millisecond - time.Since(liveDone); w > 0 {
		time.Sleep(w)
	}
	add("proc-late", proc("proc-late"))
	lap("proc done")

	// ---- restart: replay of the whole log; then a normal close (snapshot on close) and
	//      another restart; on a copy of the log-only directory: manual recovery
	if L.s.numSnapshots.Load() != 0 {
		panic("c01 harness: the live store took a snapshot")
	}
	L.close(false)
	R := mk("recover-log")
	c01CopyDir(L.dir, R.dir)
	R.id = L.id
	L.open(false)
	if n := L.s.numSnapshotsStart.Load() + L.s.numSnapshotsSkipped.Load(); n != 0 {
		panic("c01 harness: restart-replay found a snapshot")
	}
	add("restart-replay", L.dump())
	lap("restart-replay")
	L.close(true)
	L.open(false)
	res.facts["restart-fast-path"] += int(L.s.numSnapshotsSkipped.Load())
	res.facts["restart-restore"] += int(L.s.numSnapshotsStart.Load())
	add("close-snap", L.dump())
	L.close(false)
	lap("close-snap")
	R.reopenRecover()
	add("recover-log", R.dump())
	R.close(false)
	lap("recover-log")

	// ---- a second node fed the same bytes, snapshot after every phase but the last
	S := mk("snap")
	S.open(true)
	for ph := 0; ph < phases; ph++ {
		for _, e := range res.entries {
			if e.phase == ph {
				S.feed(e.data)
			}
		}
		if ph < phases-1 {
			switch err := S.s.Snapshot(0); err {
			case nil:
				res.facts["snapshots-forced"]++
				res.atSnap = S.dump()
			case ErrNoWALToSnapshot, ErrNothingNewToSnapshot:
				// the phase changed nothing in the database: a legitimate refusal
				res.facts["snapshots-refused-nothing-new"]++
			default:
				c01Must("snapshot", err)
			}
		}
	}
	res.facts["snapshots-full"] += S.s.numFullSnapshots
	res.facts["snapshots-incremental"] += int(S.s.numIncSnapshots.Load())
	add("fed-live", S.dump())
	lap("fed-live")
	S.close(false)
	S.open(false)
	res.facts["restart-fast-path"] += int(S.s.numSnapshotsSkipped.Load())
	res.facts["restart-restore"] += int(S.s.numSnapshotsStart.Load())
	add("snap-fast", S.dump())
	lap("snap-fast")
	S.close(false)
	os.Remove(S.s.cleanSnapshotPath)
	S.open(false)
	res.facts["restart-fast-path"] += int(S.s.numSnapshotsSkipped.Load())
	res.facts["restart-restore"] += int(S.s.numSnapshotsStart.Load())
	add("snap-restore", S.dump())
	lap("snap-restore")
	S.close(false)
	// manual recovery of a node with snapshots and a log tail: as the node was left by a
	// clean run (clean-snapshot marker present), and with the marker gone
	U := mk("recover-unclean")
	c01CopyDir(S.dir, U.dir)
	U.id = S.id
	if _, err := os.Stat(S.s.cleanSnapshotPath); err != nil {
		panic("c01 harness: no clean-snapshot marker before recover-snap")
	}
	S.reopenRecover()
	add("recover-snap", S.dump())
	S.close(false)
	c01Must("remove marker", os.Remove(filepath.Join(U.dir, cleanSnapshotName)))
	U.reopenRecover()
	add("recover-snap-unclean", U.dump())
	U.close(false)
	lap("recover-snap")

	// ---- a node that joins later: the leader has compacted its log behind a snapshot, so
	//      the joiner gets the snapshot over the network (InstallSnapshot) plus the log tail
	JL := mk("join-leader")
	JL.open(true)
	var lastCmd uint64
	for ph := 0; ph < phases; ph++ {
		for _, e := range res.entries {
			if e.phase == ph {
				lastCmd = JL.feed(e.data)
			}
		}
		if ph == phases-2 {
			switch err := JL.s.Snapshot(1); err {
			case nil:
			case ErrNoWALToSnapshot, ErrNothingNewToSnapshot:
			default:
				c01Must("snapshot", err)
			}
		}
	}
	JN := mk("joiner")
	JN.openBare()
	c01Must("join", JL.s.Join(joinRequest(JN.id, JN.s.Addr(), false)))
	// the Store's own index is set when fsmApply has returned (raft's AppliedIndex is
	// set when an entry is handed to the FSM goroutine, which is too early to read)
	for at, since := uint64(0), time.Now(); JN.s.fsmIdx.Load() < lastCmd; {
		if now := JN.s.fsmIdx.Load(); now != at {
			at, since = now, time.Now()
		} else if time.Since(since) > 2*time.Minute {
			panic(fmt.Sprintf("c01 harness: joiner stuck at index %d of %d", at, lastCmd))
		}
		time.Sleep(25 * time.Millisecond)
	}
	if snaps, err := JN.s.snapshotStore.List(); err == nil {
		res.facts["joiner-has-installed-snapshot"] += len(snaps)
	}
	add("joiner", JN.dump())
	JN.close(false)
	JL.close(false)
	lap("joiner")
	return res
}

// ---------------------------------------------------------------------------

func c01Judge(r *kit.Run, sh c01Shard, res *c01Result) {
	replicated := map[int][]string{}
	for _, e := range res.entries {
		if e.phase > 0 {
			replicated[e.prog.n] = append(replicated[e.prog.n], e.sqls...)
		}
	}
	for _, p := range sh.progs {
		var bad []string
		what := map[string]string{}
		for _, pd := range res.paths {
			if d := c01Diff(res.live, pd.d, p.n); d != "" {
				bad = append(bad, pd.path)
				what[pd.path] = fmt.Sprintf("live vs %s: %s", pd.path, d)
			}
		}
		r.Eval(1)
		r.State(1 + len(res.paths))
		r.Transition((1 + len(p.Reqs)) * (1 + len(res.paths)))
		outcome := "converged"
		if len(bad) > 0 {
			outcome = "diverged on " + strings.Join(bad, ",")
		}
		// an observed outcome: what the live run answered, the value-free shape of the
		// resulting tables (row ids and storage classes) and where the paths agree
		r.Distinct(fmt.Sprintf("fk=%v %s => %v => %s => %s", sh.fk, p.Class, res.resp[p.n], res.live.shape[p.n], outcome))
		r.SampleEvery(p.n, map[string]any{"program": p.text(), "live_responses": res.resp[p.n], "replicated": c01Mask(replicated[p.n]), "outcome": outcome, "live_tables": res.live.shape[p.n]})
		if len(bad) == 0 {
			continue
		}
		cause := p.Class
		if !strings.Contains(p.Class, "-body") {
			// a call that was replicated as written names the cause
			for _, f := range p.Forms {
				for _, q := range replicated[p.n] {
					if strings.Contains(q, c01ValByLabel(f).expr) && !strings.HasPrefix(cause, "unrewritten:") {
						cause = "unrewritten:" + f
					}
				}
			}
		}
		for _, b := range bad {
			key := fmt.Sprintf("C01:%s:%s", b, cause)
			if strings.HasPrefix(b, "recover-snap") && res.atSnap != nil && what["snap-restore"] == "" {
				for _, pd := range res.paths {
					if pd.path == b && c01Diff(res.atSnap, pd.d, p.n) == "" {
						// the recovered database is exactly the last snapshot, although the
						// entries behind it do change it when Raft replays them (snap-restore)
						key = fmt.Sprintf("C01:%s:entries-after-snapshot-lost", b)
					}
				}
			}
			if os.Getenv("C01_TIMING") != "" {
				fmt.Printf("C01VIO %s | fk=%v %s\n", key, sh.fk, p.text())
			}
			r.Violation(key,
				fmt.Sprintf("program {%s} (fk=%v): replicated as %q; %s", p.text(), sh.fk, replicated[p.n], what[b]),
				map[string]any{"program": p})
		}
	}
}

var c01MaskRe = regexp.MustCompile(`-?\d{6,}(\.\d+)?|[xX]'[0-9A-Fa-f]+'`)

// c01Mask hides the literals the rewriter put in (different on every run) for the evidence file.
func c01Mask(in []string) []string {
	out := make([]string, len(in))
	for i, q := range in {
		out[i] = c01MaskRe.ReplaceAllString(q, "<v>")
	}
	return out
}

func TestVerif_C01(t *testing.T) {
	r := kit.Start(t, "C01", "paths")
	defer r.Finish()
	if rp := kit.Replay(); rp != nil {
		var in struct {
			Program c01Prog `json:"program"`
		}
		c01Must("replay file", json.Unmarshal(rp, &in))
		in.Program.n = 1
		sh := c01Shard{name: "replay", fk: in.Program.FK, progs: []*c01Prog{&in.Program}}
		c01Judge(r, sh, c01RunShard(t, sh))
		return
	}
	batch, alone := c01Programs(r.Thorough())
	nsh := r.Pick(8, 12)
	shards := make([]c01Shard, nsh+1)
	k := 0
	for _, p := range batch {
		if p.FK {
			shards[nsh].name, shards[nsh].fk = "fk", true
			shards[nsh].progs = append(shards[nsh].progs, p)
			continue
		}
		shards[k%nsh].name = fmt.Sprintf("s%d", k%nsh)
		shards[k%nsh].progs = append(shards[k%nsh].progs, p)
		k++
	}
	for i, p := range alone {
		shards = append(shards, c01Shard{name: fmt.Sprintf("alone%d", i), progs: []*c01Prog{p}})
	}
	var wg sync.WaitGroup
	results := make([]*c01Result, len(shards))
	sem := make(chan struct{}, 12)
	for i, sh := range shards {
		wg.Add(1)
		sem <- struct{}{}
		go func(i int, sh c01Shard) {
			defer wg.Done()
			defer func() { <-sem }()
			results[i] = c01RunShard(t, sh)
		}(i, sh)
	}
	wg.Wait()
	facts := map[string]int{}
	for i, sh := range shards { // judged in a fixed order: the evidence is the same run to run
		c01Judge(r, sh, results[i])
		for k, v := range results[i].facts {
			facts[k] += v
		}
	}
	for k, v := range facts {
		r.Set(k, v)
	}
	classes := map[string]int{}
	for _, p := range append(append([]*c01Prog{}, batch...), alone...) {
		classes[p.Class]++
	}
	r.Set("programs_by_class", classes)
	r.Rule(fmt.Sprintf("%d SQL programs = set-up request + 1 or 2 requests, bounded-exhaustive: (A) every one-statement request over %d statement templates (INSERT one/two columns/two rows, UPDATE one/all rows, UPSERT hitting/missing, INSERT..SELECT, failing INSERT, INSERT OR REPLACE, INSERT..RETURNING, CREATE TABLE AS SELECT, DELETE one/all, ALTER ADD COLUMN, CREATE UNIQUE INDEX, DROP TABLE) x %d value forms in the first slot (random(), random() inside an expression, randomblob(n), hex(randomblob(n)), date/time/datetime/julianday/unixepoch/strftime/timediff with explicit 'now' incl. modifiers and subsec, integer/text/NULL/real/blob literals, positional and named parameters) x schema {AUTOINCREMENT, plain rowid primary key} x {Store.Execute, Store.Request}; (B) every request of two statements (thorough: also three) over a reduced statement set x transaction flag x endpoint; (C) every sequence of two one-statement requests over a reduced set x schema; (D) triggers and views whose bodies call the functions; (E) foreign-key programs on Stores with the constraint off and on; (F) statements reading connection state (last_insert_rowid, changes, total_changes, TEMP tables), each on Stores of its own. Each program is sent the way the HTTP write handlers send it (command/sql.Process, then Store.Execute/Request); the marshalled log entries are read back from the Raft log and the same bytes are applied along 12 paths (live, CommandProcessor now and >=1.2 s later, restart log replay, snapshot-on-close restart, RecoverNode from the log, a second Store with forced full+incremental snapshots between the requests, its restart on the clean-snapshot fast path, its restart with a real snapshot restore, RecoverNode from snapshot+log with and without the clean-snapshot marker, a non-voter joining a leader that compacted its log: snapshot over the network + log tail). Oracle: equal logical dumps (schema entries, rows with rowid/typeof/quote of every value, sqlite_sequence) of the program's tables on all paths. distinct = different (class, live responses, value-free table shape, set of diverging paths) outcomes", len(batch)+len(alone), len(c01Tmpls), len(c01NDVals)+len(c01DetVals)))
	r.Assume("all nodes of a cluster run with the same database configuration (foreign keys on everywhere or off everywhere)")
	r.Assume("programs that share a Store work on disjoint tables (prefix p<n>_); programs reading connection state get Stores of their own")
	r.Note("non-deterministic forms are restricted to those the C14 check shows to be rewritten (ordinary call syntax, explicit 'now'); requests that disable rewriting, db_timeout, CURRENT_*, DEFAULT expressions, ORDER BY RANDOM() and localtime are excluded as the property says")
	r.Note("a diverging recover-snap dump that equals the database at the last snapshot, while Raft's own replay of the same tail (snap-restore) agrees with live, is keyed entries-after-snapshot-lost")
}
