package store

import (
	"context"
	"errors"
	"fmt"
	"strings"
	"sync"
	"testing"
	"time"

	"github.com/hashicorp/raft"
	"github.com/rqlite/rqlite/v10/command/proto"
	"github.com/rqlite/rqlite/v10/internal/random"
	kit "github.com/rqlite/rqlite/v10/internal/verifkit"
)

// C38: on a leader that can reach a quorum a linearizable read completes within
// its timeout without needing any further write - also directly after a
// membership change, a barrier or a snapshot.
//
// Every history up to the explored length over
//
//	W  write (INSERT through Execute)
//	S  strong read
//	L  linearizable read
//	J  join a non-voter (address nobody listens on: quorum stays 1 of 1)
//	R  remove the non-voter joined last (only offered while one is joined)
//	B  barrier
//	N  no-op command
//	P  snapshot
//
// is run on a fresh real single-node Store (bootstrapped, leader, its own
// quorum), followed by one linearizable read. Every linearizable read - the
// final one and those inside the history - must return without error (being
// upgraded to a strong read is a way of completing). The oracle is
// schedule-independent: the node is a healthy leader throughout, so whatever
// raft's goroutines do, the read has to complete.
//
// The read's own timeout is set to 3 s instead of the 1 s default, so that a
// slow machine cannot turn into an alarm: a read that completes does so in
// milliseconds, one that waits for an index that is never signalled times out
// whatever the limit.

const c38ReadTimeout = 3 * time.Second

var c38OpName = map[byte]string{'W': "write", 'S': "strong-read", 'L': "linearizable-read", 'J': "join", 'R': "remove", 'B': "barrier", 'N': "noop-command", 'P': "snapshot"}

// c38Histories lists every history of length <= depth in which R is only used
// while a joined non-voter exists.
func c38Histories(depth int) []string {
	var out []string
	var rec func(h string, joined int)
	rec = func(h string, joined int) {
		out = append(out, h)
		if len(h) == depth {
			return
		}
		for _, op := range "WSLJRBNP" {
			switch op {
			case 'J':
				rec(h+"J", joined+1)
			case 'R':
				if joined > 0 {
					rec(h+"R", joined-1)
				}
			default:
				rec(h+string(op), joined)
			}
		}
	}
	rec("", 0)
	return out
}

func TestVerif_C38(t *testing.T) {
	r := kit.Start(t, "C38", "hist")
	defer r.Finish()
	depth := r.Pick(2, 3)
	r.Rule(fmt.Sprintf("every history of length <=%d over {write, strong read, linearizable read, join non-voter, remove it, barrier, no-op command, snapshot} on a fresh real single-node Store, each followed by a linearizable read with no intervening write; every linearizable read must return without error within its 3 s timeout. distinct = (history, outcome of each linearizable read)", depth))
	r.Assume("single node: the leader is its own quorum and stays leader; leader changes and snapshot installs on followers need the multi-node part, which is not built")
	r.Note("raft's internal interleavings are whatever each run produced; the oracle does not depend on them")

	hs := c38Histories(depth)
	var mu sync.Mutex
	var wg sync.WaitGroup
	sem := make(chan struct{}, 12)
	for i, h := range hs {
		wg.Add(1)
		sem <- struct{}{}
		go func(i int, h string) {
			defer wg.Done()
			defer func() { <-sem }()
			obs, steps := c38Run(t, r, h)
			mu.Lock()
			defer mu.Unlock()
			r.Eval(1)
			r.Transition(steps)
			r.Distinct(h + "=>" + obs)
			if i%37 == 0 || strings.Contains(obs, "FAIL") && i%5 == 0 {
				r.Sample(map[string]any{"history": h + "+L", "linearizable_reads": obs})
			}
		}(i, h)
	}
	wg.Wait()
	r.State(len(hs))
}

func c38Run(t *testing.T, r *kit.Run, h string) (string, int) {
	s, ln := mustNewStoreAtPathsLn(random.String(), kit.Scratch(t), false)
	defer ln.Close()
	must := func(what string, err error) {
		if err != nil {
			panic(fmt.Sprintf("harness: history %q: %s: %v", h, what, err))
		}
	}
	must("open", s.Open())
	defer s.Close(true)
	must("bootstrap", s.Bootstrap(NewServer(s.ID(), s.Addr(), true)))
	_, err := s.WaitForLeader(60 * time.Second)
	must("leader", err)
	_, _, err = s.Execute(context.Background(), executeRequestFromString("CREATE TABLE t(id INTEGER PRIMARY KEY, v TEXT)", false, false))
	must("create table", err)

	var obs []string
	var joined []string
	steps := 0
	lastNonRead := "create-table-write"
	linRead := func(pos int) {
		qr := queryRequestFromString("SELECT COUNT(*) FROM t", false, false, false)
		qr.Level = proto.ConsistencyLevel_LINEARIZABLE
		qr.LinearizableTimeout = int64(c38ReadTimeout)
		t0 := time.Now()
		_, lvl, _, err := s.Query(context.Background(), qr)
		steps++
		if err == nil {
			obs = append(obs, "ok:"+lvl.String())
			return
		}
		cls := "other-error"
		if errors.Is(err, ErrWaitForFSMTimeout) {
			cls = "timeout-waiting-for-fsm"
		}
		obs = append(obs, "FAIL:"+cls)
		// the failure class is named after the kind of log entry the read index points at
		ci := s.raft.CommitIndex()
		kind := "unreadable"
		var le raft.Log
		if gerr := s.raftLog.GetLog(ci, &le); gerr == nil {
			kind = strings.TrimPrefix(le.Type.String(), "Log")
		}
		r.Violation(fmt.Sprintf("C38:linearizable-read-fails:%s:commit-index-entry-is-%s", cls, kind),
			fmt.Sprintf("history %s then linearizable read #%d (last operation: %s): %v after %v on a healthy single-node leader (commit index %d is a %s entry, fsm index %d)",
				c38Spell(h), pos, lastNonRead, err, time.Since(t0).Round(time.Millisecond), ci, kind, s.fsmIdx.Load()),
			map[string]any{"history": h, "then": "L"})
	}
	for i := 0; i < len(h); i++ {
		op := h[i]
		steps++
		switch op {
		case 'W':
			_, _, err := s.Execute(context.Background(), executeRequestFromString(fmt.Sprintf("INSERT INTO t(v) VALUES('w%d')", i), false, false))
			must("write", err)
		case 'S':
			qr := queryRequestFromString("SELECT COUNT(*) FROM t", false, false, false)
			qr.Level = proto.ConsistencyLevel_STRONG
			_, _, _, err := s.Query(context.Background(), qr)
			must("strong read", err)
		case 'L':
			steps--
			linRead(i)
			continue
		case 'J':
			id := fmt.Sprintf("nv%d", i)
			// one address per joined node (raft refuses duplicates); nothing listens on ports 1..3
			must("join", s.Join(joinRequest(id, fmt.Sprintf("127.0.0.1:%d", i+1), false)))
			joined = append(joined, id)
		case 'R':
			id := joined[len(joined)-1]
			joined = joined[:len(joined)-1]
			must("remove", s.Remove(context.Background(), removeNodeRequest(id)))
		case 'B':
			must("barrier", s.Barrier())
		case 'N':
			f, err := s.Noop("c38")
			must("noop", err)
			must("noop apply", f.Error())
		case 'P':
			// "nothing new to snapshot" and "wait until the configuration entry" are legitimate refusals
			s.Snapshot(0)
		}
		lastNonRead = c38OpName[op]
	}
	linRead(len(h))
	return strings.Join(obs, ","), steps
}

func c38Spell(h string) string {
	if h == "" {
		return "(none)"
	}
	var n []string
	for i := 0; i < len(h); i++ {
		n = append(n, c38OpName[h[i]])
	}
	return strings.Join(n, ", ")
}
