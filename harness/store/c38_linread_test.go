package store

import (
	"context"
	"errors"
	"fmt"
	"strings"
	"sync"
	"testing"
	"time"

	"github.com/hashicorp/raft"
	"github.com/rqlite/rqlite/v10/command/proto"
	"github.com/rqlite/rqlite/v10/internal/random"
	kit "github.com/rqlite/rqlite/v10/internal/verifkit"
)

// C38: on a leader that can reach a quorum a linearizable read completes within
// its timeout without needing any further write - also directly after a
// membership change, a barrier or a snapshot.
//
// Every history up to the explored length over
//
//	W  write (INSERT through Execute)
//	S  strong read
//	L  linearizable read
//	J  join a non-voter (address nobody listens on: quorum stays 1 of 1)
//	R  remove the non-voter joined last (only offered while one is joined)
//	B  barrier
//	N  no-op command
//	P  snapshot
//	X  restart: Close and Open again; the node leads again in a fresh term in which
//	   nothing but raft's own no-op is committed
//	Q  not-ready window: a ready channel is registered (what auto-restore and the
//	   cluster layer do), a strong and a linearizable read are sent - they are refused
//	   with ErrNotReady, which is no violation - then the channel is closed
//	F  slow strong read in flight: a strong read that takes the FSM a good while
//	   (recursive CTE) is started; as soon as its log entry is committed but not yet
//	   applied (commit index > FSM index) a linearizable read is sent through Store.Query and one through Store.Request, each with a 120 s
//	   timeout: it really has to WAIT for an entry that does not change the database.
//	   If the strong read is through before the window is seen, that is counted
//	   (windows_missed) and the read is an ordinary one.
//
// is run on a fresh real single-node Store (bootstrapped, leader, its own
// quorum), followed by one linearizable read. Every linearizable read - the
// final one and those inside the history - must return without error (being
// upgraded to a strong read is a way of completing). The oracle is
// schedule-independent: the node is a healthy leader throughout, so whatever
// raft's goroutines do, the read has to complete.
//
// The read's own timeout is set to 3 s instead of the 1 s default, so that a
// slow machine cannot turn into an alarm: a read that completes does so in
// milliseconds, one that waits for an index that is never signalled times out
// whatever the limit.

const c38ReadTimeout = 3 * time.Second

// the read sent while a slow strong read is being applied has to outlast that query
const c38InFlightTimeout = 120 * time.Second

// The slow strong read has to keep the FSM busy for well over rqlite's default
// linearizable wait of 1 s: its size is calibrated once per run for about 4 s.
var (
	c38SlowOnce sync.Once
	c38SlowRows = 8000000
)

func c38SlowSQL(n int) string {
	return fmt.Sprintf(`WITH RECURSIVE c(x) AS (SELECT 1 UNION ALL SELECT x+1 FROM c WHERE x < %d) SELECT COUNT(*) FROM c`, n)
}

func c38Calibrate(s *Store) {
	c38SlowOnce.Do(func() {
		qr := queryRequestFromString(c38SlowSQL(2000000), false, false, false)
		qr.Level = proto.ConsistencyLevel_NONE
		t0 := time.Now()
		if _, _, _, err := s.Query(context.Background(), qr); err != nil {
			return
		}
		if d := time.Since(t0); d > 0 {
			if n := int(float64(2000000) * float64(4*time.Second) / float64(d)); n > c38SlowRows {
				c38SlowRows = n
			}
		}
	})
}

var c38OpName = map[byte]string{'W': "write", 'S': "strong-read", 'L': "linearizable-read", 'J': "join", 'R': "remove", 'B': "barrier", 'N': "noop-command", 'P': "snapshot",
	'X': "restart", 'Q': "not-ready-window", 'F': "slow-strong-read-in-flight"}

// c38Histories lists every history of length <= depth in which R is only used
// while a joined non-voter exists.
func c38Histories(depth int) []string {
	var out []string
	var rec func(h string, joined int)
	rec = func(h string, joined int) {
		out = append(out, h)
		if len(h) == depth {
			return
		}
		for _, op := range "WSLJRBNPXQF" {
			switch op {
			case 'J':
				rec(h+"J", joined+1)
			case 'R':
				if joined > 0 {
					rec(h+"R", joined-1)
				}
			default:
				rec(h+string(op), joined)
			}
		}
	}
	rec("", 0)
	return out
}

func TestVerif_C38(t *testing.T) {
	r := kit.Start(t, "C38", "hist")
	defer r.Finish()
	depth := r.Pick(2, 3)
	r.Rule(fmt.Sprintf("every history of length <=%d over {write, strong read, linearizable read, join non-voter, remove it, barrier, no-op command, snapshot, restart (fresh term), not-ready window (ready channel registered, a strong and a linearizable read refused, channel closed), slow strong read in flight (a linearizable read sent while a committed strong read is still being applied)} on a fresh real single-node Store, each followed by a linearizable read with no intervening write; every linearizable read must return without error within its 3 s timeout (120 s for the two - one through Store.Query, one through Store.Request - sent while the slow strong read is in flight); reads refused with ErrNotReady inside a not-ready window are not judged. distinct = (history, outcome of each linearizable read)", depth))
	r.Assume("single node: the leader is its own quorum and leads again after a restart; leader changes between nodes and snapshot installs on followers are the cluster part's business")
	r.Add("windows_hit", 0)
	r.Add("windows_missed", 0)
	r.Add("waits_shorter_than_default_timeout", 0)
	r.Note("raft's internal interleavings are whatever each run produced; the oracle does not depend on them")

	hs := c38Histories(depth)
	var mu sync.Mutex
	var wg sync.WaitGroup
	nSetup := 0
	sem := make(chan struct{}, 12)
	for i, h := range hs {
		wg.Add(1)
		sem <- struct{}{}
		go func(i int, h string) {
			defer wg.Done()
			defer func() { <-sem }()
			var obs, setup string
			var steps int
			for attempt := 0; attempt < 3; attempt++ {
				if obs, steps, setup = c38Run(t, r, h); setup == "" {
					break
				}
				t.Logf("history %q attempt %d: %s", h, attempt, setup)
			}
			mu.Lock()
			defer mu.Unlock()
			if setup != "" {
				// the history could not be carried out: no verdict, not a failure
				nSetup++
				r.Cap("history %q could not be carried out three times: %s", h, setup)
				return
			}
			r.Eval(1)
			r.Transition(steps)
			r.Distinct(h + "=>" + obs)
			if i%37 == 0 || strings.Contains(obs, "FAIL") && i%5 == 0 {
				r.Sample(map[string]any{"history": h + "+L", "linearizable_reads": obs})
			}
		}(i, h)
	}
	wg.Wait()
	r.State(len(hs))
	r.Set("histories_not_carried_out", nSetup)
	if nSetup == len(hs) {
		t.Fatalf("harness: no history at all could be carried out")
	}
}

// c38Run runs one history on a fresh Store. setup != "" means the harness could not
// carry the history out (a step of the set-up failed): no verdict.
func c38Run(t *testing.T, r *kit.Run, h string) (retObs string, retSteps int, setup string) {
	defer func() {
		if p := recover(); p != nil {
			if msg, ok := p.(string); ok && strings.HasPrefix(msg, "harness:") {
				setup = msg
				return
			}
			panic(p)
		}
	}()
	s, ln := mustNewStoreAtPathsLn(random.String(), kit.Scratch(t), false)
	defer ln.Close()
	must := func(what string, err error) {
		if err != nil {
			panic(fmt.Sprintf("harness: history %q: %s: %v", h, what, err))
		}
	}
	must("open", s.Open())
	defer s.Close(true)
	must("bootstrap", s.Bootstrap(NewServer(s.ID(), s.Addr(), true)))
	_, err := s.WaitForLeader(60 * time.Second)
	must("leader", err)
	_, _, err = s.Execute(context.Background(), executeRequestFromString("CREATE TABLE t(id INTEGER PRIMARY KEY, v TEXT)", false, false))
	must("create table", err)

	var obs []string
	var joined []string
	steps := 0
	lastNonRead := "create-table-write"
	type linResult struct {
		api  string
		lvl  proto.ConsistencyLevel
		err  error
		took time.Duration
	}
	// doLin sends one linearizable read with its own timeout set on the request
	doLin := func(api string, timeout time.Duration) linResult {
		t0 := time.Now()
		if api == "Request" {
			eqr := executeQueryRequestFromString("SELECT COUNT(*) FROM t", proto.ConsistencyLevel_LINEARIZABLE, false, false, false)
			eqr.LinearizableTimeout = int64(timeout)
			_, _, _, err := s.Request(context.Background(), eqr)
			return linResult{api, eqr.Level, err, time.Since(t0)}
		}
		qr := queryRequestFromString("SELECT COUNT(*) FROM t", false, false, false)
		qr.Level = proto.ConsistencyLevel_LINEARIZABLE
		qr.LinearizableTimeout = int64(timeout)
		_, lvl, _, err := s.Query(context.Background(), qr)
		return linResult{api, lvl, err, time.Since(t0)}
	}
	judgeLin := func(pos int, timeout time.Duration, res linResult) {
		lvl, err := res.lvl, res.err
		steps++
		if err == nil {
			obs = append(obs, "ok:"+lvl.String())
			return
		}
		cls := "other-error"
		if errors.Is(err, ErrWaitForFSMTimeout) {
			cls = "timeout-waiting-for-fsm"
		}
		obs = append(obs, "FAIL:"+cls)
		// the failure class is named after the kind of log entry the read index points at
		ci := s.raft.CommitIndex()
		kind := "unreadable"
		var le raft.Log
		if gerr := s.raftLog.GetLog(ci, &le); gerr == nil {
			kind = strings.TrimPrefix(le.Type.String(), "Log")
		}
		r.Violation(fmt.Sprintf("C38:linearizable-read-fails:%s:commit-index-entry-is-%s", cls, kind),
			fmt.Sprintf("history %s then linearizable read #%d through Store.%s with a %v timeout (last operation: %s): %v after %v on a healthy single-node leader (commit index %d is a %s entry, fsm index %d)",
				c38Spell(h), pos, res.api, timeout, lastNonRead, err, res.took.Round(time.Millisecond), ci, kind, s.fsmIdx.Load()),
			map[string]any{"history": h, "then": "L"})
	}
	linRead := func(pos int) { judgeLin(pos, c38ReadTimeout, doLin("Query", c38ReadTimeout)) }
	for i := 0; i < len(h); i++ {
		op := h[i]
		steps++
		switch op {
		case 'W':
			_, _, err := s.Execute(context.Background(), executeRequestFromString(fmt.Sprintf("INSERT INTO t(v) VALUES('w%d')", i), false, false))
			must("write", err)
		case 'S':
			qr := queryRequestFromString("SELECT COUNT(*) FROM t", false, false, false)
			qr.Level = proto.ConsistencyLevel_STRONG
			_, _, _, err := s.Query(context.Background(), qr)
			must("strong read", err)
		case 'L':
			steps--
			linRead(i)
			continue
		case 'J':
			id := fmt.Sprintf("nv%d", i)
			// one address per joined node (raft refuses duplicates); nothing listens on ports 1..3
			must("join", s.Join(joinRequest(id, fmt.Sprintf("127.0.0.1:%d", i+1), false)))
			joined = append(joined, id)
		case 'R':
			id := joined[len(joined)-1]
			joined = joined[:len(joined)-1]
			must("remove", s.Remove(context.Background(), removeNodeRequest(id)))
		case 'B':
			must("barrier", s.Barrier())
		case 'N':
			f, err := s.Noop("c38")
			must("noop", err)
			must("noop apply", f.Error())
		case 'P':
			// "nothing new to snapshot" and "wait until the configuration entry" are legitimate refusals
			s.Snapshot(0)
		case 'X':
			must("close", s.Close(true))
			must("reopen", s.Open())
			_, err := s.WaitForLeader(60 * time.Second)
			must("leader after restart", err)
			c38Poll(h, "store ready after restart", s.Ready)
		case 'Q':
			ch := make(chan struct{})
			s.RegisterReadyChannel(ch)
			var got []string
			for _, lvl := range []proto.ConsistencyLevel{proto.ConsistencyLevel_STRONG, proto.ConsistencyLevel_LINEARIZABLE} {
				qr := queryRequestFromString("SELECT COUNT(*) FROM t", false, false, false)
				qr.Level = lvl
				qr.LinearizableTimeout = int64(c38ReadTimeout)
				_, _, _, err := s.Query(context.Background(), qr)
				switch {
				case errors.Is(err, ErrNotReady):
					got = append(got, "refused")
				case err == nil:
					got = append(got, "served")
				default:
					got = append(got, "other-error")
				}
			}
			close(ch)
			c38Poll(h, "store ready after the ready channel was closed", s.Ready)
			obs = append(obs, "Q:"+strings.Join(got, "/"))
		case 'F':
			c38Calibrate(s)
			c0 := s.raft.CommitIndex()
			done := make(chan error, 1)
			go func() {
				qr := queryRequestFromString(c38SlowSQL(c38SlowRows), false, false, false)
				qr.Level = proto.ConsistencyLevel_STRONG
				_, _, _, err := s.Query(context.Background(), qr)
				done <- err
			}()
			finished := false
			// the strong read is the next log entry: in flight = committed (commit index beyond
			// c0) and not yet applied (FSM index still below the commit index)
			inFlight := func() bool { ci := s.raft.CommitIndex(); return ci > c0 && s.fsmIdx.Load() < ci }
			for deadline := time.Now().Add(60 * time.Second); !finished && !inFlight(); {
				select {
				case err := <-done:
					must("slow strong read", err)
					finished = true
				default:
					if time.Now().After(deadline) {
						panic(fmt.Sprintf("harness: history %q: slow strong read neither committed nor returned in 60 s", h))
					}
					time.Sleep(100 * time.Microsecond)
				}
			}
			if finished {
				r.Add("windows_missed", 1)
			} else {
				r.Add("windows_hit", 1)
			}
			// the reads under test, one through each entry point, both sent while the FSM is still
			// applying the strong read, each with its own generous timeout on the request
			steps++
			inFlightSince := time.Now()
			resCh := make(chan linResult, 2)
			for _, api := range []string{"Query", "Request"} {
				go func(api string) { resCh <- doLin(api, c38InFlightTimeout) }(api)
			}
			byAPI := map[string]linResult{}
			for k := 0; k < 2; k++ {
				res := <-resCh
				byAPI[res.api] = res
			}
			if !finished && time.Since(inFlightSince) < 1500*time.Millisecond && byAPI["Query"].err == nil && byAPI["Request"].err == nil {
				// the strong read was through sooner than rqlite's default wait of 1 s: the reads had to
				// wait, but not longer than the default would have allowed
				r.Add("waits_shorter_than_default_timeout", 1)
			}
			judgeLin(i, c38InFlightTimeout, byAPI["Query"])
			judgeLin(i, c38InFlightTimeout, byAPI["Request"])
			if !finished {
				select {
				case err := <-done:
					must("slow strong read", err)
				case <-time.After(120 * time.Second):
					panic(fmt.Sprintf("harness: history %q: slow strong read never returned", h))
				}
			}
		}
		lastNonRead = c38OpName[op]
	}
	linRead(len(h))
	return strings.Join(obs, ","), steps, ""
}

func c38Poll(h, what string, ok func() bool) {
	for deadline := time.Now().Add(30 * time.Second); !ok(); {
		if time.Now().After(deadline) {
			panic(fmt.Sprintf("harness: history %q: waited 30 s for: %s", h, what))
		}
		time.Sleep(2 * time.Millisecond)
	}
}

func c38Spell(h string) string {
	if h == "" {
		return "(none)"
	}
	var n []string
	for i := 0; i < len(h); i++ {
		n = append(n, c38OpName[h[i]])
	}
	return strings.Join(n, ", ")
}
