package store

import (
	"bytes"
	"fmt"
	"io"
	"log"
	"os"
	"path/filepath"
	"sort"
	"strings"
	"testing"

	"github.com/rqlite/rqlite/v10/command"
	"github.com/rqlite/rqlite/v10/command/chunking"
	"github.com/rqlite/rqlite/v10/command/proto"
	kit "github.com/rqlite/rqlite/v10/internal/verifkit"
)

// C28 part "abort": the only code that aborts a chunked load is the FSM's
// CommandProcessor (LOAD_CHUNK with abort set). Drive it with real log-entry
// bytes: every stream shape, abort after every prefix, alone / next to a second
// stream in flight / after a rejected chunk; then list the dechunker directory.

func c28aEntry(t *testing.T, lc *proto.LoadChunkRequest) []byte {
	b, err := command.MarshalLoadChunkRequest(lc)
	if err != nil {
		t.Fatalf("marshal chunk: %v", err)
	}
	e, err := command.Marshal(&proto.Command{Type: proto.Command_COMMAND_TYPE_LOAD_CHUNK, SubCommand: b})
	if err != nil {
		t.Fatalf("marshal command: %v", err)
	}
	return e
}

func c28aChunks(t *testing.T, data string, c int) (*chunking.Chunker, []*proto.LoadChunkRequest) {
	ch := chunking.NewChunker(strings.NewReader(data), int64(c))
	var out []*proto.LoadChunkRequest
	for {
		lc, err := ch.Next()
		if err == io.EOF {
			return ch, out
		}
		if err != nil {
			t.Fatalf("chunker: %v", err)
		}
		// copy: the chunker's Data aliases a pooled buffer that its next call overwrites (see part "enum")
		out = append(out, &proto.LoadChunkRequest{StreamId: lc.StreamId, SequenceNum: lc.SequenceNum, IsLast: lc.IsLast, Data: append([]byte(nil), lc.Data...)})
	}
}

func c28aList(dir string) []string {
	ents, _ := os.ReadDir(dir)
	var n []string
	for _, e := range ents {
		n = append(n, e.Name())
	}
	sort.Strings(n)
	return n
}

func c28aErr(resp any) error {
	if g, ok := resp.(*fsmGenericResponse); ok {
		return g.error
	}
	return fmt.Errorf("unexpected response type %T", resp)
}

func TestVerif_C28_abort(t *testing.T) {
	r := kit.Start(t, "C28", "abort")
	defer r.Finish()
	maxC := r.Pick(3, 5)
	r.Rule("for chunk size c in 1..C (quick 3, thorough 5) and every stream length 0..2c+1 (distinct-byte content): the real Chunker's chunks are applied as LOAD_CHUNK log entries through the real CommandProcessor.Process with a real DechunkerManager; the Chunker's Abort() entry is applied after every prefix of p chunks (p=0..k), in three settings: alone; with a second stream q chunks in flight (every q<k2), whose file must survive byte-exact and which must still run to its end; and after a chunk of the aborted stream was rejected (out of order). After the abort the dechunker directory must hold nothing of the aborted stream. distinct = (setting, chunks delivered before abort, total chunks, directory size before abort)")
	logger := log.New(io.Discard, "", 0)
	base := kit.Scratch(t)
	const marker = "0123456789ABCDEFGHIJKLMN"
	n := 0
	for c := 1; c <= maxC; c++ {
		for l := 0; l <= 2*c+1; l++ {
			data := marker[:l]
			other := strings.ToLower(marker[4 : 4+c+1]) // second stream: c+1 bytes => 2 chunks
			ch, chunks := c28aChunks(t, data, c)
			k := len(chunks)
			for p := 0; p <= k; p++ {
				for _, setting := range []string{"alone", "after-rejected-chunk", "second-stream-in-flight"} {
					_, och := c28aChunks(t, other, c)
					qs := []int{0}
					if setting == "second-stream-in-flight" {
						qs = qs[:0]
						for q := 1; q < len(och); q++ {
							qs = append(qs, q)
						}
					}
					if setting == "after-rejected-chunk" && p+1 >= k {
						continue // need a later chunk to deliver out of order
					}
					for _, q := range qs {
						n++
						dir := filepath.Join(base, fmt.Sprintf("d%d", n))
						if err := os.MkdirAll(dir, 0o755); err != nil {
							t.Fatal(err)
						}
						rep := map[string]any{"data": data, "chunk_size": c, "chunks": k, "abort_after": p, "setting": setting, "other_stream_chunks_in_flight": q}
						mgr, err := chunking.NewDechunkerManager(dir)
						if err != nil {
							t.Fatal(err)
						}
						cp := NewCommandProcessor(logger, mgr)
						fail := func(key, what string) {
							r.Violation("C28:abort:"+key+":"+setting, fmt.Sprintf("data %q c=%d abort after %d of %d chunks (%s, q=%d): %s", data, c, p, k, setting, q, what), rep)
						}
						r.Guard("C28:abort:panic:"+setting, rep, func() {
							for i := 0; i < q; i++ {
								if _, _, resp := cp.Process(c28aEntry(t, och[i]), nil); c28aErr(resp) != nil {
									fail("genuine-chunk-refused", fmt.Sprintf("other stream's chunk %d refused: %v", i, c28aErr(resp)))
								}
							}
							for i := 0; i < p; i++ {
								_, _, resp := cp.Process(c28aEntry(t, chunks[i]), nil)
								err := c28aErr(resp)
								if i == k-1 {
									// final chunk of a non-SQLite payload: refused after reassembly, before the swap
									if err == nil || !strings.Contains(err.Error(), "invalid chunked database file") {
										fail("final-chunk-outcome", fmt.Sprintf("final chunk of non-database payload: %v", err))
									}
								} else if err != nil {
									fail("genuine-chunk-refused", fmt.Sprintf("chunk %d refused: %v", i, err))
								}
							}
							if setting == "after-rejected-chunk" {
								_, _, resp := cp.Process(c28aEntry(t, chunks[p+1]), nil)
								if c28aErr(resp) == nil {
									fail("out-of-order-chunk-accepted", fmt.Sprintf("chunk %d delivered when %d was expected and it was accepted", p+2, p+1))
								}
							}
							before := len(c28aList(dir))
							r.Transition(q + p + 1)
							_, _, resp := cp.Process(c28aEntry(t, ch.Abort()), nil)
							if err := c28aErr(resp); err != nil {
								fail("abort-refused", "abort entry returned error: "+err.Error())
							}
							left := c28aList(dir)
							wantFiles := 0
							if q > 0 {
								wantFiles = 1
							}
							if len(left) != wantFiles {
								fail("partial-data-left", fmt.Sprintf("directory after abort holds %v, expected %d file(s)", left, wantFiles))
							}
							if q > 0 && len(left) == 1 {
								got, _ := os.ReadFile(filepath.Join(dir, left[0]))
								want := other
								if q*c < len(other) {
									want = other[:q*c]
								}
								if !bytes.Equal(got, []byte(want)) {
									fail("other-stream-damaged", fmt.Sprintf("the in-flight stream's file holds %q, expected %q", got, want))
								}
								for i := q; i < len(och); i++ {
									_, _, resp := cp.Process(c28aEntry(t, och[i]), nil)
									err := c28aErr(resp)
									if i < len(och)-1 && err != nil {
										fail("other-stream-damaged", fmt.Sprintf("the in-flight stream's chunk %d refused after the abort: %v", i, err))
									}
									if i == len(och)-1 && (err == nil || !strings.Contains(err.Error(), "invalid chunked database file")) {
										fail("other-stream-damaged", fmt.Sprintf("the in-flight stream's final chunk after the abort: %v", err))
									}
								}
								if l2 := c28aList(dir); len(l2) != 0 {
									fail("partial-data-left", fmt.Sprintf("directory after the other stream finished holds %v", l2))
								}
							}
							mgr.Close()
							r.Distinct(fmt.Sprintf("%s|p=%d|k=%d|before=%d|after=%d", setting, p, k, before, len(left)))
							r.SampleEvery(n, map[string]any{"case": rep, "files_before_abort": before, "files_after_abort": left})
						})
						r.Eval(1)
						os.RemoveAll(dir)
					}
				}
			}
		}
	}
}
