package store

import (
	"fmt"
	"strings"
	"time"

	kit "github.com/rqlite/rqlite/v10/internal/verifkit"
)

// C16 part "live", job W ("wiring"): which of its own fields the Store hands to
// the staleness decision, in which order.
//
// Part (a) enumerates the pure function IsStaleRead; the method the Query and
// Request paths call is Store.isStaleRead(freshness, strict), which reads the
// node's leader contact time from raft and four of the Store's own fields (FSM
// update time, appended-at time of the last applied entry, FSM index, index of
// the last command received). On a live cluster (leader + voting follower +
// non-voter, no write in flight, so nothing else touches these fields) the
// harness stores every combination of a small grid into the REAL fields of a
// REAL node and calls the real method:
//
//	FSM update time   now-1s, now-2h
//	appended-at time  never, now-1.1s, now-3s, now-5h, now-90min
//	FSM index         5, 7, 9        received-command index  5, 7, 9
//	freshness         0, 500 ms, 1 h        strict  off, on
//
// on the follower and on the non-voter, first in contact with the leader and
// then cut off for longer than the small bound, and on the leader. Every field
// has values no other field has, and the two times and the two indexes are
// offered in both orders, so that handing any field to the wrong parameter (or
// two of them swapped) changes some decision. Oracle: the reference rule of
// part (a), c16aRef, applied to the values stored and to the node's real leader
// contact time read before and after the call; a leader is never stale.

var c16wUpdate = []time.Duration{time.Second, 2 * time.Hour}

// offsets of the appended-at time before now; c16wNever = the zero time
var c16wAppend = []time.Duration{c16wNever, 1100 * time.Millisecond, 3 * time.Second, 5 * time.Hour, 90 * time.Minute}

const c16wNever = time.Duration(-1)

var c16wIdx = []uint64{5, 7, 9}

type c16wCase struct {
	Job       string `json:"job"`
	Contact   string `json:"contact"`
	Role      string `json:"role"`
	Node      int    `json:"node"`
	Freshness int64  `json:"freshness_ns"`
	Strict    bool   `json:"freshness_strict"`
	Update    string `json:"now_minus_fsm_update_time"`
	Append    string `json:"now_minus_appended_at_time"`
	FSMIndex  uint64 `json:"fsm_index"`
	CmdIndex  uint64 `json:"received_command_index"`
}

func (x *c16lRun) wiringGrid(r *kit.Run, contact string, names [3]string, nodes []int) {
	for _, i := range nodes {
		s := x.c.nodes[i].store()
		for _, f := range c16lFresh {
			for _, strict := range []bool{false, true} {
				for _, uo := range c16wUpdate {
					for _, ao := range c16wAppend {
						for _, fi := range c16wIdx {
							for _, ci := range c16wIdx {
								cs := c16wCase{Job: x.job, Contact: contact, Role: names[i], Node: i, Freshness: f, Strict: strict, Update: uo.String(), Append: ao.String(), FSMIndex: fi, CmdIndex: ci}
								if ao == c16wNever {
									cs.Append = "never"
								}
								for try := 0; ; try++ {
									if x.fresh[i] && names[i] != "leader" {
										x.poll("recent contact from the leader", func() bool { return x.since(i) < time.Duration(c16lSmall)/2 })
									}
									now := time.Now()
									fu := now.Add(-uo)
									aa := time.Time{}
									if ao != c16wNever {
										aa = now.Add(-ao)
									}
									s.fsmUpdateTime.Store(fu)
									s.appendedAtTime.Store(aa)
									s.fsmIdx.Store(fi)
									s.raftTn.commandCommitIndex.Store(ci)
									pre := c16lSnapOf(s)
									var got bool
									r.Guard("C16:live:wiring:panic", cs, func() { got = s.isStaleRead(f, strict) })
									post := c16lSnapOf(s)
									if !pre.fu.Equal(fu) || !post.fu.Equal(fu) || !post.aa.Equal(aa) || post.fi != fi || post.ci != ci {
										// somebody else wrote the fields: not this case
										if try > c16lRetries {
											x.fail("wiring: fields of n%d keep changing", i)
										}
										continue
									}
									want, why := "", ""
									if pre.leader && post.leader {
										want, why = "serve", "leader-never-stale"
									} else if !pre.leader && !post.leader {
										v0, w0 := c16aRef(pre.at, post.lc, fu, aa, fi, ci, f, strict)
										v1, w1 := c16aRef(post.at, pre.lc, fu, aa, fi, ci, f, strict)
										if v0 == v1 && w0 == w1 {
											want, why = "serve", w0
											if v0 == c16aRefuse {
												want = "stale"
											}
										}
									}
									if want == "" {
										if try > c16lRetries {
											x.undec.Add(1)
											break
										}
										continue
									}
									r.Eval(1)
									if k := x.n.Add(1); k%1201 == 7 {
										r.Sample(map[string]any{"case": cs, "documented": want + " (" + why + ")", "isStaleRead": got})
									}
									r.Distinct(fmt.Sprintf("wiring|%s|%s|%s => stale=%v", contact, names[i], why, got))
									if got != (want == "stale") {
										dir := "refused-although:"
										if !got {
											dir = "served-although:"
										}
										r.Violation("C16:live:wiring:"+dir+strings.TrimSuffix(why, ":contact-exactly-at-bound"),
											fmt.Sprintf("%s (node %d), leader contact %s: Store fields set to fsmUpdateTime=now-%s appendedAtTime=now-%s fsmIdx=%d received-command index=%d; isStaleRead(freshness=%v, strict=%v) = %v, documented rule says %s (%s); node: %s",
												names[i], i, contact, cs.Update, cs.Append, fi, ci, time.Duration(f), strict, got, want, why, post), cs)
									}
									break
								}
							}
						}
					}
				}
			}
		}
	}
}

// jobW runs the grid on a cluster of its own (the cluster's bookkeeping is
// overwritten, it is thrown away afterwards).
func (x *c16lRun) jobW() {
	c := x.c
	names, l := x.roles()
	x.caughtUp(0, 1, 2)
	x.fresh = [3]bool{true, true, true}
	x.wiringGrid(x.r, "in-contact", names, []int{0, 1, 2})
	var others []int
	for i := range c.nodes {
		if i != l {
			others = append(others, i)
			c.net.Isolate(i)
		}
	}
	x.fresh = [3]bool{}
	x.poll("follower and non-voter out of contact for longer than the small bound", func() bool {
		return x.since(others[0]) > time.Duration(c16lSmall)*3/2 && x.since(others[1]) > time.Duration(c16lSmall)*3/2
	})
	x.wiringGrid(x.r, "cut-off-longer-than-small-bound", names, others)
	// no heal: the cluster is thrown away as it is (see vxClose)
}
