package store

import (
	"bytes"
	"compress/gzip"
	"context"
	"crypto/sha256"
	"database/sql"
	"encoding/json"
	"fmt"
	"io"
	"os"
	"path/filepath"
	"sort"
	"strings"
	"sync"
	"sync/atomic"
	"testing"
	"time"

	sqlite3 "github.com/mattn/go-sqlite3"
	"github.com/rqlite/rqlite/v10/command/proto"
	"github.com/rqlite/rqlite/v10/internal/random"
	kit "github.com/rqlite/rqlite/v10/internal/verifkit"
)

// C21 part "local": every successful Store.Backup is a complete database equal
// to the committed state after SOME prefix of the acknowledged transactions -
// a prefix that lies between "acknowledged before the backup call started" and
// "started before the backup call returned" - whatever the option combination
// and whatever writes overlap the backup. An error is always an allowed outcome.
//
// Workload: a fixed sequence of 12 multi-statement transactions on a real
// single-node Store. Every transaction changes tables acct_a, acct_b, ledger and
// meta together (a transfer between the two account tables keeps the grand total
// constant, the ledger gets a row, meta.txn is set to the transaction number),
// so a backup that mixes two points in time equals no prefix. Some transactions
// also create a table, write many pages, delete rows (AUTOINCREMENT high-water
// mark above max(id), free pages), create a trigger, store blob/real/NULL/quoted
// text, and drop a table.
//
// Reference: the same statements applied with plain SQLite (database/sql, not
// rqlite code); the logical content after each prefix j = 0..12 is the model.
//
// Modes (one fresh Store per run):
//   seq     backup at every position k=0..12, sequentially (exactly prefix k must
//           come back); additionally after an explicit Snapshot at the scheduled
//           positions (WAL empty / WAL holding several transactions both occur)
//   inject  at every position k the next transaction is executed from INSIDE the
//           m-th Write call the backup makes on its destination, for every m the
//           backup makes (a deterministic overlap at every point of the output
//           stream); the backup must equal prefix k or k+1
//   injectsnap  like inject, and the transaction is followed - still inside the Write -
//           by THREE Store.Snapshot requests (a WAL checkpoint into the main database
//           file), which is what raft triggers on its own at arbitrary moments; a refused
//           request must not make a later one admissible. binary and delete formats
//   injectsnap2 the same with the order snapshot, transaction, snapshot
//   dstfail at position 11 the backup is repeated against a destination that refuses
//           data at byte N, for a stride of N over the whole output plus each of its last
//           300 bytes (and against /dev/full as a real *os.File): a nil return means the
//           bytes the destination accepted restore to the complete database
//   race    at every position k the backup and the next transaction are released
//           together from a barrier in two goroutines (uncontrolled interleaving,
//           schedule-independent oracle)

const c21N = 12

// c21Scratch returns a scratch directory on tmpfs when there is one (a run opens
// a few hundred Stores; their fsyncs are irrelevant to the property).
func c21Scratch(t *testing.T) string {
	if st, err := os.Stat("/dev/shm"); err == nil && st.IsDir() {
		if d, err := os.MkdirTemp("/dev/shm", "verif-c21-"); err == nil {
			t.Cleanup(func() { os.RemoveAll(d) })
			return d
		}
	}
	return kit.Scratch(t)
}

var c21DriverOnce sync.Once

func c21Open(path string) (*sql.DB, error) {
	c21DriverOnce.Do(func() { sql.Register("c21-sqlite3", &sqlite3.SQLiteDriver{}) })
	d, err := sql.Open("c21-sqlite3", "file:"+path)
	if err != nil {
		return nil, err
	}
	d.SetMaxOpenConns(1)
	return d, nil
}

func c21Setup() []string {
	return []string{
		`CREATE TABLE acct_a(id INTEGER PRIMARY KEY, bal INTEGER NOT NULL)`,
		`CREATE TABLE acct_b(id INTEGER PRIMARY KEY, bal INTEGER NOT NULL)`,
		`CREATE TABLE ledger(id INTEGER PRIMARY KEY AUTOINCREMENT, txn INTEGER NOT NULL, amt, note TEXT)`,
		`CREATE INDEX ledger_txn ON ledger(txn)`,
		`CREATE TABLE meta(k TEXT PRIMARY KEY, v)`,
		`CREATE VIEW totals AS SELECT (SELECT SUM(bal) FROM acct_a)+(SELECT SUM(bal) FROM acct_b) AS total`,
		`INSERT INTO acct_a VALUES(1,1000),(2,1000)`,
		`INSERT INTO acct_b VALUES(1,1000),(2,1000)`,
		`INSERT INTO meta VALUES('txn',0)`,
	}
}

// c21Txn returns the statements of transaction i (1..12).
func c21Txn(i int) []string {
	amt := 10*i + 1
	st := []string{
		fmt.Sprintf(`UPDATE acct_a SET bal=bal-%d WHERE id=%d`, amt, 1+i%2),
		fmt.Sprintf(`INSERT INTO ledger(txn,amt,note) VALUES(%d,%d,'n%d')`, i, amt, i),
		fmt.Sprintf(`UPDATE meta SET v=%d WHERE k='txn'`, i),
		fmt.Sprintf(`UPDATE acct_b SET bal=bal+%d WHERE id=%d`, amt, 1+(i/2)%2),
	}
	switch i {
	case 3:
		st = append(st, `CREATE TABLE zz_extra(id INTEGER PRIMARY KEY, payload TEXT)`, `INSERT INTO zz_extra VALUES(1,'first')`)
	case 5:
		st = append(st, `WITH RECURSIVE c(i) AS (SELECT 2 UNION ALL SELECT i+1 FROM c WHERE i<9) INSERT INTO zz_extra(id,payload) SELECT i, printf('%03000d', i) FROM c`)
	case 7:
		st = append(st, `DELETE FROM ledger WHERE id=(SELECT MAX(id) FROM ledger) OR id=2`, `DELETE FROM zz_extra WHERE id%2=0`)
	case 9:
		st = append(st, `CREATE TABLE audit(n INTEGER)`, `INSERT INTO audit VALUES(0)`,
			`CREATE TRIGGER ledger_audit AFTER INSERT ON ledger BEGIN UPDATE audit SET n=n+1; END`)
	case 11:
		st = append(st, `INSERT INTO meta VALUES('blob', x'00ff27')`, `INSERT INTO meta VALUES('real', 0.1)`,
			`INSERT INTO meta VALUES('null', NULL)`, `INSERT INTO meta VALUES('text', 'it''s; "q" -- c' || char(10) || 'line2')`)
	case 12:
		st = append(st, `DROP TABLE zz_extra`)
	}
	return st
}

// c21Canon renders the logical content of a database: schema objects (by type
// and name, with their SQL) and every row of every table, values through quote(),
// rows ordered by value. sel == nil: everything, including sqlite_sequence;
// otherwise only the named tables (schema and rows).
func c21Canon(d *sql.DB, sel []string) (string, error) {
	type obj struct{ typ, name, tbl, sql string }
	rows, err := d.Query(`SELECT type, name, tbl_name, sql FROM sqlite_master WHERE sql NOT NULL ORDER BY type, name`)
	if err != nil {
		return "", err
	}
	var objs []obj
	for rows.Next() {
		var o obj
		if err := rows.Scan(&o.typ, &o.name, &o.tbl, &o.sql); err != nil {
			rows.Close()
			return "", err
		}
		objs = append(objs, o)
	}
	if err := rows.Err(); err != nil {
		return "", err
	}
	rows.Close()
	want := func(o obj) bool {
		if sel == nil {
			return true
		}
		if o.typ != "table" {
			return false
		}
		for _, s := range sel {
			if s == o.name {
				return true
			}
		}
		return false
	}
	var sb strings.Builder
	for _, o := range objs {
		if !want(o) {
			continue
		}
		fmt.Fprintf(&sb, "%s %s on %s: %s\n", o.typ, o.name, o.tbl, o.sql)
		if o.typ != "table" {
			continue
		}
		id := strings.ReplaceAll(o.name, `"`, `""`)
		ti, err := d.Query(fmt.Sprintf(`SELECT name FROM pragma_table_info("%s") ORDER BY cid`, id))
		if err != nil {
			return "", err
		}
		var cols, ords []string
		for ti.Next() {
			var c string
			if err := ti.Scan(&c); err != nil {
				ti.Close()
				return "", err
			}
			cols = append(cols, fmt.Sprintf(`quote("%s")`, strings.ReplaceAll(c, `"`, `""`)))
			ords = append(ords, fmt.Sprint(len(cols)))
		}
		ti.Close()
		if len(cols) == 0 {
			return "", fmt.Errorf("table %s has no columns", o.name)
		}
		dr, err := d.Query(fmt.Sprintf(`SELECT %s FROM "%s" ORDER BY %s`, strings.Join(cols, ","), id, strings.Join(ords, ",")))
		if err != nil {
			return "", err
		}
		vals := make([]sql.NullString, len(cols))
		ptrs := make([]any, len(cols))
		for i := range vals {
			ptrs[i] = &vals[i]
		}
		for dr.Next() {
			if err := dr.Scan(ptrs...); err != nil {
				dr.Close()
				return "", err
			}
			for i, v := range vals {
				if i > 0 {
					sb.WriteByte('|')
				}
				sb.WriteString(v.String)
			}
			sb.WriteByte('\n')
		}
		if err := dr.Err(); err != nil {
			dr.Close()
			return "", err
		}
		dr.Close()
	}
	return sb.String(), nil
}

// selections of the tables filter that are exercised; "" = no filter.
var c21Sels = map[string][]string{
	"":              nil,
	"acct_a,acct_b": {"acct_a", "acct_b"},
	"ledger":        {"ledger"},
	"nosuch":        {"nosuch"},
}

type c21ModelT struct {
	canon [c21N + 1]map[string]string // prefix -> selection key -> logical content
	stubs map[string]string           // table name -> CREATE TABLE text (any prefix)
	total int64
}

var (
	c21ModelOnce sync.Once
	c21Model     *c21ModelT
)

func c21BuildModel(t *testing.T) *c21ModelT {
	c21ModelOnce.Do(func() {
		dir := c21Scratch(t)
		d, err := c21Open(filepath.Join(dir, "model.db"))
		if err != nil {
			t.Fatalf("harness: model: %v", err)
		}
		defer d.Close()
		m := &c21ModelT{stubs: map[string]string{}}
		snap := func(j int) {
			m.canon[j] = map[string]string{}
			for k, sel := range c21Sels {
				c, err := c21Canon(d, sel)
				if err != nil {
					t.Fatalf("harness: model canon: %v", err)
				}
				m.canon[j][k] = c
			}
			rows, err := d.Query(`SELECT name, sql FROM sqlite_master WHERE type='table' AND name NOT LIKE 'sqlite_%'`)
			if err != nil {
				t.Fatalf("harness: model: %v", err)
			}
			for rows.Next() {
				var n, s string
				rows.Scan(&n, &s)
				m.stubs[n] = s
			}
			rows.Close()
			var tot int64
			if err := d.QueryRow(`SELECT total FROM totals`).Scan(&tot); err != nil {
				t.Fatalf("harness: model total: %v", err)
			}
			if j == 0 {
				m.total = tot
			} else if tot != m.total {
				t.Fatalf("harness: workload does not preserve the total: prefix %d has %d, want %d", j, tot, m.total)
			}
		}
		for _, q := range c21Setup() {
			if _, err := d.Exec(q); err != nil {
				t.Fatalf("harness: model setup %q: %v", q, err)
			}
		}
		snap(0)
		for i := 1; i <= c21N; i++ {
			if _, err := d.Exec("BEGIN"); err != nil {
				t.Fatal(err)
			}
			for _, q := range c21Txn(i) {
				if _, err := d.Exec(q); err != nil {
					t.Fatalf("harness: model txn %d %q: %v", i, q, err)
				}
			}
			if _, err := d.Exec("COMMIT"); err != nil {
				t.Fatal(err)
			}
			snap(i)
		}
		// every prefix must be distinguishable under every selection that is judged
		for k := range c21Sels {
			if k == "nosuch" {
				continue
			}
			seen := map[string]int{}
			for j := 0; j <= c21N; j++ {
				if o, dup := seen[m.canon[j][k]]; dup {
					t.Fatalf("harness: prefixes %d and %d look the same under selection %q", o, j, k)
				}
				seen[m.canon[j][k]] = j
			}
		}
		c21Model = m
	})
	return c21Model
}

type c21Combo struct {
	Format   string `json:"format"` // binary | sql | delete
	Vacuum   bool   `json:"vacuum"`
	Compress bool   `json:"compress"`
	Leader   bool   `json:"leader"`
	Tables   string `json:"tables"` // key of c21Sels
	Dst      string `json:"dst"`    // buffer | file
}

func (c c21Combo) String() string {
	s := c.Format
	if c.Vacuum {
		s += "+vacuum"
	}
	if c.Compress {
		s += "+gz"
	}
	if c.Leader {
		s += "+leader"
	}
	if c.Tables != "" {
		s += "+tables=" + c.Tables
	}
	return s + ">" + c.Dst
}

// class names the kind of backup for violation keys.
func (c c21Combo) class() string {
	s := c.Format
	if c.Format == "sql" {
		s = "sql-dump"
		if c.Tables != "" {
			s += "-tables"
		}
	}
	if c.Vacuum {
		s += "-vacuum"
	}
	return s
}

// invalid reports the combinations Store.Backup documents as rejected.
func (c c21Combo) invalid() bool { return c.Vacuum && c.Format != "binary" }

func (c c21Combo) request() *proto.BackupRequest {
	br := &proto.BackupRequest{Vacuum: c.Vacuum, Compress: c.Compress, Leader: c.Leader}
	switch c.Format {
	case "binary":
		br.Format = proto.BackupRequest_BACKUP_REQUEST_FORMAT_BINARY
	case "sql":
		br.Format = proto.BackupRequest_BACKUP_REQUEST_FORMAT_SQL
	case "delete":
		br.Format = proto.BackupRequest_BACKUP_REQUEST_FORMAT_DELETE
	}
	if c.Tables != "" {
		br.Tables = append([]string(nil), c21Sels[c.Tables]...)
	}
	return br
}

func c21Combos() []c21Combo {
	var out []c21Combo
	for _, f := range []string{"binary", "sql", "delete"} {
		for _, vac := range []bool{false, true} {
			for _, gz := range []bool{false, true} {
				for _, ld := range []bool{false, true} {
					for _, dst := range []string{"buffer", "file"} {
						tabs := []string{""}
						if f == "sql" && !vac {
							tabs = []string{"", "acct_a,acct_b", "ledger", "nosuch"}
						}
						for _, tb := range tabs {
							out = append(out, c21Combo{f, vac, gz, ld, tb, dst})
						}
					}
				}
			}
		}
	}
	return out
}

type c21Case struct {
	Combo c21Combo `json:"combo"`
	Mode  string   `json:"mode"`  // seq | inject | injectsnap | injectsnap2 | race | dstfail
	Snaps string   `json:"snaps"` // seq: "none" | "4,9" | "all"
	M     int      `json:"m"`     // inject: index of the Write call that runs the next transaction
}

func (c c21Case) String() string {
	switch c.Mode {
	case "seq":
		return fmt.Sprintf("%s seq snaps=%s", c.Combo, c.Snaps)
	case "inject":
		return fmt.Sprintf("%s inject@write#%d", c.Combo, c.M)
	case "injectsnap":
		return fmt.Sprintf("%s inject+3snapshots@write#%d", c.Combo, c.M)
	case "injectsnap2":
		return fmt.Sprintf("%s snapshot+inject+snapshot@write#%d", c.Combo, c.M)
	case "dstfail":
		return fmt.Sprintf("%s destination refuses at byte N", c.Combo)
	}
	return fmt.Sprintf("%s %s", c.Combo, c.Mode)
}

// verdict of restoring one backup image (cached by content).
type c21Verdict struct {
	bad   string // non-empty: not a usable database, with the reason
	mode  string // non-empty: journal-mode complaint
	match []int  // prefixes whose logical content equals the restored backup
	diff  string // when match is empty: a short description against the nearest prefix
}

type c21Judge struct {
	t     *testing.T
	r     *kit.Run
	m     *c21ModelT
	dir   string
	mu    sync.Mutex
	cache map[[32]byte]*c21Verdict
	seqN  atomic.Int64
}

func (j *c21Judge) restore(c c21Combo, data []byte) *c21Verdict {
	h := sha256.New()
	fmt.Fprintf(h, "%s|%s|", c.Format, c.Tables)
	h.Write(data)
	var key [32]byte
	copy(key[:], h.Sum(nil))
	j.mu.Lock()
	v, ok := j.cache[key]
	j.mu.Unlock()
	if ok {
		return v
	}
	v = j.restoreUncached(c, data)
	j.mu.Lock()
	j.cache[key] = v
	j.mu.Unlock()
	return v
}

func (j *c21Judge) restoreUncached(c c21Combo, data []byte) *c21Verdict {
	v := &c21Verdict{}
	dir := filepath.Join(j.dir, fmt.Sprintf("r%d", j.seqN.Add(1)))
	if err := os.MkdirAll(dir, 0o755); err != nil {
		j.t.Fatalf("harness: %v", err)
	}
	defer os.RemoveAll(dir)
	path := filepath.Join(dir, "restored.db")
	sel := c21Sels[c.Tables]
	var d *sql.DB
	var err error
	if c.Format == "sql" {
		d, err = c21Open(path)
		if err != nil {
			j.t.Fatalf("harness: %v", err)
		}
		defer d.Close()
		conn, err := d.Conn(context.Background())
		if err != nil {
			j.t.Fatalf("harness: %v", err)
		}
		defer conn.Close()
		if sel != nil {
			// a filtered dump carries the indexes/triggers/views of ALL tables (documented
			// simplification in Dump); whether it does is not this property's business, so
			// the tables that were not selected exist as empty stubs when it is executed.
			names := make([]string, 0, len(j.m.stubs))
			for n := range j.m.stubs {
				names = append(names, n)
			}
			sort.Strings(names)
		next:
			for _, n := range names {
				for _, s := range sel {
					if s == n {
						continue next
					}
				}
				if _, err := conn.ExecContext(context.Background(), j.m.stubs[n]); err != nil {
					j.t.Fatalf("harness: stub %s: %v", n, err)
				}
			}
		}
		if _, err := conn.ExecContext(context.Background(), string(data)); err != nil {
			v.bad = "SQL dump does not execute on an empty database: " + err.Error()
			conn.ExecContext(context.Background(), "ROLLBACK")
			return v
		}
		// the dump must have ended its own transaction: a reader of a dump without its COMMIT rolls everything back
		if _, err := conn.ExecContext(context.Background(), "BEGIN IMMEDIATE"); err != nil {
			v.bad = "SQL dump leaves its transaction open (no COMMIT): " + err.Error()
			conn.ExecContext(context.Background(), "ROLLBACK")
			return v
		}
		conn.ExecContext(context.Background(), "ROLLBACK")
		conn.Close()
	} else {
		if len(data) < 100 || string(data[:16]) != "SQLite format 3\x00" {
			v.bad = fmt.Sprintf("not a SQLite file image (%d bytes)", len(data))
			return v
		}
		if c.Format == "delete" && (data[18] != 1 || data[19] != 1) {
			v.mode = fmt.Sprintf("file header read/write version is %d/%d, DELETE (rollback-journal) mode is 1/1", data[18], data[19])
		}
		if err := os.WriteFile(path, data, 0o644); err != nil {
			j.t.Fatalf("harness: %v", err)
		}
		d, err = c21Open(path)
		if err != nil {
			j.t.Fatalf("harness: %v", err)
		}
		defer d.Close()
	}
	var ic string
	if err := d.QueryRow("PRAGMA integrity_check").Scan(&ic); err != nil {
		v.bad = "integrity_check cannot run: " + err.Error()
		return v
	}
	if ic != "ok" {
		v.bad = "integrity_check: " + ic
		return v
	}
	if c.Format != "sql" {
		sel = nil // binary formats ignore the tables filter: a complete database is expected
	}
	got, err := c21Canon(d, sel)
	if err != nil {
		v.bad = "cannot read back: " + err.Error()
		return v
	}
	selKey := c.Tables
	if c.Format != "sql" {
		selKey = ""
	}
	for p := 0; p <= c21N; p++ {
		if j.m.canon[p][selKey] == got {
			v.match = append(v.match, p)
		}
	}
	if len(v.match) == 0 {
		v.diff = c21Describe(d, got, j.m, selKey)
	}
	return v
}

// c21Describe says in a line what a restored backup that equals no prefix looks like.
func c21Describe(d *sql.DB, got string, m *c21ModelT, selKey string) string {
	var parts []string
	q := func(what, query string) {
		var v sql.NullString
		if err := d.QueryRow(query).Scan(&v); err == nil {
			parts = append(parts, what+"="+v.String)
		}
	}
	q("sum(acct_a)", "SELECT SUM(bal) FROM acct_a")
	q("sum(acct_b)", "SELECT SUM(bal) FROM acct_b")
	q("max(ledger.txn)", "SELECT MAX(txn) FROM ledger")
	q("meta.txn", "SELECT v FROM meta WHERE k='txn'")
	// nearest prefix by number of differing lines
	gl := strings.Split(got, "\n")
	best, bestN := -1, 1<<30
	for p := 0; p <= c21N; p++ {
		ml := strings.Split(m.canon[p][selKey], "\n")
		set := map[string]int{}
		for _, l := range ml {
			set[l]++
		}
		n := 0
		for _, l := range gl {
			if set[l] > 0 {
				set[l]--
			} else {
				n++
			}
		}
		for _, c := range set {
			n += c
		}
		if n < bestN {
			best, bestN = p, n
		}
	}
	return fmt.Sprintf("%s (grand total must be %d); nearest prefix %d differs in %d lines", strings.Join(parts, " "), m.total, best, bestN)
}

// c21HookWriter is a backup destination that runs hook from inside its at-th Write call.
type c21HookWriter struct {
	buf    bytes.Buffer
	writes int
	at     int
	hook   func()
	fired  bool
}

func (w *c21HookWriter) Write(p []byte) (int, error) {
	if w.hook != nil && !w.fired && w.writes == w.at {
		w.fired = true
		w.hook()
	}
	w.writes++
	return w.buf.Write(p)
}

type c21Runner struct {
	t       *testing.T
	r       *kit.Run
	j       *c21Judge
	cs      c21Case
	s       *Store
	dir     string
	started atomic.Int64 // transactions whose Execute call has begun
	acked   atomic.Int64 // transactions whose Execute call has returned success
	maxW    int          // most Write calls one backup made
	nBackup int
	nOK     int
	nErr    int
	out     []string // per-position outcome, for the distinct key
}

func (x *c21Runner) exec(stmts []string, what string) {
	resp, _, err := x.s.Execute(context.Background(), executeRequestFromStrings(stmts, false, true))
	if err != nil {
		panic(fmt.Sprintf("harness: %s: %s: %v", x.cs, what, err))
	}
	for i, rr := range resp {
		if e := rr.GetError(); e != "" {
			panic(fmt.Sprintf("harness: %s: %s: statement %d: %s", x.cs, what, i, e))
		}
		if e := rr.GetE().GetError(); e != "" {
			panic(fmt.Sprintf("harness: %s: %s: statement %d %q: %s", x.cs, what, i, stmts[i], e))
		}
	}
}

func (x *c21Runner) txn(i int) {
	x.started.Add(1)
	x.exec(c21Txn(i), fmt.Sprintf("transaction %d", i))
	x.acked.Add(1)
}

// backup takes one backup at position k and judges it. hook (may be nil) is run
// from inside Write call number at of the destination (buffer destinations only).
func (x *c21Runner) backup(k int, tag string, at int, hook func()) (fired bool) {
	c := x.cs.Combo
	lo := int(x.acked.Load())
	var data []byte
	var err error
	var writes int
	if c.Dst == "file" {
		f, ferr := os.CreateTemp(x.dir, "dst-*")
		if ferr != nil {
			x.t.Fatalf("harness: %v", ferr)
		}
		err = x.s.Backup(context.Background(), c.request(), f)
		f.Close()
		data, ferr = os.ReadFile(f.Name())
		if ferr != nil {
			x.t.Fatalf("harness: %v", ferr)
		}
		os.Remove(f.Name())
	} else {
		w := &c21HookWriter{at: at, hook: hook}
		err = x.s.Backup(context.Background(), c.request(), w)
		data, writes, fired = w.buf.Bytes(), w.writes, w.fired
	}
	hi := int(x.started.Load())
	if writes > x.maxW {
		x.maxW = writes
	}
	x.nBackup++
	x.r.Eval(1)
	replay := x.cs
	where := fmt.Sprintf("%s, position %d%s (window: prefix %d..%d)", x.cs, k, tag, lo, hi)
	if err != nil {
		// an error is always an allowed way to end a backup
		x.nErr++
		e := err.Error()
		if len(e) > 60 {
			e = e[:60]
		}
		x.out = append(x.out, fmt.Sprintf("%d%s:error(%s)", k, tag, e))
		return fired
	}
	x.nOK++
	cls := c.class()
	if c.Compress {
		zr, zerr := gzip.NewReader(bytes.NewReader(data))
		var plain []byte
		if zerr == nil {
			plain, zerr = io.ReadAll(zr)
		}
		if zerr != nil {
			x.r.Violation("C21:"+cls+":compressed-stream-corrupt", fmt.Sprintf("%s: Backup returned nil but its %d output bytes are not a complete gzip stream: %v", where, len(data), zerr), replay)
			x.out = append(x.out, fmt.Sprintf("%d%s:badgzip", k, tag))
			return fired
		}
		data = plain
	}
	v := x.j.restore(c, data)
	switch {
	case v.bad != "":
		x.r.Violation("C21:"+cls+":not-a-usable-database", fmt.Sprintf("%s: Backup returned nil but: %s", where, v.bad), replay)
		x.out = append(x.out, fmt.Sprintf("%d%s:unusable", k, tag))
		return fired
	case len(v.match) == 0:
		x.r.Violation("C21:"+cls+":equals-no-committed-state", fmt.Sprintf("%s: the restored backup equals no prefix of the committed transactions: %s", where, v.diff), replay)
		x.out = append(x.out, fmt.Sprintf("%d%s:torn", k, tag))
		return fired
	}
	in := -1
	for _, p := range v.match {
		if p >= lo && p <= hi {
			in = p
		}
	}
	if in < 0 {
		kind := "older-than-acknowledged"
		if v.match[0] > hi {
			kind = "newer-than-started"
		}
		x.r.Violation("C21:"+cls+":"+kind, fmt.Sprintf("%s: the restored backup equals prefix %v", where, v.match), replay)
		x.out = append(x.out, fmt.Sprintf("%d%s:=%v!", k, tag, v.match))
		return fired
	}
	if v.mode != "" {
		x.r.Violation("C21:"+cls+":not-delete-mode", fmt.Sprintf("%s: %s", where, v.mode), replay)
	}
	if x.cs.Mode == "race" {
		x.out = append(x.out, fmt.Sprintf("%d%s:ok", k, tag)) // which of k / k+1 is the schedule's choice
	} else if len(v.match) > 1 {
		x.out = append(x.out, fmt.Sprintf("%d%s:ok-any", k, tag))
	} else {
		x.out = append(x.out, fmt.Sprintf("%d%s:=+%d", k, tag, in-k))
	}
	return fired
}

// position of the workload at which the destination-failure sweep runs: the largest
// database of the workload (the big table still exists), a dump of several buffers' length
const c21DstFailPos = 11

// c21RefusingWriter accepts limit bytes in total and refuses everything after them.
type c21RefusingWriter struct {
	buf     bytes.Buffer
	limit   int
	refused bool
}

var errC21Refused = fmt.Errorf("c21: destination refuses further data")

func (w *c21RefusingWriter) Write(p []byte) (int, error) {
	rem := w.limit - w.buf.Len()
	if len(p) <= rem {
		return w.buf.Write(p)
	}
	w.refused = true
	if rem > 0 {
		w.buf.Write(p[:rem])
		return rem, errC21Refused
	}
	return 0, errC21Refused
}

// complete reports whether data (as written by a backup of shape c) is a complete backup equal to prefix k.
func (x *c21Runner) complete(c c21Combo, data []byte, k int) (bool, string) {
	if c.Compress {
		zr, err := gzip.NewReader(bytes.NewReader(data))
		var plain []byte
		if err == nil {
			plain, err = io.ReadAll(zr)
		}
		if err != nil {
			return false, fmt.Sprintf("they are not a complete gzip stream (%v)", err)
		}
		data = plain
	}
	v := x.j.restore(c, data)
	switch {
	case v.bad != "":
		return false, v.bad
	case len(v.match) == 0:
		return false, "they restore to no committed state: " + v.diff
	}
	for _, p := range v.match {
		if p == k {
			return true, ""
		}
	}
	return false, fmt.Sprintf("they restore to prefix %v, not %d", v.match, k)
}

func (x *c21Runner) dstFail(k int) {
	c := x.cs.Combo
	var ref bytes.Buffer
	if err := x.s.Backup(context.Background(), c.request(), &ref); err != nil {
		x.nErr++
		x.out = append(x.out, "reference:error") // allowed; nothing to sweep
		return
	}
	x.nBackup++
	x.r.Eval(1)
	if ok, why := x.complete(c, ref.Bytes(), k); !ok {
		x.r.Violation("C21:"+c.class()+":not-a-usable-database", fmt.Sprintf("%s, position %d: Backup returned nil but of its %d output bytes: %s", x.cs, k, ref.Len(), why), x.cs)
		x.out = append(x.out, "reference:bad")
		return
	}
	L := ref.Len()
	set := map[int]bool{}
	stride := L / 64
	if stride < 1 {
		stride = 1
	}
	for n := 0; n < L; n += stride {
		set[n] = true
	}
	for n := L - 300; n < L; n++ {
		if n >= 0 {
			set[n] = true
		}
	}
	ns := make([]int, 0, len(set))
	for n := range set {
		ns = append(ns, n)
	}
	sort.Ints(ns)
	var nErr, nilComplete, nilIncomplete int
	for _, n := range ns {
		w := &c21RefusingWriter{limit: n}
		err := x.s.Backup(context.Background(), c.request(), w)
		x.nBackup++
		x.r.Eval(1)
		if err != nil {
			nErr++
			continue
		}
		if ok, why := x.complete(c, w.buf.Bytes(), k); ok {
			nilComplete++ // e.g. only a final newline was refused
		} else {
			nilIncomplete++
			x.r.Violation("C21:"+c.class()+":destination-failure-reported-success",
				fmt.Sprintf("%s, position %d: the destination accepted %d bytes and refused the rest (the complete output has %d), Backup returned nil, but of the accepted bytes: %s", x.cs, k, w.buf.Len(), L, why), x.cs)
		}
	}
	x.nErr += nErr
	x.nOK += nilComplete + nilIncomplete
	x.out = append(x.out, fmt.Sprintf("output=%dB cuts=%d error=%d nil-but-complete=%d nil-INCOMPLETE=%d", L, len(ns), nErr, nilComplete, nilIncomplete))
	// a real *os.File that refuses everything
	if f, err := os.OpenFile("/dev/full", os.O_WRONLY, 0); err == nil {
		berr := x.s.Backup(context.Background(), c.request(), f)
		f.Close()
		x.nBackup++
		x.r.Eval(1)
		if berr == nil {
			x.r.Violation("C21:"+c.class()+":destination-failure-reported-success",
				fmt.Sprintf("%s, position %d: the destination is /dev/full (every write fails with ENOSPC), Backup returned nil", x.cs, k), x.cs)
			x.out = append(x.out, "devfull:nil")
		} else {
			x.out = append(x.out, "devfull:error")
		}
	}
}

func (x *c21Runner) run() {
	s, ln := mustNewStoreAtPathsLn(random.String(), c21Scratch(x.t), false)
	defer ln.Close()
	must := func(what string, err error) {
		if err != nil {
			panic(fmt.Sprintf("harness: %s: %s: %v", x.cs, what, err))
		}
	}
	must("open", s.Open())
	defer s.Close(true)
	must("bootstrap", s.Bootstrap(NewServer(s.ID(), s.Addr(), true)))
	_, err := s.WaitForLeader(60 * time.Second)
	must("leader", err)
	x.s = s
	x.dir = c21Scratch(x.t)
	x.exec(c21Setup(), "setup")
	if x.cs.Mode == "dstfail" {
		for i := 1; i <= c21DstFailPos; i++ {
			x.txn(i)
		}
		x.dstFail(c21DstFailPos)
		return
	}

	snapAt := map[int]bool{}
	switch x.cs.Snaps {
	case "4,9":
		snapAt[4], snapAt[9] = true, true
	case "all":
		for k := 0; k <= c21N; k++ {
			snapAt[k] = true
		}
	}
	for k := 0; k <= c21N; k++ {
		switch {
		case x.cs.Mode == "seq" || k == c21N:
			x.backup(k, "", -1, nil)
			if x.cs.Mode == "seq" && snapAt[k] {
				if err := s.Snapshot(0); err != nil && err != ErrNothingNewToSnapshot && err != ErrNoWALToSnapshot {
					panic(fmt.Sprintf("harness: %s: snapshot at %d: %v", x.cs, k, err))
				}
				x.backup(k, "s", -1, nil)
			}
			if k < c21N {
				x.txn(k + 1)
			}
		case x.cs.Mode == "inject" || x.cs.Mode == "injectsnap" || x.cs.Mode == "injectsnap2":
			done := make(chan struct{})
			hook := func() {
				// the transaction runs while the backup is inside Write; should a backup ever
				// block writers, the write is left to finish in the background
				go func() {
					defer close(done)
					// snapshot requests are refused while a backup holds the snapshot gate: any
					// outcome of theirs is fine, the backup is what is judged
					switch x.cs.Mode {
					case "inject":
						x.txn(k + 1)
					case "injectsnap":
						x.txn(k + 1)
						s.Snapshot(0)
						s.Snapshot(0)
						s.Snapshot(0)
					case "injectsnap2":
						s.Snapshot(0)
						x.txn(k + 1)
						s.Snapshot(0)
					}
				}()
				select {
				case <-done:
				case <-time.After(20 * time.Second):
				}
			}
			if fired := x.backup(k, "", x.cs.M, hook); fired {
				<-done
			} else {
				x.txn(k + 1)
			}
		case x.cs.Mode == "race":
			gate := make(chan struct{})
			var wg sync.WaitGroup
			wg.Add(2)
			go func() { defer wg.Done(); <-gate; x.backup(k, "", -1, nil) }()
			go func() { defer wg.Done(); <-gate; x.txn(k + 1) }()
			close(gate)
			wg.Wait()
		}
	}
}

func TestVerif_C21(t *testing.T) {
	r := kit.Start(t, "C21", "local")
	defer r.Finish()
	m := c21BuildModel(t)
	j := &c21Judge{t: t, r: r, m: m, dir: c21Scratch(t), cache: map[[32]byte]*c21Verdict{}}
	r.Rule("full product format{binary,sql,delete} x vacuum x compress x leader-flag x destination{io.Writer,*os.File} x (sql: tables filter {none, two tables, one table, unknown table}) = 72 request shapes, each on a fresh real single-node Store running a fixed workload of 12 invariant-preserving multi-statement transactions; seq: backup at every position 0..12 (and again after an explicit Snapshot at the scheduled positions); inject: for every Write call index m the backup makes on its destination, the next transaction is executed from inside that Write, at every position (binary/delete formats: also with three Store.Snapshot requests after it, and as snapshot-transaction-snapshot); dstfail: at position 11 the backup repeated against a destination refusing data at byte N (stride of 1/64 of the output plus each of its last 300 bytes; /dev/full as *os.File), a nil return must have delivered a complete backup; race: backup and next transaction released together, at every position. Every backup that returns nil is decompressed, opened with SQLite (integrity_check) or executed into an empty database, and its logical content (schema + all rows) must equal the reference content after a prefix j of the transactions with acknowledged-before-call <= j <= started-before-return. distinct = (request shape, mode, per-position outcome)")
	r.Assume("single node (leader); the Leader flag is therefore always satisfiable")
	r.Note("an error return is always accepted; filtered SQL dumps are executed into a database in which the unselected tables exist empty (whether a filtered dump should carry other tables' indexes/triggers is not judged); in mode race, and inside SQLite/raft in all modes, the interleaving is whatever the run produced - the oracle does not depend on it")

	if raw := kit.Replay(); raw != nil {
		var cs c21Case
		if err := json.Unmarshal(raw, &cs); err != nil {
			t.Fatal(err)
		}
		x := &c21Runner{t: t, r: r, j: j, cs: cs}
		x.run()
		t.Logf("replay %s: %v", cs, x.out)
		return
	}

	combos := c21Combos()
	var mu sync.Mutex
	maxW := map[c21Combo]int{}
	var nOK, nErr, nBackup, invalidOK int
	unexpectedErr := map[string]int{}
	runAll := func(cases []c21Case, workers int) {
		var wg sync.WaitGroup
		sem := make(chan struct{}, workers)
		outs := make([]string, len(cases))
		for i, cs := range cases {
			wg.Add(1)
			sem <- struct{}{}
			go func(i int, cs c21Case) {
				defer wg.Done()
				defer func() { <-sem }()
				x := &c21Runner{t: t, r: r, j: j, cs: cs}
				x.run()
				mu.Lock()
				defer mu.Unlock()
				if x.maxW > maxW[cs.Combo] {
					maxW[cs.Combo] = x.maxW
				}
				nOK += x.nOK
				nErr += x.nErr
				nBackup += x.nBackup
				if cs.Combo.invalid() {
					invalidOK += x.nOK
				} else if x.nErr > 0 {
					for _, o := range x.out {
						if strings.Contains(o, ":error(") {
							unexpectedErr[cs.Mode+" "+o[strings.Index(o, ":error("):]]++
						}
					}
				}
				outs[i] = strings.Join(x.out, " ")
				r.Transition(c21N + 1)
			}(i, cs)
		}
		wg.Wait()
		for i, cs := range cases {
			r.Distinct(cs.String() + " => " + outs[i])
			if cs.Mode == "dstfail" {
				t.Logf("%s: %s", cs, outs[i])
			}
			if i%29 == 0 {
				r.Sample(map[string]any{"case": cs.String(), "outcomes": outs[i]})
			}
		}
	}

	const workers = 32
	// seq
	var seq []c21Case
	scheds := []string{"4,9"}
	if r.Thorough() {
		scheds = []string{"none", "4,9", "all"}
	}
	for _, c := range combos {
		for _, sc := range scheds {
			if c.invalid() && sc != "4,9" {
				continue
			}
			seq = append(seq, c21Case{Combo: c, Mode: "seq", Snaps: sc})
		}
	}
	runAll(seq, workers)

	// inject: every Write index of every buffer-destination shape; the Leader flag is
	// varied in thorough only (it is consulted before any output is produced)
	var inj []c21Case
	for _, c := range combos {
		if c.invalid() || c.Dst != "buffer" || c.Tables == "nosuch" {
			continue
		}
		if c.Leader && !r.Thorough() {
			continue
		}
		n := maxW[c]
		for mm := 0; mm < n; mm++ {
			inj = append(inj, c21Case{Combo: c, Mode: "inject", M: mm})
		}
	}
	for _, c := range combos {
		if c.invalid() || c.Dst != "buffer" || c.Format == "sql" || (c.Leader && !r.Thorough()) {
			continue
		}
		for mm := 0; mm < maxW[c]; mm++ {
			inj = append(inj, c21Case{Combo: c, Mode: "injectsnap", M: mm}, c21Case{Combo: c, Mode: "injectsnap2", M: mm})
		}
	}
	runAll(inj, workers)

	// dstfail
	var dstf []c21Case
	for _, c := range combos {
		if c.invalid() || c.Dst != "buffer" || c.Leader || c.Tables == "nosuch" {
			continue
		}
		if !r.Thorough() && (c.Vacuum || c.Format == "delete" || c.Tables != "") {
			continue
		}
		dstf = append(dstf, c21Case{Combo: c, Mode: "dstfail"})
	}
	runAll(dstf, workers)
	r.Set("store_runs_dstfail", len(dstf))

	// race
	var race []c21Case
	reps := r.Pick(1, 4)
	for _, c := range combos {
		if c.invalid() || c.Tables == "nosuch" || (c.Leader && !r.Thorough()) {
			continue
		}
		for i := 0; i < reps; i++ {
			race = append(race, c21Case{Combo: c, Mode: "race", M: i})
		}
	}
	runAll(race, workers)

	r.State(len(seq) + len(inj) + len(race) + len(dstf))
	r.Set("store_runs_seq", len(seq))
	r.Set("store_runs_inject", len(inj))
	r.Set("store_runs_race", len(race))
	r.Set("backups_taken", nBackup)
	r.Set("request_shapes", len(combos))
	if invalidOK > 0 {
		r.Note("%d backups of a documented-invalid combination (vacuum with a non-binary format) succeeded and were judged like any other", invalidOK)
	}
	keys := make([]string, 0, len(unexpectedErr))
	for k := range unexpectedErr {
		keys = append(keys, k)
	}
	sort.Strings(keys)
	for _, k := range keys {
		t.Logf("backup of a valid request shape ended in an error (allowed): %s x%d", k, unexpectedErr[k])
	}
	t.Logf("C21 local: backups=%d ok=%d error=%d restore-cache=%d", nBackup, nOK, nErr, len(j.cache))
}
