package store

import (
	"context"
	"crypto/sha256"
	"encoding/hex"
	"encoding/json"
	"errors"
	"fmt"
	"io"
	"net"
	"os"
	"path/filepath"
	"sort"
	"strings"
	"sync"
	"testing"
	"time"

	"github.com/hashicorp/raft"
	"github.com/rqlite/rqlite/v10/command/proto"
	sql "github.com/rqlite/rqlite/v10/db"
	kit "github.com/rqlite/rqlite/v10/internal/verifkit"
)

// C33: recovering a node from a peers file rebuilds its database from the
// latest snapshot plus all log entries after it, so the recovered node holds
// everything it had applied, and the node starts with exactly the configuration
// in the peers file.
//
// Every history up to the explored length over
//
//	W  write: one request that inserts a row with an automatic id, increments a
//	   counter (not idempotent: replaying it twice or not at all is visible) and
//	   inserts then deletes a parent row whose child row goes with it (the Store runs
//	   with foreign-key constraints on: replaying it without them is visible)
//	M  write 200 rows of ~130 bytes in one statement (several database pages)
//	S  snapshot
//	L  load a database file (two different files, alternating by position)
//	J  join a non-voter whose address nobody listens on (a configuration entry in the log)
//	R  remove the non-voter joined last (only offered while one is joined)
//
// runs on a fresh real single-node Store, which is then closed - once with the
// snapshot-on-close switched off (the log tail stays in the log) and once with
// it on. The closed data directory is then recovered with generated peers
// files:
//
//	chain     peers.json = this node, same address  -> reopen, wait for leadership
//	          -> close -> peers.json = this node, NEW address -> reopen (second
//	          recovery in a row) -> one more W -> close -> plain restart
//	3voters   (copy of the closed directory) this node + two voters nobody runs;
//	          then, same copy: this node alone at the same address -> leader, W,
//	          close, plain restart
//	2v+1nv    (copy) another voter first, this node, a non-voter; then, same copy:
//	          the 3-voter file; then this node alone at a NEW address -> leader,
//	          W, close, plain restart
//	          (under a multi-node file no leader forms, so the next recovery starts
//	          from a log that ends before the newest snapshot)
//
// With the multi-node files the node cannot elect itself; data is read with a
// NONE-level query and the configuration from raft, without waiting for a leader.
//
// Oracle, evaluated after every reopen: the logical dump (schema and every row of
// every table) equals the dump taken just before the preceding shutdown (and the
// extra W has exactly its effect); the raft configuration is exactly the set of
// (id, address, suffrage) in the peers file just used.

// The Store runs with foreign-key constraints switched on; p/k make the effect of a
// write depend on that setting (deleting the parent row removes the child row).
const c33Schema = "CREATE TABLE t(id INTEGER PRIMARY KEY, v TEXT);CREATE TABLE c(n INTEGER);CREATE TABLE p(id INTEGER PRIMARY KEY);CREATE TABLE k(id INTEGER PRIMARY KEY, p INTEGER REFERENCES p(id) ON DELETE CASCADE)"

// c33Write is operation W (tag names the row, n is a fresh parent id).
func c33Write(tag string, n int) []string {
	return []string{
		fmt.Sprintf("INSERT INTO t(v) VALUES('%s')", tag),
		"UPDATE c SET n=n+1",
		fmt.Sprintf("INSERT INTO p(id) VALUES(%d)", n),
		fmt.Sprintf("INSERT INTO k(p) VALUES(%d)", n),
		fmt.Sprintf("DELETE FROM p WHERE id=%d", n), // with foreign keys on, the k row goes too
	}
}

var c33OpName = map[byte]string{'W': "write", 'M': "write-200-rows", 'S': "snapshot", 'L': "load", 'J': "join-nonvoter", 'R': "remove-nonvoter"}

// c33Port owns one real listener for the whole life of a case, so that a node can be
// stopped and started again on the same address without the port being taken
// by somebody else in between. Every Store gets its own c33Layer; connections are
// handed to the layer that is current, and are closed while no Store is open.
type c33Port struct {
	ln  net.Listener
	mu  sync.Mutex
	cur *c33Layer
}

type c33Layer struct {
	port *c33Port
	ch   chan net.Conn
	done chan struct{}
	once sync.Once
}

func c33NewPort() *c33Port {
	ln, err := net.Listen("tcp", "127.0.0.1:0")
	if err != nil {
		panic(fmt.Sprintf("harness: cannot listen: %v", err))
	}
	p := &c33Port{ln: ln}
	go func() {
		for {
			conn, err := ln.Accept()
			if err != nil {
				return
			}
			p.mu.Lock()
			l := p.cur
			p.mu.Unlock()
			if l == nil {
				conn.Close()
				continue
			}
			select {
			case l.ch <- conn:
			case <-l.done:
				conn.Close()
			}
		}
	}()
	return p
}

// layer returns a fresh Layer on the port; it becomes the one that receives connections.
func (p *c33Port) layer() *c33Layer {
	l := &c33Layer{port: p, ch: make(chan net.Conn), done: make(chan struct{})}
	p.mu.Lock()
	p.cur = l
	p.mu.Unlock()
	return l
}

func (p *c33Port) release() { p.ln.Close() }

func (l *c33Layer) Dial(addr string, timeout time.Duration) (net.Conn, error) {
	return net.DialTimeout("tcp", addr, timeout)
}

func (l *c33Layer) Accept() (net.Conn, error) {
	select {
	case c := <-l.ch:
		return c, nil
	case <-l.done:
		return nil, net.ErrClosed
	}
}

func (l *c33Layer) Close() error {
	l.once.Do(func() { close(l.done) })
	return nil
}

func (l *c33Layer) Addr() net.Addr { return l.port.ln.Addr() }

// c33WaitLeader waits (up to 60 s) until the store is the leader.
func c33WaitLeader(s *Store) error {
	deadline := time.Now().Add(60 * time.Second)
	for s.raft.State() != raft.Leader {
		if time.Now().After(deadline) {
			return ErrWaitForLeaderTimeout
		}
		time.Sleep(5 * time.Millisecond)
	}
	_, err := s.WaitForLeader(60 * time.Second)
	return err
}

type c33Peer struct {
	ID       string `json:"id"`
	Address  string `json:"address"`
	NonVoter bool   `json:"non_voter,omitempty"`
}

func c33PeerSet(ps []c33Peer) string {
	var out []string
	for _, p := range ps {
		sf := "Voter"
		if p.NonVoter {
			sf = "Nonvoter"
		}
		out = append(out, fmt.Sprintf("%s@%s/%s", p.ID, p.Address, sf))
	}
	sort.Strings(out)
	return strings.Join(out, " ")
}

func c33ConfigSet(s *Store) (string, error) {
	f := s.raft.GetConfiguration()
	if err := f.Error(); err != nil {
		return "", err
	}
	var out []string
	for _, sv := range f.Configuration().Servers {
		out = append(out, fmt.Sprintf("%s@%s/%s", sv.ID, sv.Address, sv.Suffrage))
	}
	sort.Strings(out)
	return strings.Join(out, " "), nil
}

// c33Histories lists every history of length <= depth; R only while a non-voter is joined.
func c33Histories(depth int) []string {
	var out []string
	var rec func(h string, joined int)
	rec = func(h string, joined int) {
		out = append(out, h)
		if len(h) == depth {
			return
		}
		for _, op := range "WMSLJR" {
			switch op {
			case 'J':
				rec(h+"J", joined+1)
			case 'R':
				if joined > 0 {
					rec(h+"R", joined-1)
				}
			default:
				rec(h+string(op), joined)
			}
		}
	}
	rec("", 0)
	return out
}

// c33MakeDB builds a database file with the harness schema, rows 1..n of t and counter c.
func c33MakeDB(dir, name string, n int, tag string, counter int) []byte {
	p := filepath.Join(dir, name)
	d, err := sql.Open(p, false, false)
	if err != nil {
		panic(err)
	}
	qs := strings.Split(c33Schema, ";")
	for i := 1; i <= n; i++ {
		qs = append(qs, fmt.Sprintf("INSERT INTO t(id,v) VALUES(%d,'%s%d')", i, tag, i))
	}
	qs = append(qs, fmt.Sprintf("INSERT INTO c(n) VALUES(%d)", counter))
	for _, q := range qs {
		if r, err := d.ExecuteStringStmt(q); err != nil || r[0].GetError() != "" {
			panic(fmt.Sprintf("harness: %s: %v %v", q, err, r))
		}
	}
	if err := d.Close(); err != nil {
		panic(err)
	}
	b, err := os.ReadFile(p)
	if err != nil {
		panic(err)
	}
	return b
}

// c33Model is the reference: rows of t in id order and the counter.
type c33Model struct {
	ids []int
	vs  []string
	n   int
}

func (m *c33Model) next() int {
	if len(m.ids) == 0 {
		return 1
	}
	return m.ids[len(m.ids)-1] + 1
}

func (m *c33Model) add(v string) {
	m.ids = append(m.ids, m.next())
	m.vs = append(m.vs, v)
}

func (m *c33Model) clone() *c33Model {
	return &c33Model{ids: append([]int(nil), m.ids...), vs: append([]string(nil), m.vs...), n: m.n}
}

func (m *c33Model) tables() string {
	var b strings.Builder
	b.WriteString("[c]\n")
	fmt.Fprintf(&b, "%d\n", m.n)
	b.WriteString("[k]\n[p]\n[t]\n")
	for i := range m.ids {
		fmt.Fprintf(&b, "%d|%s\n", m.ids[i], m.vs[i])
	}
	return b.String()
}

func c33Hash(s string) string {
	h := sha256.Sum256([]byte(s))
	return hex.EncodeToString(h[:6])
}

// c33Dump is the logical dump of a node, read locally (NONE): the schema and every
// row of every table. It returns the schema part and the table part.
func c33Dump(s *Store) (schema string, tables string, err error) {
	q := func(stmt string) (*proto.QueryRows, error) {
		qr := queryRequestFromString(stmt, false, false, false)
		qr.Level = proto.ConsistencyLevel_NONE
		rows, _, _, err := s.Query(context.Background(), qr)
		if err != nil {
			return nil, err
		}
		if len(rows) != 1 {
			return nil, fmt.Errorf("%d results", len(rows))
		}
		if rows[0].Error != "" {
			return nil, errors.New(rows[0].Error)
		}
		return rows[0], nil
	}
	cell := func(p *proto.Parameter) string {
		switch v := p.GetValue().(type) {
		case *proto.Parameter_I:
			return fmt.Sprintf("%d", v.I)
		case *proto.Parameter_D:
			return fmt.Sprintf("%g", v.D)
		case *proto.Parameter_S:
			return v.S
		case *proto.Parameter_Y:
			return "x" + hex.EncodeToString(v.Y)
		case *proto.Parameter_B:
			return fmt.Sprintf("%v", v.B)
		}
		return "NULL"
	}
	m, err := q("SELECT type, name, tbl_name, sql FROM sqlite_master ORDER BY type, name")
	if err != nil {
		return "", "", fmt.Errorf("reading schema: %v", err)
	}
	var sb, tb strings.Builder
	var tables2 []string
	for _, r := range m.Values {
		var cs []string
		for _, p := range r.Parameters {
			cs = append(cs, cell(p))
		}
		sb.WriteString(strings.Join(cs, "|") + "\n")
		if cs[0] == "table" {
			tables2 = append(tables2, cs[1])
		}
	}
	for _, tn := range tables2 {
		rows, err := q(fmt.Sprintf("SELECT * FROM %q ORDER BY rowid", tn))
		if err != nil {
			return "", "", fmt.Errorf("reading table %s: %v", tn, err)
		}
		fmt.Fprintf(&tb, "[%s]\n", tn)
		for _, r := range rows.Values {
			var cs []string
			for _, p := range r.Parameters {
				cs = append(cs, cell(p))
			}
			tb.WriteString(strings.Join(cs, "|") + "\n")
		}
	}
	return sb.String(), tb.String(), nil
}

func c33CopyDir(src, dst string) {
	err := filepath.Walk(src, func(p string, fi os.FileInfo, err error) error {
		if err != nil {
			return err
		}
		rel, _ := filepath.Rel(src, p)
		q := filepath.Join(dst, rel)
		if fi.IsDir() {
			return os.MkdirAll(q, 0o755)
		}
		in, err := os.Open(p)
		if err != nil {
			return err
		}
		defer in.Close()
		out, err := os.OpenFile(q, os.O_CREATE|os.O_WRONLY|os.O_TRUNC, fi.Mode())
		if err != nil {
			return err
		}
		if _, err := io.Copy(out, in); err != nil {
			out.Close()
			return err
		}
		if err := out.Close(); err != nil {
			return err
		}
		// the clean-snapshot fingerprint records the modification time of the database file
		return os.Chtimes(q, fi.ModTime(), fi.ModTime())
	})
	if err != nil {
		panic(fmt.Sprintf("harness: copy %s: %v", src, err))
	}
}

func c33NewStore(dir, id string, ly Layer, noSnapOnClose bool) *Store {
	cfg := NewDBConfig()
	cfg.FKConstraints = true
	s := New(&Config{DBConf: cfg, Dir: dir, ID: id}, ly)
	s.NoSnapshotOnClose = noSnapOnClose
	// a lone voter: short timeouts only shorten its self-election
	s.HeartbeatTimeout = 100 * time.Millisecond
	s.ElectionTimeout = 100 * time.Millisecond
	s.LeaderLeaseTimeout = 100 * time.Millisecond
	return s
}

// c33ScratchRoot returns the directory under which every case makes its own
// sub-directory. The property is about content, not durability, while the code
// under test fsyncs everything it writes, so a memory-backed directory is used
// when there is one (VERIF_NO_SHM=1 forces the regular scratch location).
func c33ScratchRoot(t *testing.T) string {
	if os.Getenv("VERIF_NO_SHM") == "" {
		if st, err := os.Stat("/dev/shm"); err == nil && st.IsDir() {
			old, _ := filepath.Glob("/dev/shm/verif-c33-*")
			for _, o := range old {
				if fi, err := os.Stat(o); err == nil && time.Since(fi.ModTime()) > 2*time.Hour {
					os.RemoveAll(o)
				}
			}
			if d, err := os.MkdirTemp("/dev/shm", "verif-c33-"); err == nil {
				t.Cleanup(func() { os.RemoveAll(d) })
				return d
			}
		}
	}
	return kit.Scratch(t)
}

// c33Abandon releases what an Open that returned an error left behind (the
// process would have exited): file locks, goroutines, the listener.
func c33Abandon(s *Store) {
	defer func() { recover() }()
	if s.raftTn != nil {
		s.raftTn.Close()
	}
	if s.db != nil {
		s.db.Close()
	}
	if s.snapshotStore != nil {
		s.snapshotStore.Close()
	}
	if s.boltStore != nil {
		s.boltStore.Close()
	}
	if s.dechunkManager != nil {
		s.dechunkManager.Close()
	}
}

type c33Case struct {
	History string `json:"history"`
	Close   string `json:"close"` // "no-snapshot-on-close" | "snapshot-on-close"
	Multi   string `json:"multi"` // which multi-node peers file: "3voters" | "2voters+1nonvoter" | "both"
}

func TestVerif_C33(t *testing.T) {
	r := kit.Start(t, "C33", "recover")
	defer r.Finish()
	depth := r.Pick(3, 4)
	r.Rule(fmt.Sprintf("every history of length <=%d over {write (automatic id, counter increment, cascading delete), write 200 rows, snapshot, load a database file, join a non-voter, remove it} on a fresh real single-node Store with foreign keys on x {closed without, with snapshot-on-close}; the closed directory is then recovered (a) with a one-node peers file (same address), closed, recovered again with a one-node file carrying a new address, written to, closed and restarted, (b) from a copy with a 3-voter file and then, the same copy, with a one-node file (same address), written to, closed and restarted, (c) from a copy with a 2-voter+1-non-voter file, then the same copy with the 3-voter file, then with a one-node file (new address), written to, closed and restarted"+map[bool]string{true: "", false: " (quick tier: (b) or (c), alternating over the cases; the snapshot-on-close, which is the same call as operation S, only for histories shorter than the bound)"}[r.Thorough()]+". After every reopen the logical dump must equal the dump before the shutdown (plus the one later write) and the raft configuration must be exactly the peers file. distinct = (history, close mode, stage, dump, configuration)", depth))
	r.Assume("recovery is run on the directory of a node that was shut down by Store.Close (no crash images: those are C03/C04); peers files are well-formed")
	r.Note("an Open that returns an error is retried up to 3 times, as an operator would restart the process (a recovery can collide with the snapshot store's own reaper, 'MSRW conflict owner: reap', when it leaves 4 or more snapshots); only a persistent failure is a violation")
	r.Note("with multi-node peers files the node is never leader; data is read with NONE-level queries and the configuration from raft.GetConfiguration, no leadership wait")

	scratch := c33ScratchRoot(t)
	loads := [][]byte{c33MakeDB(scratch, "load0.db", 2, "la", 100), c33MakeDB(scratch, "load1.db", 3, "lb", 200)}

	var cases []c33Case
	if rp := kit.Replay(); rp != nil {
		var c c33Case
		if err := json.Unmarshal(rp, &c); err != nil {
			t.Fatalf("replay: %v", err)
		}
		cases = []c33Case{c}
	} else {
		for _, h := range c33Histories(depth) {
			cases = append(cases, c33Case{h, "no-snapshot-on-close", ""})
			// The snapshot-on-close is the same Store.Snapshot(0) call as operation S, so
			// history h closed with it does what history h+S closed without it does; the
			// quick tier therefore runs it only for the histories below the depth bound.
			if r.Thorough() || len(h) < depth {
				cases = append(cases, c33Case{h, "snapshot-on-close", ""})
			}
		}
		for i := range cases {
			cases[i].Multi = []string{"3voters", "2voters+1nonvoter"}[i%2]
			if r.Thorough() {
				cases[i].Multi = "both"
			}
		}
	}

	workers := 32 // a case mostly waits (elections)
	if sh := os.Getenv("VERIF_SHARD"); sh != "" {
		var k, n int
		if _, err := fmt.Sscanf(sh, "%d/%d", &k, &n); err != nil || n <= 0 {
			t.Fatalf("VERIF_SHARD=%q", sh)
		}
		var mine []c33Case
		for i, c := range cases {
			if i%n == k {
				mine = append(mine, c)
			}
		}
		cases = mine
		workers = max(2, 32/n)
	}
	var mu sync.Mutex
	var wg sync.WaitGroup
	sem := make(chan struct{}, workers)
	nCases := len(cases)
	for i, c := range cases {
		if r.OverBudget() {
			r.Cap("time budget used up after %d of %d cases of this shard", i, len(cases))
			nCases = i
			break
		}
		wg.Add(1)
		sem <- struct{}{}
		go func(i int, c c33Case) {
			defer wg.Done()
			defer func() { <-sem }()
			obs, steps, reopens := c33Run(t, r, c, loads, filepath.Join(scratch, fmt.Sprintf("case%d", i)))
			mu.Lock()
			defer mu.Unlock()
			r.Eval(1)
			r.Transition(steps)
			r.Validated(reopens)
			for _, o := range obs {
				r.Distinct(c.History + "/" + c.Close + "=>" + o)
			}
			if i%131 == 7 {
				r.Sample(map[string]any{"history": c.History, "close": c.Close, "stages": obs})
			}
		}(i, c)
	}
	wg.Wait()
	r.State(nCases)
}

// c33Shape classifies a history by what recovery has to replay.
func c33Shape(h string) string {
	last := strings.LastIndexByte(h, 'S')
	switch {
	case last < 0:
		return "no-snapshot-before-shutdown"
	case last == len(h)-1:
		return "nothing-after-last-snapshot"
	}
	tail := h[last+1:]
	var kinds []string
	if strings.ContainsAny(tail, "WM") {
		kinds = append(kinds, "writes")
	}
	if strings.Contains(tail, "L") {
		kinds = append(kinds, "load")
	}
	if strings.ContainsAny(tail, "JR") {
		kinds = append(kinds, "membership")
	}
	return strings.Join(kinds, "+") + "-after-last-snapshot"
}

func c33Run(t *testing.T, r *kit.Run, c c33Case, loads [][]byte, base string) (obs []string, steps, reopens int) {
	h := c.History
	must := func(what string, err error) {
		if err != nil {
			panic(fmt.Sprintf("harness: history %q (%s): %s: %v", h, c.Close, what, err))
		}
	}
	noSnap := c.Close == "no-snapshot-on-close"
	defer os.RemoveAll(base)
	dir := filepath.Join(base, "node")
	port0 := c33NewPort()
	defer port0.release()
	ly := port0.layer()
	addr0 := ly.Addr().String()
	s := c33NewStore(dir, "n1", ly, noSnap)
	must("open", s.Open())
	closed := false
	defer func() {
		if !closed {
			s.Close(true)
		}
	}()
	must("bootstrap", s.Bootstrap(NewServer(s.ID(), s.Addr(), true)))
	must("leader", c33WaitLeader(s))
	ctx := context.Background()
	exec := func(s *Store, tx bool, qs ...string) {
		res, _, err := s.Execute(ctx, executeRequestFromStrings(qs, false, tx))
		must("execute "+qs[0], err)
		for _, x := range res {
			if x.GetError() != "" {
				panic(fmt.Sprintf("harness: history %q: %v: %s", h, qs, x.GetError()))
			}
		}
	}
	tryExec := func(s *Store, qs ...string) error {
		res, _, err := s.Execute(ctx, executeRequestFromStrings(qs, false, true))
		if err != nil {
			return err
		}
		for _, x := range res {
			if x.GetError() != "" {
				return errors.New(x.GetError())
			}
		}
		return nil
	}
	exec(s, true, append(strings.Split(c33Schema, ";"), "INSERT INTO c(n) VALUES(0)")...)

	model := &c33Model{}
	var joined []string
	for i := 0; i < len(h); i++ {
		steps++
		switch h[i] {
		case 'W':
			v := fmt.Sprintf("w%d", i)
			exec(s, true, c33Write(v, 1000+i)...)
			model.add(v)
			model.n++
		case 'M':
			exec(s, false, fmt.Sprintf("INSERT INTO t(v) WITH RECURSIVE g(x) AS (SELECT 1 UNION ALL SELECT x+1 FROM g WHERE x<200) SELECT 'm%d-'||x||'-'||hex(zeroblob(60)) FROM g", i))
			for x := 1; x <= 200; x++ {
				model.add(fmt.Sprintf("m%d-%d-%s", i, x, strings.Repeat("00", 60)))
			}
		case 'S':
			err := s.Snapshot(0)
			// Two refusals are transient and are answered by asking again, so that whether
			// the snapshot exists does not depend on goroutine timing: the snapshot gate being
			// held, and raft's "wait until the configuration entry ... has been applied" (its
			// FSM goroutine has not yet passed the membership entry of a join/remove).
			start := time.Now()
			for err != nil && ((strings.Contains(err.Error(), "CAS conflict") && time.Since(start) < 60*time.Second) ||
				(strings.Contains(err.Error(), "wait until the configuration entry") && time.Since(start) < 5*time.Second)) {
				time.Sleep(10 * time.Millisecond)
				err = s.Snapshot(0)
			}
			if err != nil && err != ErrNothingNewToSnapshot && err != ErrNoWALToSnapshot &&
				!strings.Contains(err.Error(), "wait until the configuration entry") {
				must("snapshot", err)
			}
		case 'L':
			k := i % 2
			must("load", s.Load(ctx, &proto.LoadRequest{Data: loads[k]}))
			model = &c33Model{}
			if k == 0 {
				model.ids, model.vs, model.n = []int{1, 2}, []string{"la1", "la2"}, 100
			} else {
				model.ids, model.vs, model.n = []int{1, 2, 3}, []string{"lb1", "lb2", "lb3"}, 200
			}
		case 'J':
			id := fmt.Sprintf("nv%d", i)
			must("join", s.Join(joinRequest(id, fmt.Sprintf("127.0.0.1:%d", i+1), false)))
			joined = append(joined, id)
		case 'R':
			id := joined[len(joined)-1]
			joined = joined[:len(joined)-1]
			must("remove", s.Remove(ctx, removeNodeRequest(id)))
		}
	}
	schema0, tables0, err := c33Dump(s)
	must("dump before shutdown", err)
	if tables0 != model.tables() {
		// not C33's business, but the alphabet would be meaningless: stop loudly
		panic(fmt.Sprintf("harness: history %q: the database before the shutdown is not what the operations should have produced:\n%.300s\n-- expected --\n%.300s", h, tables0, model.tables()))
	}
	if !noSnap && strings.ContainsAny(h, "JR") {
		// The snapshot-on-close is refused by raft while its FSM goroutine has not yet
		// passed the last membership entry; give it the moment it needs, so that the
		// outcome of the close does not depend on goroutine timing.
		for deadline := time.Now().Add(10 * time.Second); time.Now().Before(deadline); {
			st := s.raft.Stats()
			if st["fsm_pending"] == "0" && st["applied_index"] == st["last_log_index"] {
				break
			}
			time.Sleep(5 * time.Millisecond)
		}
		time.Sleep(150 * time.Millisecond)
	}
	must("close", s.Close(true))
	closed = true

	shape := c33Shape(h)
	where := func(stage string) string {
		return fmt.Sprintf("history %s, closed with %s, %s", c33Spell(h), c.Close, stage)
	}
	replay := c

	// check compares a reopened node with the expected dump and peers file.
	check := func(s *Store, stage, class string, wantSchema, wantTables string, peers []c33Peer, cfgClass string) bool {
		ok := true
		schema, tables, err := c33Dump(s)
		switch {
		case err != nil:
			ok = false
			obs = append(obs, stage+":unreadable")
			r.Violation("C33:database-unreadable-after:"+class, fmt.Sprintf("%s: the recovered database cannot be read: %v", where(stage), err), replay)
		case schema != wantSchema || tables != wantTables:
			ok = false
			obs = append(obs, stage+":data-differs")
			r.Violation("C33:data-differs-after:"+class+":in-"+c33DiffTables(wantSchema, wantTables, schema, tables), fmt.Sprintf("%s: the database differs from the one the node had applied: %s", where(stage), c33Diff(wantSchema+wantTables, schema+tables)), replay)
		default:
			obs = append(obs, stage+":data="+c33Hash(schema+tables))
		}
		got, err := c33ConfigSet(s)
		want := c33PeerSet(peers)
		switch {
		case err != nil:
			ok = false
			obs = append(obs, stage+":config-unreadable")
			r.Violation("C33:configuration-unreadable:"+cfgClass, fmt.Sprintf("%s: %v", where(stage), err), replay)
		case got != want:
			ok = false
			obs = append(obs, stage+":config-differs")
			r.Violation("C33:configuration-differs:"+cfgClass, fmt.Sprintf("%s: configuration is {%s}, the peers file says {%s}", where(stage), got, want), replay)
		default:
			obs = append(obs, stage+":config-ok")
		}
		return ok
	}
	writePeers := func(dir string, peers []c33Peer) {
		b, err := json.Marshal(peers)
		must("marshal peers", err)
		must("mkdir raft", os.MkdirAll(filepath.Join(dir, "raft"), 0o755))
		must("write peers.json", os.WriteFile(filepath.Join(dir, "raft", "peers.json"), b, 0o644))
	}
	// reopen opens a new Store object on dir; a failure to open is a violation.
	// A failed Open is what an operator would see as a failed start and answer with
	// another start, so it is retried (after releasing what the failed Open left
	// open, as a process exit would); only a persistent failure is a violation.
	reopen := func(dir string, ly *c33Layer, stage, class string) *Store {
		reopens++
		var err error
		for attempt := 0; attempt < 3; attempt++ {
			ns := c33NewStore(dir, "n1", ly, noSnap)
			if err = ns.Open(); err == nil {
				return ns
			}
			t.Logf("c33: %s: attempt %d: Open: %v", where(stage), attempt+1, err)
			c33Abandon(ns)
			ly.Close()
			ly = ly.port.layer()
		}
		ly.Close()
		obs = append(obs, stage+":open-fails")
		r.Violation("C33:reopen-fails:"+class, fmt.Sprintf("%s: Open returns (3 attempts): %v", where(stage), err), replay)
		return nil
	}

	noLeader := func(stage string) {
		obs = append(obs, "no-leader")
		r.Violation("C33:lone-voter-not-leader-after-recovery", fmt.Sprintf("%s: the only voter does not become leader within 60 s", where(stage)), replay)
	}
	// baseline re-reads the node before it is shut down again.
	baseline := func(s *Store, stage string) (string, string, bool) {
		sc, tb, err := c33Dump(s)
		if err != nil {
			t.Logf("c33: %s: cannot take the next baseline: %v", where(stage), err)
			return "", "", false
		}
		return sc, tb, true
	}
	// (b) or (c): a multi-node peers file on a copy of the closed directory, and then
	// further recoveries of that same copy. Under a multi-node file no leader forms,
	// so nothing is appended to the log that the recovery emptied: the next recovery
	// starts from a log that ends before the newest snapshot.
	//   (b) 3 voters -> this node alone, same address -> leader, write, restart
	//   (c) 2 voters + non-voter -> 3 voters -> this node alone, new address -> leader, write, restart
	multi := []struct {
		name  string
		peers func(addr string) []c33Peer
	}{
		{"3voters", func(a string) []c33Peer {
			return []c33Peer{{"n1", a, false}, {"n2", "127.0.0.1:2", false}, {"n3", "127.0.0.1:3", false}}
		}},
		{"2voters+1nonvoter", func(a string) []c33Peer {
			return []c33Peer{{"n2", "127.0.0.1:2", false}, {"n1", a, false}, {"n3", "127.0.0.1:3", true}}
		}},
	}
	afterMulti := func(name, d string, port *c33Port, sc, tb string) {
		cls := "recovery-after-multi-node-recovery:" + c.Close
		if name == "2voters+1nonvoter" {
			ly := port.layer()
			peersB := multi[0].peers(ly.Addr().String())
			writePeers(d, peersB)
			stage := "recovery(3voters)-after-recovery(2voters+1nonvoter)"
			ns := reopen(d, ly, stage, cls)
			if ns == nil {
				return
			}
			check(ns, stage, cls, sc, tb, peersB, "3voters-after-2voters+1nonvoter")
			sc2, tb2, readable := baseline(ns, stage)
			must("close "+stage, ns.Close(true))
			if !readable {
				return
			}
			sc, tb = sc2, tb2
		}
		p, kind := port, "same-address"
		if name == "2voters+1nonvoter" {
			p, kind = c33NewPort(), "new-address"
			defer p.release()
		}
		ly := p.layer()
		peers1 := []c33Peer{{"n1", ly.Addr().String(), false}}
		writePeers(d, peers1)
		stage := "recovery(1node-" + kind + ")-after-multi-node-recovery"
		cfg := "1node-" + kind + "-after-multi-node-recovery"
		ns := reopen(d, ly, stage, cls)
		if ns == nil {
			return
		}
		if !check(ns, stage, cls, sc, tb, peers1, cfg) {
			ns.Close(true) // with a wrong configuration the node need not be able to lead
			return
		}
		if err := c33WaitLeader(ns); err != nil {
			noLeader(stage)
			ns.Close(true)
			return
		}
		must("barrier", ns.Barrier())
		check(ns, stage+"+leader", cls, sc, tb, peers1, cfg)
		steps++
		if err := tryExec(ns, c33Write("after-multi-node-recovery", 3000)...); err != nil {
			obs = append(obs, stage+":write-fails")
			r.Violation("C33:write-fails-after-recovery:"+c.Close, fmt.Sprintf("%s: %v", where(stage), err), replay)
			ns.Close(true)
			return
		}
		if tb == tables0 && sc == schema0 {
			m := model.clone()
			m.add("after-multi-node-recovery")
			m.n++
			check(ns, "write-after-"+stage, "write-after-recovery:"+c.Close, schema0, m.tables(), peers1, cfg)
		}
		sc3, tb3, readable := baseline(ns, stage)
		must("close "+stage, ns.Close(true))
		if !readable {
			return
		}
		stage = "restart-after-" + stage
		rs := reopen(d, p.layer(), stage, "restart-after-recovery:"+c.Close)
		if rs == nil {
			return
		}
		defer rs.Close(true)
		if err := c33WaitLeader(rs); err != nil {
			noLeader(stage)
			return
		}
		must("barrier", rs.Barrier())
		check(rs, stage, "restart-after-recovery:"+c.Close, sc3, tb3, peers1, cfg)
	}
	for _, v := range multi {
		if c.Multi != "both" && c.Multi != "" && c.Multi != v.name {
			continue
		}
		d := filepath.Join(base, v.name)
		c33CopyDir(dir, d)
		port := c33NewPort()
		defer port.release()
		ly := port.layer()
		peers := v.peers(ly.Addr().String())
		writePeers(d, peers)
		stage := "recovery(" + v.name + ")"
		if ns := reopen(d, ly, stage, "first-recovery:"+shape+":"+c.Close); ns != nil {
			check(ns, stage, "first-recovery:"+shape+":"+c.Close, schema0, tables0, peers, v.name)
			sc, tb, readable := baseline(ns, stage)
			must("close "+v.name, ns.Close(true))
			if readable {
				afterMulti(v.name, d, port, sc, tb)
			}
		}
		os.RemoveAll(d)
	}

	// (a) chain on the original directory. Every stage is judged against the dump
	// taken just before the shutdown that precedes it, so a stage that fails does
	// not hide the later ones.
	ly1 := port0.layer()
	peers1 := []c33Peer{{"n1", addr0, false}}
	writePeers(dir, peers1)
	cls := "first-recovery:" + shape + ":" + c.Close
	s1 := reopen(dir, ly1, "recovery(1node-same-address)", cls)
	if s1 == nil {
		return
	}
	ok := check(s1, "recovery(1node-same-address)", cls, schema0, tables0, peers1, "1node-same-address")
	if err := c33WaitLeader(s1); err != nil {
		noLeader("recovery(1node-same-address)")
		s1.Close(true)
		return
	}
	// the log tail, if any survived, is applied once the node leads
	must("barrier", s1.Barrier())
	if ok {
		check(s1, "recovery(1node-same-address)+leader", cls, schema0, tables0, peers1, "1node-same-address")
	}
	schema1, tables1, readable := baseline(s1, "recovery(1node-same-address)")
	must("close after first recovery", s1.Close(true))
	if !readable {
		return
	}

	port2 := c33NewPort()
	defer port2.release()
	ly2 := port2.layer()
	peers2 := []c33Peer{{"n1", ly2.Addr().String(), false}}
	writePeers(dir, peers2)
	s2 := reopen(dir, ly2, "second-recovery(1node-new-address)", "second-recovery:"+c.Close)
	if s2 == nil {
		return
	}
	check(s2, "second-recovery(1node-new-address)", "second-recovery:"+c.Close, schema1, tables1, peers2, "1node-new-address")
	if err := c33WaitLeader(s2); err != nil {
		noLeader("second-recovery(1node-new-address)")
		s2.Close(true)
		return
	}
	steps++
	if err := tryExec(s2, c33Write("after-recovery", 2000)...); err != nil {
		if tables1 == tables0 && schema1 == schema0 {
			obs = append(obs, "write-after-recovery:fails")
			r.Violation("C33:write-fails-after-recovery:"+c.Close, fmt.Sprintf("%s: %v", where("write-after-recovery"), err), replay)
		} else {
			// the recovered database was already reported as wrong; nothing more to learn here
			t.Logf("c33: %s: write on the already wrong database fails: %v", where("write-after-recovery"), err)
		}
		s2.Close(true)
		return
	}
	if tables1 == tables0 {
		// the node still holds what the reference model holds: the write must have had exactly its effect
		model.add("after-recovery")
		model.n++
		check(s2, "write-after-recovery", "write-after-recovery:"+c.Close, schema0, model.tables(), peers2, "1node-new-address")
	}
	schema2, tables2, readable := baseline(s2, "write-after-recovery")
	must("close after second recovery", s2.Close(true))
	if !readable {
		return
	}

	ly3 := port2.layer()
	s3 := reopen(dir, ly3, "restart-after-recovery", "restart-after-recovery:"+c.Close)
	if s3 == nil {
		return
	}
	defer s3.Close(true)
	if err := c33WaitLeader(s3); err != nil {
		noLeader("restart-after-recovery")
		return
	}
	must("barrier", s3.Barrier())
	check(s3, "restart-after-recovery", "restart-after-recovery:"+c.Close, schema2, tables2, peers2, "1node-new-address")
	return
}

// c33DiffTables names what differs between two dumps: "schema" or the tables whose rows differ.
func c33DiffTables(wantSchema, wantTables, schema, tables string) string {
	if wantSchema != schema {
		return "schema"
	}
	split := func(d string) map[string]string {
		m := map[string]string{}
		name := ""
		for _, l := range strings.Split(d, "\n") {
			if strings.HasPrefix(l, "[") && strings.HasSuffix(l, "]") {
				name = l[1 : len(l)-1]
				m[name] = ""
				continue
			}
			m[name] += l + "\n"
		}
		return m
	}
	w, g := split(wantTables), split(tables)
	var names []string
	for n := range w {
		if w[n] != g[n] {
			names = append(names, n)
		}
	}
	for n := range g {
		if _, ok := w[n]; !ok {
			names = append(names, n)
		}
	}
	sort.Strings(names)
	return "tables-" + strings.Join(names, "+")
}

// c33Diff names the first difference between two dumps.
func c33Diff(want, got string) string {
	w, g := strings.Split(want, "\n"), strings.Split(got, "\n")
	for i := 0; i < len(w) || i < len(g); i++ {
		var a, b string
		if i < len(w) {
			a = w[i]
		}
		if i < len(g) {
			b = g[i]
		}
		if a != b {
			return fmt.Sprintf("expected %d lines, found %d; first difference at line %d: expected %.60q, found %.60q", len(w), len(g), i+1, a, b)
		}
	}
	return "equal"
}

func c33Spell(h string) string {
	if h == "" {
		return "(none)"
	}
	var n []string
	for i := 0; i < len(h); i++ {
		n = append(n, c33OpName[h[i]])
	}
	return strings.Join(n, ", ")
}
