package store

// C03 "Acknowledged writes survive crashes and restarts" (single-node part).
//
// E-CRASH (DESIGN.md 1.4) on a real single-node Store whose whole data directory
// (raft.db, db.sqlite + WAL, wsnapshots/, wal-staging/, clean_snapshot) is the
// watched tree. Histories: every sequence of length <= L over
//
//	w  small write       one transaction: INSERT INTO t(v) + UPDATE c SET n=n+1
//	W  page-heavy write  one transaction: 3 x INSERT INTO big (5 KB each) + INSERT INTO t + UPDATE c SET n=n+1
//	S  snapshot          Store.Snapshot(0) (full the first time, incremental afterwards; the store reaps
//	                     as soon as two snapshots exist, and the operation lasts until the reaper is done)
//	R  clean restart     Store.Close(true) (snapshots on close) + New + Open + wait for leader
//
// run sequentially on a fresh bootstrapped store after a fixed set-up (schema).
// Every INSERT is non-idempotent (AUTOINCREMENT ids) and every write bumps a
// counter, so an entry applied twice or half a transaction is visible.
//
// The crash recorder is installed around the LAST operation of each history
// (the images of an earlier operation are the images of the last operation of
// the corresponding prefix, which is itself one of the histories) and one more
// image is taken right after the operation returned (after the
// acknowledgement). Every image is a copy of the data directory at an
// instrumented point at which the directory content had changed.
//
// Every image is recovered twice by the real start-up path (New + Open + wait for
// leader + strong read) on a copy:
//
//	as-is           may take the fast path if clean_snapshot matches db.sqlite
//	forced-restore  clean_snapshot removed first: database rebuilt from snapshot store + log
//
// Oracle: the recovered node opens, elects itself and its database equals the
// model of the acknowledged writes; for an image taken while a write was in
// flight (not yet acknowledged) the database may also equal the model with
// that write applied - nothing else (no partial write, no duplicate).

import (
	"context"
	"encoding/json"
	"fmt"
	"go/ast"
	"go/parser"
	"go/token"
	"hash/fnv"
	"os"
	"path/filepath"
	"sort"
	"strconv"
	"strings"
	"sync"
	"sync/atomic"
	"testing"
	"time"

	"github.com/rqlite/rqlite/v10/command/proto"
	kit "github.com/rqlite/rqlite/v10/internal/verifkit"
	vfs "github.com/rqlite/rqlite/v10/internal/verifvfs"
	bolt "go.etcd.io/bbolt"
)

// ---------------------------------------------------------------------------
// model

type c03Model struct {
	T   []string // v of every row of t, in id order (ids are 1..len)
	N   int      // c.n
	Big []string // first 12 characters of every row of big
}

func (m c03Model) clone() c03Model {
	return c03Model{T: append([]string(nil), m.T...), N: m.N, Big: append([]string(nil), m.Big...)}
}

func (m c03Model) dump() string {
	var sb strings.Builder
	sb.WriteString("t:")
	for i, v := range m.T {
		fmt.Fprintf(&sb, "%d=%s,", i+1, v)
	}
	fmt.Fprintf(&sb, ";c:1/%d;big:", m.N)
	for i, v := range m.Big {
		fmt.Fprintf(&sb, "%d=%d/%s,", i+1, c03BigLen, v)
	}
	return sb.String()
}

const c03BigLen = 5000

func c03BigVal(k, j int) string {
	p := fmt.Sprintf("B%d.%d-", k, j)
	return (strings.Repeat(p, c03BigLen/len(p)+1))[:c03BigLen]
}

// c03Write returns the statements of write number k and applies it to m.
func c03Write(op byte, k int, m *c03Model) []string {
	var stmts []string
	switch op {
	case 'w':
		v := fmt.Sprintf("s%d", k)
		stmts = []string{fmt.Sprintf("INSERT INTO t(v) VALUES('%s')", v), "UPDATE c SET n=n+1"}
		m.T = append(m.T, v)
		m.N++
	case 'W':
		for j := 0; j < 3; j++ {
			b := c03BigVal(k, j)
			stmts = append(stmts, fmt.Sprintf("INSERT INTO big(b) VALUES('%s')", b))
			m.Big = append(m.Big, b[:12])
		}
		v := fmt.Sprintf("h%d", k)
		stmts = append(stmts, fmt.Sprintf("INSERT INTO t(v) VALUES('%s')", v), "UPDATE c SET n=n+1")
		m.T = append(m.T, v)
		m.N++
	}
	return stmts
}

var c03Setup = []string{
	"CREATE TABLE t(id INTEGER PRIMARY KEY AUTOINCREMENT, v TEXT)",
	"CREATE TABLE c(n INTEGER)",
	"CREATE TABLE big(id INTEGER PRIMARY KEY AUTOINCREMENT, b TEXT)",
	"INSERT INTO c(n) VALUES(0)",
}

// ---------------------------------------------------------------------------
// store helpers

func c03NewStore(dir, id string) (*Store, func()) {
	s, ln := mustNewStoreAtPathsLn(id, dir, false)
	s.HeartbeatTimeout = 100 * time.Millisecond
	s.ElectionTimeout = 100 * time.Millisecond
	s.LeaderLeaseTimeout = 100 * time.Millisecond
	// reap as soon as two snapshots exist, so that the short histories reach the
	// reaper (the default threshold of 4 needs more snapshots than they take)
	s.SnapshotReapThreshold = 2
	return s, func() { ln.Close() }
}

// c03Quiesce waits until the snapshot store's background reaper, which a
// snapshot wakes up, has consolidated the store (fewer than two snapshot
// directories and no plan file) - the operation is only over then.
func c03Quiesce(root string) {
	dir := filepath.Join(root, "wsnapshots")
	for deadline := time.Now().Add(120 * time.Second); time.Now().Before(deadline); time.Sleep(2 * time.Millisecond) {
		ents, err := os.ReadDir(dir)
		if err != nil {
			return
		}
		n, busy := 0, false
		for _, e := range ents {
			switch {
			case strings.HasPrefix(e.Name(), "REAP_PLAN"):
				busy = true
			case e.IsDir() && !strings.HasSuffix(e.Name(), ".tmp"):
				n++
			}
		}
		if n < 2 && !busy {
			return
		}
	}
}

func c03Val(p *proto.Parameter) string {
	switch v := p.GetValue().(type) {
	case *proto.Parameter_I:
		return strconv.FormatInt(v.I, 10)
	case *proto.Parameter_D:
		return strconv.FormatFloat(v.D, 'g', -1, 64)
	case *proto.Parameter_S:
		return v.S
	case *proto.Parameter_B:
		return strconv.FormatBool(v.B)
	case *proto.Parameter_Y:
		return fmt.Sprintf("x%x", v.Y)
	case nil:
		return "NULL"
	}
	return fmt.Sprintf("%v", p.GetValue())
}

// c03Observe reads the database of an open leader with a strong read (which
// forces every committed entry to be applied first) in the format of c03Model.dump.
func c03Observe(s *Store) (string, error) {
	return c03ObserveAt(s, proto.ConsistencyLevel_STRONG)
}

// c03ObserveAt is c03Observe with a chosen read consistency level.
func c03ObserveAt(s *Store, level proto.ConsistencyLevel) (string, error) {
	qr := queryRequestFromStrings([]string{
		"SELECT id, v FROM t ORDER BY id",
		"SELECT count(*), sum(n) FROM c",
		"SELECT id, length(b), substr(b,1,12) FROM big ORDER BY id",
	}, false, false, false)
	qr.Level = level
	rows, _, _, err := s.Query(context.Background(), qr)
	if err != nil {
		return "", err
	}
	if len(rows) != 3 {
		return "", fmt.Errorf("%d result sets", len(rows))
	}
	for i, r := range rows {
		if r.Error != "" {
			return "", fmt.Errorf("query %d: %s", i, r.Error)
		}
	}
	var sb strings.Builder
	sb.WriteString("t:")
	for _, v := range rows[0].Values {
		fmt.Fprintf(&sb, "%s=%s,", c03Val(v.Parameters[0]), c03Val(v.Parameters[1]))
	}
	sb.WriteString(";c:")
	for _, v := range rows[1].Values {
		fmt.Fprintf(&sb, "%s/%s", c03Val(v.Parameters[0]), c03Val(v.Parameters[1]))
	}
	sb.WriteString(";big:")
	for _, v := range rows[2].Values {
		fmt.Fprintf(&sb, "%s=%s/%s,", c03Val(v.Parameters[0]), c03Val(v.Parameters[1]), c03Val(v.Parameters[2]))
	}
	return sb.String(), nil
}

func c03Exec(s *Store, stmts []string) error {
	res, _, err := s.Execute(context.Background(), executeRequestFromStrings(stmts, false, true))
	if err != nil {
		return err
	}
	for _, r := range res {
		if e := r.GetError(); e != "" {
			return fmt.Errorf("statement error: %s", e)
		}
		if er := r.GetE(); er != nil && er.Error != "" {
			return fmt.Errorf("statement error: %s", er.Error)
		}
	}
	return nil
}

// ---------------------------------------------------------------------------
// label -> enclosing function (class of a crash point)

var (
	c03FuncMu    sync.Mutex
	c03FuncCache = map[string][]c03FuncSpan{}
)

type c03FuncSpan struct {
	from, to int
	name     string
}

func c03FuncOf(label string) string {
	i := strings.LastIndex(label, ":")
	if i < 0 || !strings.HasSuffix(label[:i], ".go") {
		return label // a harness label
	}
	file := label[:i]
	line, _ := strconv.Atoi(label[i+1:])
	c03FuncMu.Lock()
	defer c03FuncMu.Unlock()
	spans, ok := c03FuncCache[file]
	if !ok {
		repo := os.Getenv("VERIF_REPO")
		if repo == "" {
			repo = "/repo"
		}
		fset := token.NewFileSet()
		if f, err := parser.ParseFile(fset, filepath.Join(repo, file), nil, 0); err == nil {
			for _, d := range f.Decls {
				fd, ok := d.(*ast.FuncDecl)
				if !ok || fd.Body == nil {
					continue
				}
				name := fd.Name.Name
				if fd.Recv != nil && len(fd.Recv.List) == 1 {
					t := fd.Recv.List[0].Type
					if st, ok := t.(*ast.StarExpr); ok {
						t = st.X
					}
					if id, ok := t.(*ast.Ident); ok {
						name = id.Name + "." + name
					}
				}
				spans = append(spans, c03FuncSpan{fset.Position(fd.Pos()).Line, fset.Position(fd.End()).Line, filepath.Dir(file) + "/" + name})
			}
		}
		c03FuncCache[file] = spans
	}
	for _, sp := range spans {
		if line >= sp.from && line <= sp.to {
			return sp.name
		}
	}
	return file
}

// ---------------------------------------------------------------------------
// histories

func c03Histories(depth int) []string {
	out := []string{""}
	var rec func(h string)
	rec = func(h string) {
		if len(h) == depth {
			return
		}
		for _, op := range "wWSR" {
			out = append(out, h+string(op))
			rec(h + string(op))
		}
	}
	rec("")
	sort.SliceStable(out, func(i, j int) bool { return len(out[i]) < len(out[j]) })
	return out
}

type c03Image struct {
	vfs.Image
	Func string
}

// c03OwnFile reports whether rel (relative to the data directory) is a file rqlite
// writes with its own code (not the SQLite database/WAL files, not raft.db).
func c03OwnFile(rel string) bool {
	b := filepath.Base(rel)
	return strings.HasPrefix(b, cleanSnapshotName) || b == "meta.json" || strings.HasSuffix(b, ".crc32") ||
		strings.HasPrefix(b, "REAP_PLAN") || b == "FULL_NEEDED"
}

type c03Recorded struct {
	Cuts int // derived in-call cut images
	History  string
	ID       string
	Root     string
	Acked    c03Model  // model of every write acknowledged before the last operation started
	Inflight *c03Model // model with the last operation's write applied (nil if the last operation is not a write)
	Images   []c03Image
	Points   int64
	Labels   []string
	Discard  int // images whose raft.db copy fails bbolt's consistency check
}

// c03Record runs history h on a fresh store under dir and records the images of its last operation.
func c03Record(t *testing.T, dir, h string, seq int, dirLoss bool) *c03Recorded {
	root := filepath.Join(dir, "node")
	id := fmt.Sprintf("c03n%d", seq)
	must := func(what string, err error) {
		if err != nil {
			panic(fmt.Sprintf("c03 harness: history %q: %s: %v", h, what, err))
		}
	}
	s, lnClose := c03NewStore(root, id)
	must("open", s.Open())
	must("bootstrap", s.Bootstrap(NewServer(s.ID(), s.Addr(), true)))
	_, err := s.WaitForLeader(120 * time.Second)
	must("leader", err)
	must("set-up", c03Exec(s, c03Setup))

	out := &c03Recorded{History: h, ID: id, Root: root}
	model := c03Model{}
	var markerBefore []byte
	var markerBeforeErr error
	rec := &vfs.Recorder{Root: root, ImgDir: filepath.Join(dir, "imgs"),
		HashNameOnly: func(rel string) bool { return strings.HasSuffix(rel, "-shm") }}
	if h == "" {
		rec.Snap("after-set-up")
	}
	for k := 0; k < len(h); k++ {
		last := k == len(h)-1
		if last {
			out.Acked = model.clone()
			markerBefore, markerBeforeErr = os.ReadFile(filepath.Join(root, cleanSnapshotName))
			vfs.Install(rec)
		}
		switch op := h[k]; op {
		case 'w', 'W':
			stmts := c03Write(op, k, &model)
			must("write", c03Exec(s, stmts)) // returns = acknowledged
			if last {
				m := model.clone()
				out.Inflight = &m
			}
		case 'S':
			// "nothing new to snapshot" is a legitimate refusal; any other error would
			// be unexpected in a quiet single node but does not concern the property
			s.Snapshot(0)
			c03Quiesce(root)
		case 'R':
			must("close", s.Close(true))
			lnClose()
			s, lnClose = c03NewStore(root, id)
			must("reopen", s.Open())
			_, err := s.WaitForLeader(120 * time.Second)
			must("leader after restart", err)
			c03Quiesce(root)
		}
		if last {
			rec.Snap("after-ack")
			vfs.Install(nil)
		}
	}
	if h == "" {
		out.Acked = model.clone()
	}
	s.NoSnapshotOnClose = true
	must("final close", s.Close(true))
	lnClose()
	if errs := rec.Errors(); len(errs) > 0 {
		panic(fmt.Sprintf("c03 harness: recorder: %v", errs))
	}
	for _, im := range rec.Images() {
		if err := c03BoltOK(filepath.Join(im.Dir, "raft.db")); err != nil {
			out.Discard++
			continue
		}
		out.Images = append(out.Images, c03Image{Image: im, Func: c03FuncOf(im.Label)})
		// the call in flight, cut inside (engine/vfs TornVariants), for the files rqlite writes
		// itself - the marker and its tmp file, meta.json, checksum sidecars, plan and flag
		// files: 0 / half / all but one of the new bytes - and for removals of directory trees
		vars, kind, err := rec.TornVariants(im, vfs.TornOptions{Removals: true})
		if err != nil {
			panic(fmt.Sprintf("c03 harness: torn variants: %v", err))
		}
		if rel, ok := strings.CutPrefix(kind, "write:"); ok && !c03OwnFile(rel) {
			continue
		}
		for _, v := range vars {
			// the label must not read "after-ack...": the call was cut before it completed
			v.Label = "cut{" + v.Torn + "}@" + im.Label
			out.Images = append(out.Images, c03Image{Image: v, Func: c03FuncOf(im.Label)})
			out.Cuts++
		}
	}
	out.Points, out.Labels = rec.Points()
	// directory-entry loss (thorough): the marker is renamed into place without a
	// sync of the data directory, so after a power loss the rename can be undone
	// while everything that was synced later is kept: the final image with the
	// marker as it was before the operation
	if dirLoss && len(out.Images) > 0 && h != "" {
		fin := out.Images[len(out.Images)-1]
		for _, im := range out.Images {
			if im.Label == "after-ack" {
				fin = im
			}
		}
		cur, curErr := os.ReadFile(filepath.Join(fin.Dir, cleanSnapshotName))
		if fin.Label == "after-ack" && (string(cur) != string(markerBefore) || (curErr == nil) != (markerBeforeErr == nil)) {
			vd := fin.Dir + "-marker-lost"
			if err := vfs.CopyTree(fin.Dir, vd); err != nil {
				panic(fmt.Sprintf("c03 harness: %v", err))
			}
			if markerBeforeErr != nil {
				os.Remove(filepath.Join(vd, cleanSnapshotName))
			} else {
				os.WriteFile(filepath.Join(vd, cleanSnapshotName), markerBefore, 0o644)
			}
			v := fin
			v.Dir, v.Label, v.N = vd, "after-ack~marker-rename-lost", fin.N+1
			v.Func = "after-ack(marker rename undone)"
			out.Images = append(out.Images, v)
		}
	}
	return out
}

// c03BoltOK runs bbolt's own consistency check on a copied raft.db (a copy taken
// while another goroutine committed may be torn: an artefact of copying).
func c03BoltOK(path string) error {
	if _, err := os.Stat(path); os.IsNotExist(err) {
		return nil
	}
	tmp := path + ".chk"
	b, err := os.ReadFile(path)
	if err != nil {
		return err
	}
	if err := os.WriteFile(tmp, b, 0o600); err != nil {
		return err
	}
	defer os.Remove(tmp)
	db, err := bolt.Open(tmp, 0o600, &bolt.Options{ReadOnly: true, Timeout: time.Second})
	if err != nil {
		return err
	}
	defer db.Close()
	return db.View(func(tx *bolt.Tx) error {
		for e := range tx.Check() {
			return e
		}
		return nil
	})
}

type c03Outcome struct {
	ok     bool
	kind   string
	detail string
	how    string
}

var c03WorkSeq atomic.Int64

// c03Recover runs the real start-up path on a copy of image im and compares the database with the model.
func c03Recover(scratch string, rc *c03Recorded, im c03Image, forced bool) c03Outcome {
	wdir := filepath.Join(scratch, fmt.Sprintf("r%d", c03WorkSeq.Add(1)))
	root := filepath.Join(wdir, "node")
	defer os.RemoveAll(wdir)
	if err := vfs.CopyTree(im.Dir, root); err != nil {
		panic(fmt.Sprintf("c03 harness: copy image: %v", err))
	}
	// a persisted reap plan holds absolute paths of the directory the node ran in
	if p := filepath.Join(root, "wsnapshots", "REAP_PLAN"); true {
		if b, err := os.ReadFile(p); err == nil {
			os.WriteFile(p, []byte(strings.ReplaceAll(string(b), rc.Root+"/", root+"/")), 0o644)
		}
	}
	if forced {
		os.Remove(filepath.Join(root, cleanSnapshotName))
	}
	allowed := []string{rc.Acked.dump()}
	inflight := rc.Inflight != nil && !strings.HasPrefix(im.Label, "after-ack")
	if rc.Inflight != nil {
		if inflight {
			allowed = append(allowed, rc.Inflight.dump())
		} else {
			allowed = []string{rc.Inflight.dump()}
		}
	}
	how := ""
	for attempt := 0; ; attempt++ {
		s, lnClose := c03NewStore(root, rc.ID)
		s.NoSnapshotOnClose = true
		var crcBad atomic.Bool
		s.crcBadHandler = func(_, _ uint32) { crcBad.Store(true) }
		_, fpErr := os.Stat(filepath.Join(root, cleanSnapshotName))
		if err := s.Open(); err != nil {
			lnClose()
			return c03Outcome{kind: "open-fails", detail: err.Error()}
		}
		fast := s.numSnapshotsSkipped.Load() > 0
		// wait for the asynchronous database checksum of the fast path to finish
		if err := s.snapshotCAS.BeginWithRetry("c03", 120*time.Second, 2*time.Millisecond); err == nil {
			s.snapshotCAS.End()
		}
		if crcBad.Load() && attempt == 0 {
			// production: the marker is removed and the process exits ("restarting is safe"); restart
			s.Close(true)
			lnClose()
			os.Remove(filepath.Join(root, cleanSnapshotName))
			how = "fast-path-crc-mismatch-exit-then-"
			continue
		}
		closeAll := func() { s.Close(true); lnClose() }
		if _, err := s.WaitForLeader(120 * time.Second); err != nil {
			closeAll()
			return c03Outcome{kind: "no-leader", detail: err.Error()}
		}
		got, err := c03Observe(s)
		closeAll()
		if err != nil {
			return c03Outcome{kind: "read-fails", detail: err.Error()}
		}
		switch {
		case fast:
			how += "fast-path"
		case fpErr == nil:
			how += "restore(marker-rejected)"
		default:
			how += "restore"
		}
		for i, a := range allowed {
			if got == a {
				if inflight {
					how += map[int]string{0: "/inflight-absent", 1: "/inflight-present"}[i]
				}
				return c03Outcome{ok: true, how: how}
			}
		}
		return c03Outcome{kind: c03Classify(got, rc, inflight), how: how,
			detail: fmt.Sprintf("recovered via %s: database %s; allowed: %s", how, c03Short(got), c03Short(strings.Join(allowed, "  OR  ")))}
	}
}

func c03Short(s string) string {
	if len(s) > 600 {
		return s[:600] + "..."
	}
	return s
}

// c03Classify names how an observed database differs from the model.
func c03Classify(got string, rc *c03Recorded, inflight bool) string {
	var nT, nBig, cnt, n int
	parts := strings.Split(got, ";")
	if len(parts) == 3 {
		nT = strings.Count(parts[0], "=")
		fmt.Sscanf(strings.TrimPrefix(parts[1], "c:"), "%d/%d", &cnt, &n)
		nBig = strings.Count(parts[2], "=")
	}
	min, max := rc.Acked, rc.Acked
	if rc.Inflight != nil {
		max = *rc.Inflight
		if !inflight {
			min = *rc.Inflight
		}
	}
	switch {
	case n > max.N || nT > len(max.T) || nBig > len(max.Big) || cnt > 1:
		return "write-applied-twice"
	case n < min.N || nT < len(min.T) || nBig < len(min.Big) || cnt < 1:
		return "acknowledged-write-lost"
	case inflight:
		return "in-flight-write-partially-applied"
	}
	return "state-differs"
}

// c03Sig names the recovery-relevant artefacts present in an image (the class of a crash state).
func c03Sig(root string) string {
	var parts []string
	ex := func(p string) bool { _, err := os.Lstat(filepath.Join(root, p)); return err == nil }
	glob := func(p string) bool { m, _ := filepath.Glob(filepath.Join(root, p)); return len(m) > 0 }
	if !ex(sqliteFile) {
		parts = append(parts, "no-db-file")
	}
	if ex(cleanSnapshotName) {
		parts = append(parts, "marker")
	}
	if ex(cleanSnapshotName + ".tmp") {
		parts = append(parts, "marker-tmp")
	}
	if glob("wsnapshots/*.tmp") {
		parts = append(parts, "snapshot-tmp-dir")
	}
	if glob("wal-staging/*") {
		parts = append(parts, "staged-wal")
	}
	if glob("rqlite-restore-*") {
		parts = append(parts, "restore-scratch")
	}
	if glob("wsnapshots/REAP_PLAN*") {
		parts = append(parts, "reap-plan")
	}
	if len(parts) == 0 {
		return "plain"
	}
	return strings.Join(parts, "+")
}

type c03Replay struct {
	History string `json:"history"`
	Label   string `json:"label"`
	Hits    int    `json:"hits"`
	Variant string `json:"variant"`
}

// ---------------------------------------------------------------------------

func c03ScratchRoot(t *testing.T) string {
	if os.Getenv("VERIF_NO_SHM") == "" {
		if st, err := os.Stat("/dev/shm"); err == nil && st.IsDir() {
			if old, _ := filepath.Glob("/dev/shm/verif-c03-*"); len(old) > 0 {
				for _, o := range old {
					if fi, err := os.Stat(o); err == nil && time.Since(fi.ModTime()) > 2*time.Hour {
						os.RemoveAll(o)
					}
				}
			}
			if d, err := os.MkdirTemp("/dev/shm", "verif-c03-"); err == nil {
				t.Cleanup(func() { os.RemoveAll(d) })
				return d
			}
		}
	}
	return kit.Scratch(t)
}

func TestVerif_C03(t *testing.T) {
	r := kit.Start(t, "C03", "crash")
	defer r.Finish()
	depth := r.Pick(3, 5)
	if n, err := strconv.Atoi(os.Getenv("C03_DEPTH")); err == nil && n > 0 {
		depth = n // debugging aid
	}
	r.Rule(fmt.Sprintf("every history of length <=%d over {small write, page-heavy write, snapshot, clean restart} on a fresh real single-node Store; crash images = copies of the whole data directory at every instrumented point of the last operation at which its content changed, + one right after the acknowledgement, + for every step that wrote one of rqlite's own files (marker, meta.json, checksum sidecar, plan/flag file) or removed a directory tree the states a kill inside that call leaves (engine/vfs TornVariants); every image x {as-is, clean_snapshot removed} recovered by New+Open+wait-for-leader+strong read. Distinct = (last operation, function of the crash point, crash-state class, variant, recovery path and outcome); states = images recovered", depth))
	r.Assume("process-crash model: an image is the directory as a killed process leaves it; crash points are rqlite's own steps (statements containing a call in the instrumented files), not steps inside SQLite, bbolt or raft")
	r.Assume("raft.db is copied as it is at the point (bbolt's commit atomicity is trusted); an image whose raft.db copy fails bbolt's own check is discarded and counted")
	r.Assume("single node; histories are sequential and quiescent between operations")
	if r.Thorough() {
		r.Note("thorough also recovers, per history, the final image with the clean_snapshot rename undone (the one directory entry of this path that is never followed by a directory sync)")
	}

	scratch := c03ScratchRoot(t)
	hs := c03Histories(depth)
	shard, nshards := 0, 1
	if sh := os.Getenv("VERIF_SHARD"); sh != "" {
		fmt.Sscanf(sh, "%d/%d", &shard, &nshards)
	}
	var replay *c03Replay
	if raw := kit.Replay(); raw != nil {
		replay = &c03Replay{}
		if err := json.Unmarshal(raw, replay); err != nil {
			t.Fatalf("c03: bad replay: %v", err)
		}
		nshards, shard = 1, 0
	}
	only := os.Getenv("C03_HISTORY")

	var points int64
	labels := map[string]bool{}
	nImages, nDiscard, nHist, nCuts := 0, 0, 0, 0
	workers := 6
	// deal the histories out to the shards by cost class of their last operation
	// (restarts and snapshots yield many more images than writes)
	order := make([]int, len(hs))
	for i := range order {
		order[i] = i
	}
	cost := func(h string) int {
		if h == "" {
			return 9
		}
		return strings.IndexByte("RSWw", h[len(h)-1])
	}
	mix := func(h string) uint32 { // decorrelates the deal from the period-4 structure of the enumeration
		f := fnv.New32a()
		f.Write([]byte(h))
		return f.Sum32()
	}
	sort.SliceStable(order, func(a, b int) bool {
		ha, hb := hs[order[a]], hs[order[b]]
		if cost(ha) != cost(hb) {
			return cost(ha) < cost(hb)
		}
		return mix(ha) < mix(hb)
	})
	shardOf := make([]int, len(hs))
	for pos, i := range order {
		shardOf[i] = pos % nshards
	}
	for i, h := range hs {
		if shardOf[i] != shard {
			continue
		}
		if replay != nil && replay.History != h {
			continue
		}
		if only != "" && only != h {
			continue
		}
		if r.OverBudget() {
			r.Cap("budget used up after %d of this shard's histories", nHist)
			break
		}
		hdir := filepath.Join(scratch, fmt.Sprintf("h%d", i))
		var rc *c03Recorded
		func() {
			defer func() {
				if p := recover(); p != nil {
					t.Fatalf("%v", p)
				}
			}()
			rc = c03Record(t, hdir, h, i, r.Thorough() || replay != nil)
		}()
		nHist++
		points += rc.Points
		for _, l := range rc.Labels {
			labels[l] = true
		}
		nDiscard += rc.Discard
		nCuts += rc.Cuts
		lastOp := "none"
		if h != "" {
			lastOp = string(h[len(h)-1])
		}

		type job struct {
			im     c03Image
			forced bool
			sample bool
		}
		jobs := make(chan job)
		var wg sync.WaitGroup
		for w := 0; w < workers; w++ {
			wg.Add(1)
			go func() {
				defer wg.Done()
				for j := range jobs {
					variant := "as-is"
					if j.forced {
						variant = "forced-restore"
					}
					out := c03Recover(scratch, rc, j.im, j.forced)
					sig := c03Sig(j.im.Dir)
					r.Eval(1)
					if !out.ok {
						r.Violation(fmt.Sprintf("C03:%s:%s:state=%s", out.kind, variant, sig),
							fmt.Sprintf("history %q, crash at %s#%d (in %s, state %s) during the last operation, recovery %s: %s", h, j.im.Label, j.im.Hits, j.im.Func, sig, variant, out.detail),
							c03Replay{History: h, Label: j.im.Label, Hits: j.im.Hits, Variant: variant})
						continue
					}
					r.Distinct(fmt.Sprintf("%s|%s|%s|%s|%s", lastOp, j.im.Func, sig, variant, out.how))
					if j.sample {
						r.Sample(map[string]any{"history": h, "crash_at": fmt.Sprintf("%s#%d", j.im.Label, j.im.Hits), "in": j.im.Func, "state": sig, "variant": variant, "outcome": out.how})
					}
				}
			}()
		}
		for _, im := range rc.Images {
			if replay != nil && (im.Label != replay.Label || im.Hits != replay.Hits) {
				continue
			}
			nImages++
			for _, forced := range []bool{false, true} {
				if replay != nil && (replay.Variant == "forced-restore") != forced {
					continue
				}
				// one fixed image of each of the shard's first histories is a sample
				jobs <- job{im, forced, nHist <= 4 && !forced && im.N == len(rc.Images)/2}
			}
		}
		close(jobs)
		wg.Wait()
		os.RemoveAll(hdir)
	}
	r.State(nImages)
	r.Add("histories", int64(nHist))
	r.Add("crash_points_reached", points)
	r.Add("images", int64(nImages))
	r.Add("images_discarded_torn_raftdb_copy", int64(nDiscard))
	r.Add("images_derived_by_cutting_a_call", int64(nCuts))
	var ls []string
	for l := range labels {
		ls = append(ls, l)
	}
	sort.Strings(ls)
	perFile := map[string]int{}
	for _, l := range ls {
		if i := strings.LastIndex(l, ":"); i > 0 {
			perFile[l[:i]]++
		} else {
			perFile["(harness)"]++
		}
	}
	r.Set(fmt.Sprintf("distinct_crash_labels_per_file_shard%d", shard), perFile)
	if shard == 0 {
		r.Set("labels_shard0", strings.Join(ls, " "))
	}
	r.Note("histories of length <=%d; each shard reports its own histories, points and images (the counters add up over shards). The number of images can differ by a few between runs: an image is taken whenever the directory content differs from the previous image, and raft's own goroutines (log appends, election at start-up, the background reaper) change raft.db and the snapshot store between rqlite's steps at slightly different moments. The classes of states and the verdict do not depend on it.", depth)
}
