package store

import (
	"encoding/json"
	"fmt"
	"os"
	"runtime"
	"sort"
	"strconv"
	"strings"
	"sync"
	"sync/atomic"
	"testing"
	"time"

	"github.com/rqlite/rqlite/v10/command/proto"
	kit "github.com/rqlite/rqlite/v10/internal/verifkit"
)

// C02: the client-visible history of acknowledged writes and of reads at
// linearizable or strong level is linearizable with respect to one sequential
// database, under leader changes, dropped messages, partitions and crashes.
//
// Engine E-CLUSTER: three real Stores in this process (kit: c02_cluster_test.go).
// What is enumerated exhaustively is the HISTORY: every sequence of steps up to
// the depth bound over the alphabet below. The interleavings inside
// hashicorp/raft, SQLite and the Go runtime are whatever each run produces; the
// oracle (linearizability of what the clients saw, unknown outcomes allowed
// either way) is sound for any of them.
//
// Roles are dynamic: "ldr" is the node claiming leadership in the highest term
// when the step starts, "old" the leader most recently deposed by a step of this
// history (it may still believe it leads), "fol" a node that is neither. This is
// the symmetry reduction over follower identity: which physical node plays which
// role changes from history to history (clusters are reused, see below).
//
// Step alphabet
//
//	W  L  S        write / linearizable read / strong read, sent to ldr
//	Wo Lo So       the same, sent to old            (only after a deposing step)
//	Wf Lf Sf       the same, sent to fol (which forwards to the node it believes leads)
//	W|L W|W W|S    two clients at once, both at ldr
//	W|Lo           write at ldr while a linearizable read runs at old
//	Pl             isolate ldr from both others; a successor is elected on the majority side
//	Pd             as Pl, and the majority side loses every message that carries log
//	               entries (heartbeats and votes pass): the successor leads but cannot commit
//	Pf             isolate fol
//	Pl|W           Pl while a write is in flight at the leader being isolated
//	H              heal everything                  (only while partitioned)
//	X              leadership transfer from ldr to its successor
//	Cl Cf          crash ldr / fol (no snapshot), elect among the survivors if needed, restart it
//
// Every operation gets 250 ms; one that has not returned by then stays in flight
// (so it overlaps the following steps) and is collected when the history ends.
// After the last step: heal, wait for one leader, collect stragglers, one final
// strong read at the leader, then bring all nodes to the same log index and
// compare their tables.
//
// Oracle
//  1. The register history of the history's key - acknowledged writes, reads that
//     returned, writes with an error or no answer as "may take effect at any time
//     after the invocation, or never" (a write refused with ErrNotLeader by the
//     node that executed it is definitely not applied and left out) - must be
//     linearizable (brute-force search, vcLinearizable).
//  2. All nodes' tables are equal at the same log index after the history.
//
// A read that fails or times out is simply not in the history (C38 covers
// liveness). Nothing is timed: a slow machine turns answers into "no answer",
// which can only make the check more permissive.
//
// Cluster reuse: a worker keeps its cluster from one history to the next when the
// final phase succeeded (one leader, which has just served a strong read in its
// term; all nodes at the same index). Each history uses a key never used before,
// so earlier histories cannot contribute operations to its register; anything of
// theirs still in flight touches other keys only. A cluster that does not settle
// or quiesce within 30 s is discarded and the history is re-run once on a fresh
// one. An attempt that exceeds c02HistoryLimit (a node that cannot be closed or
// reopened, whatever hangs inside the dependency) is abandoned with its cluster and
// repeated once; a history abandoned twice is reported as a cap (exhaustive:false),
// never as a violation, and the test function never waits for it.

const (
	// c02HistoryLimit bounds one attempt at one history, cluster (re)start and final phase
	// included (a normal one takes 0.1-5 s). Past it the attempt is abandoned, never judged.
	c02HistoryLimitDefault = 180 * time.Second
	c02ClientWait          = 250 * time.Millisecond
	c02Workers             = 20
)

// c02HistoryLimit is a variable only so that the watchdog itself can be exercised
// (VERIF_C02_LIMIT_S together with VERIF_C02_TEST_HANG, development aids).
var c02HistoryLimit = c02HistoryLimitDefault

var c02Quick = []string{"W", "L", "S", "Wo", "Lo", "So", "W|L", "Pl", "Pd", "Pf", "H", "X", "Cl", "Cf"}
var c02Full = []string{"W", "L", "S", "Wo", "Lo", "So", "Wf", "Lf", "Sf", "W|L", "W|W", "W|S", "W|Lo", "Pl", "Pd", "Pf", "Pl|W", "H", "X", "Cl", "Cf"}

// c02Histories lists every history of 1..depth steps over alpha in which "old"
// targets appear only after a deposing step, H only while partitioned, a
// partition only while not partitioned, and no leadership transfer while entry
// messages are being dropped (it cannot succeed and only waits out raft's 5 s
// election timeout).
func c02Histories(alpha []string, depth int) [][]string {
	var out [][]string
	var rec func(h []string, dep, part, drop bool)
	rec = func(h []string, dep, part, drop bool) {
		if len(h) > 0 {
			out = append(out, append([]string(nil), h...))
		}
		if len(h) == depth {
			return
		}
		for _, s := range alpha {
			d, p, dr := dep, part, drop
			switch s {
			case "Wo", "Lo", "So", "W|Lo":
				if !dep {
					continue
				}
			case "Pl", "Pd", "Pl|W":
				if part {
					continue
				}
				d, p = true, true
				dr = s == "Pd"
			case "Pf":
				if part {
					continue
				}
				p = true
			case "H":
				if !part {
					continue
				}
				p, dr = false, false
			case "X":
				if drop {
					continue
				}
				d = true
			case "Cl":
				d = true
			}
			rec(append(h, s), d, p, dr)
		}
	}
	rec(nil, false, false, false)
	return out
}

type c02Op struct {
	Step    int    `json:"step"`
	Client  int    `json:"client"`
	Kind    string `json:"kind"` // W or R
	Level   string `json:"level,omitempty"`
	Target  string `json:"target"`
	Node    int    `json:"node"`
	Val     int    `json:"val"`
	Inv     int64  `json:"inv_ns"`
	Resp    int64  `json:"resp_ns"` // -1: no answer before the history ended
	Outcome string `json:"outcome"`
	Served  int    `json:"served_by"`
	Fwd     bool   `json:"forwarded,omitempty"`
	SrvLvl  string `json:"served_level,omitempty"`
	Err     string `json:"err,omitempty"`
	Final   bool   `json:"final,omitempty"`
	// what the harness could see when the operation was sent (names the violation class only)
	LeaderThen  int  `json:"leader_then"`
	NodeLeads   bool `json:"node_claims_leadership"`
	FirstOfTerm bool `json:"node_had_no_strong_read_in_its_term"`

	done chan struct{}
	res  vcResult
}

type c02Hist struct {
	c      *vcCluster
	syms   []string
	key    string
	api    vcAPI
	t0     time.Time
	mu     sync.Mutex
	closed bool
	ops    []*c02Op
	trace  []string
	roles  [3]int
	old    int
	nextV  int
	steps  int
}

func (h *c02Hist) now() int64 { return int64(time.Since(h.t0)) }

func (h *c02Hist) note(f string, a ...any) { h.trace = append(h.trace, fmt.Sprintf(f, a...)) }

// leader returns the current real leader, forcing an election if nobody leads.
func (h *c02Hist) leader() int {
	if l := h.c.Leader(); l >= 0 {
		return l
	}
	l, err := h.c.ForceElection([]int{h.roles[1], h.roles[0], h.roles[2]}, 5*time.Second)
	if err != nil {
		return -1
	}
	return l
}

func (h *c02Hist) fol() int {
	l := h.c.Leader()
	for _, i := range []int{h.roles[2], h.roles[1], h.roles[0]} {
		if i != l && i != h.old {
			return i
		}
	}
	for _, i := range []int{h.roles[2], h.roles[1], h.roles[0]} {
		if i != l {
			return i
		}
	}
	return h.roles[2]
}

// succ lists the other nodes in order of preference as successor of leader l:
// running nodes that can talk to l first.
func (h *c02Hist) succ(l int) []int {
	var out, rest []int
	for _, i := range []int{h.roles[1], h.roles[0], h.roles[2]} {
		if i == l {
			continue
		}
		if h.c.Up(i) && h.c.net.Connected(l, i) {
			out = append(out, i)
		} else {
			rest = append(rest, i)
		}
	}
	return append(out, rest...)
}

// launch starts one client operation and returns at once.
func (h *c02Hist) launch(step, client int, kind, target string) *c02Op {
	node := -1
	switch target {
	case "ldr":
		node = h.leader()
	case "old":
		node = h.old
	case "fol":
		node = h.fol()
	}
	if node < 0 {
		h.note("step %d: no node for target %s, operation not sent", step, target)
		return nil
	}
	op := &c02Op{Step: step, Client: client, Target: target, Node: node, Resp: -1, Outcome: "no-answer", Served: -1, done: make(chan struct{})}
	op.LeaderThen = h.c.Leader()
	if s := h.c.nodes[node].store(); s != nil {
		op.NodeLeads = h.c.IsLeader(node)
		op.FirstOfTerm = s.strongReadTerm.Load() != s.raft.CurrentTerm()
	}
	var level proto.ConsistencyLevel
	switch kind {
	case "W":
		op.Kind = "W"
		h.nextV++
		op.Val = h.nextV
	case "L":
		op.Kind, op.Level, level = "R", "linearizable", proto.ConsistencyLevel_LINEARIZABLE
	case "S":
		op.Kind, op.Level, level = "R", "strong", proto.ConsistencyLevel_STRONG
	}
	h.mu.Lock()
	h.ops = append(h.ops, op)
	h.mu.Unlock()
	op.Inv = h.now()
	go func() {
		var res vcResult
		if op.Kind == "W" {
			res = h.c.Write(node, h.key, op.Val, h.api, true)
		} else {
			res = h.c.Read(node, h.key, level, h.api, true)
		}
		resp := h.now()
		h.mu.Lock()
		if !h.closed {
			op.Resp, op.res, op.Served, op.Fwd, op.SrvLvl = resp, res, res.Served, res.Forwarded, res.Level
			switch {
			case res.Err == nil:
				op.Outcome = "ok"
				if op.Kind == "R" {
					op.Val = res.Val
				}
			case res.NotLeader:
				op.Outcome, op.Err = "refused", res.Err.Error()
			default:
				op.Outcome, op.Err = "error", res.Err.Error()
			}
		}
		h.mu.Unlock()
		close(op.done)
	}()
	return op
}

func c02Await(d time.Duration, ops ...*c02Op) {
	t := time.NewTimer(d)
	defer t.Stop()
	for _, op := range ops {
		if op == nil {
			continue
		}
		select {
		case <-op.done:
		case <-t.C:
			return
		}
	}
}

// depose isolates the leader (optionally dropping entry messages on the other
// side) and elects a successor there.
func (h *c02Hist) depose(step int, drop bool) {
	l := h.leader()
	if l < 0 {
		h.note("step %d: no leader to isolate", step)
		return
	}
	h.c.net.Isolate(l)
	if drop {
		for i := range h.c.nodes {
			if i != l {
				h.c.net.DropEntries(i, true)
			}
		}
	}
	h.old = l
	nl, err := h.c.ForceElection(h.succ(l), 10*time.Second)
	h.note("step %d: isolated n%d (term %d), successor n%d (term %d) err=%v", step, l, h.c.Term(l), nl, h.c.Term(max(nl, 0)), err)
}

func (h *c02Hist) step(i int, sym string) {
	h.steps++
	switch sym {
	case "W", "L", "S":
		c02Await(c02ClientWait, h.launch(i, 0, sym, "ldr"))
	case "Wo", "Lo", "So":
		c02Await(c02ClientWait, h.launch(i, 0, sym[:1], "old"))
	case "Wf", "Lf", "Sf":
		c02Await(c02ClientWait, h.launch(i, 0, sym[:1], "fol"))
	case "W|L", "W|W", "W|S":
		a := h.launch(i, 0, "W", "ldr")
		b := h.launch(i, 1, sym[2:], "ldr")
		c02Await(c02ClientWait, a, b)
	case "W|Lo":
		a := h.launch(i, 0, "W", "ldr")
		b := h.launch(i, 1, "L", "old")
		c02Await(c02ClientWait, a, b)
	case "Pl":
		h.depose(i, false)
	case "Pd":
		h.depose(i, true)
	case "Pl|W":
		a := h.launch(i, 0, "W", "ldr")
		h.depose(i, false)
		c02Await(c02ClientWait, a)
	case "Pf":
		f := h.fol()
		h.c.net.Isolate(f)
		h.note("step %d: isolated follower n%d", i, f)
	case "H":
		h.c.net.Heal()
	case "X":
		l := h.leader()
		if l < 0 {
			h.note("step %d: no leader to step down", i)
			return
		}
		t := h.c.Term(l)
		to := h.succ(l)[0]
		if !h.c.Up(to) || !h.c.net.Connected(l, to) {
			h.note("step %d: leader n%d can reach no other node, no transfer attempted", i, l)
			return
		}
		err := h.c.Stepdown(l, to)
		if err == nil {
			h.old = l
			_, err = h.c.WaitLeader(nil, t, 3*time.Second)
		}
		h.note("step %d: transfer n%d -> n%d err=%v leader now n%d", i, l, to, err, h.c.Leader())
	case "Cl":
		l := h.leader()
		if l < 0 {
			h.note("step %d: no leader to crash", i)
			return
		}
		h.c.Crash(l)
		h.old = l
		_, eerr := h.c.ForceElection(h.succ(l), 5*time.Second)
		rerr := h.c.Restart(l)
		h.note("step %d: crashed leader n%d, election err=%v, restart err=%v, leader now n%d", i, l, eerr, rerr, h.c.Leader())
	case "Cf":
		f := h.fol()
		h.c.Crash(f)
		rerr := h.c.Restart(f)
		h.note("step %d: crashed follower n%d, restart err=%v", i, f, rerr)
	default:
		panic("harness: unknown step " + sym)
	}
}

type c02Verdict struct {
	settled  bool
	why      string
	ops      []*c02Op
	dumps    []string
	trace    []string
	outcome  string
	vioKey   string
	vioWhat  string
	steps    int
	nOps     int
	nPending int
	wedged   bool
	phase    [5]time.Duration // steps, settle, stragglers, final read, quiesce
}

var c02Serial atomic.Int64

// c02RunHistory runs one history on cluster c. settled=false means the cluster
// could not be brought back to a common state (no verdict on replica agreement,
// and the caller must discard the cluster); the linearizability verdict on what
// was observed is still valid and is still reported.
func c02RunHistory(c *vcCluster, syms []string, api vcAPI) *c02Verdict {
	if hang := os.Getenv("VERIF_C02_TEST_HANG"); hang != "" && hang == strings.Join(syms, " ") {
		select {} // development aid: exercise the per-history watchdog
	}
	h := &c02Hist{c: c, syms: syms, api: api, t0: time.Now(), old: -1}
	h.key = "h" + strconv.FormatInt(c02Serial.Add(1), 10)
	l := c.Leader()
	if l < 0 {
		return &c02Verdict{why: "no leader at the start"}
	}
	n := len(c.nodes)
	h.roles = [3]int{l, (l + 1) % n, (l + 2) % n}
	h.note("roles: leader n%d successor n%d follower n%d, term %d, key %s, api %s", h.roles[0], h.roles[1], h.roles[2], c.Term(l), h.key, api)
	for i, s := range syms {
		h.step(i, s)
		if c.Wedged() {
			break
		}
	}

	v := &c02Verdict{steps: h.steps}
	if c.Wedged() {
		// a node could not be closed (raft shutdown hung): no verdict from this run
		h.mu.Lock()
		h.closed = true
		h.mu.Unlock()
		v.why = vcErrCloseHung.Error()
		v.trace = append(h.trace, c.Remarks()...)
		v.wedged = true
		return v
	}
	tick := time.Now()
	lap := func(i int) { v.phase[i] += time.Since(tick); tick = time.Now() }
	v.phase[0] = time.Since(h.t0)
	// final phase
	c.net.Heal()
	for i := range c.nodes {
		if !c.Up(i) {
			c.Restart(i)
		}
	}
	ldr, err := c.Settle(30 * time.Second)
	lap(1)
	if err == nil {
		h.mu.Lock()
		pending := append([]*c02Op(nil), h.ops...)
		h.mu.Unlock()
		c02Await(8*time.Second, pending...)
		lap(2)
		for try := 0; try < 20; try++ {
			ldr, err = c.Settle(30 * time.Second)
			if err != nil {
				break
			}
			op := h.launch(len(syms), 9, "S", "ldr")
			if op == nil {
				continue
			}
			op.Final = true
			c02Await(10*time.Second, op)
			h.mu.Lock()
			ok := op.Outcome == "ok"
			h.mu.Unlock()
			if ok {
				break
			}
			time.Sleep(20 * time.Millisecond)
		}
	}
	lap(3)
	if err == nil {
		v.dumps, err = c.Quiesce(30 * time.Second)
	}
	lap(4)
	_ = ldr
	if err != nil {
		v.why = err.Error()
	} else {
		v.settled = true
	}

	h.mu.Lock()
	h.closed = true
	v.ops = h.ops
	h.mu.Unlock()
	v.trace = append(h.trace, c.Remarks()...)
	c02Judge(v, syms)
	return v
}

// c02Judge evaluates the oracle on a finished history.
func c02Judge(v *c02Verdict, syms []string) {
	var lin []vcLinOp
	var idx []*c02Op
	refused := map[int]bool{}
	written := map[int]*c02Op{}
	wOrd := map[int]int{}
	nw := 0
	var out []string
	for _, op := range v.ops {
		if !op.Final {
			v.nOps++
		}
		if op.Kind == "W" {
			nw++
			wOrd[op.Val] = nw
		}
		switch {
		case op.Kind == "W" && op.Outcome == "ok":
			lin = append(lin, vcLinOp{Write: true, Val: op.Val, Inv: op.Inv, Resp: op.Resp})
			idx = append(idx, op)
			written[op.Val] = op
		case op.Kind == "W" && op.Outcome == "refused":
			refused[op.Val] = true
		case op.Kind == "W":
			lin = append(lin, vcLinOp{Write: true, Val: op.Val, Inv: op.Inv, Resp: -1, Optional: true})
			idx = append(idx, op)
			written[op.Val] = op
		case op.Outcome == "ok":
			lin = append(lin, vcLinOp{Val: op.Val, Inv: op.Inv, Resp: op.Resp})
			idx = append(idx, op)
		}
		if op.Outcome == "no-answer" {
			v.nPending++
		}
	}
	for _, op := range v.ops {
		tag := op.Kind
		if op.Kind == "R" {
			tag = strings.ToUpper(op.Level[:1])
		}
		if op.Final {
			tag = "final"
		}
		o := op.Outcome
		if op.Kind == "R" && op.Outcome == "ok" {
			o = fmt.Sprintf("sees-w%d", wOrd[op.Val])
			if op.SrvLvl != "" && !strings.EqualFold(op.SrvLvl, op.Level) {
				o += "-upgraded"
			}
		}
		out = append(out, fmt.Sprintf("%d.%s@%s:%s", op.Step, tag, op.Target, o))
	}
	v.outcome = strings.Join(out, " ")

	ctx := "no-fault"
	joined := " " + strings.Join(syms, " ") + " "
	switch {
	case strings.Contains(joined, " C"):
		ctx = "after-restart"
	case strings.Contains(joined, " P"):
		ctx = "after-partition"
	case strings.Contains(joined, " X "):
		ctx = "after-leader-change"
	}

	if v.settled {
		for i := 1; i < len(v.dumps); i++ {
			if v.dumps[i] != v.dumps[0] && v.dumps[i] != "(down)" && v.dumps[0] != "(down)" {
				v.vioKey = "C02:replicas-differ-at-same-log-index:" + ctx
				v.vioWhat = fmt.Sprintf("history %v: after heal and quiescence node 0 holds %q but node %d holds %q", syms, v.dumps[0], i, v.dumps[i])
				v.outcome += " DIVERGED"
				return
			}
		}
	}

	if vcLinearizable(lin, 0) {
		v.outcome += " => linearizable"
		return
	}
	v.outcome += " => NOT-LINEARIZABLE"

	role := func(op *c02Op) string {
		switch {
		case op.LeaderThen >= 0 && op.Served >= 0 && op.Served != op.LeaderThen:
			return "deposed-leader"
		case op.FirstOfTerm:
			return "new-leader-first-read"
		default:
			return "leader"
		}
	}
	describe := func(op *c02Op) string {
		return fmt.Sprintf("%s read (step %d, sent to %s=n%d, served by n%d at level %s, invoked %s, returned %s) returned %s",
			op.Level, op.Step, op.Target, op.Node, op.Served, op.SrvLvl, time.Duration(op.Inv), time.Duration(op.Resp), c02ValName(op.Val, wOrd))
	}
	writesOnly := func() []vcLinOp {
		var ws []vcLinOp
		for _, o := range lin {
			if o.Write {
				ws = append(ws, o)
			}
		}
		return ws
	}
	blame := func(op *c02Op, kind string) {
		if op.Final {
			v.vioKey = "C02:lost-acked-write:" + ctx
			if kind != "stale" {
				v.vioKey = "C02:final-read-" + kind + ":" + ctx
			}
		} else {
			v.vioKey = fmt.Sprintf("C02:%s-%s-read:%s", kind, op.Level, role(op))
		}
	}
	var reads []int
	for i, o := range lin {
		if !o.Write {
			reads = append(reads, i)
		}
	}
	sort.Slice(reads, func(a, b int) bool { return lin[reads[a]].Inv < lin[reads[b]].Inv })
	// one read against all writes
	for _, ri := range reads {
		if vcLinearizable(append(writesOnly(), lin[ri]), 0) {
			continue
		}
		op := idx[ri]
		kind := "stale"
		if op.Val != 0 {
			if w, ok := written[op.Val]; !ok {
				kind = "unwritten-value"
				if refused[op.Val] {
					kind = "refused-write-visible"
				}
			} else if w.Inv > op.Resp {
				kind = "from-the-future"
			}
		}
		blame(op, kind)
		v.vioWhat = fmt.Sprintf("history %v: %s although %s", syms, describe(op), c02AckedBefore(op, v.ops, wOrd))
		return
	}
	// two reads against all writes: the later one contradicts the earlier one
	for a := 0; a < len(reads); a++ {
		for b := a + 1; b < len(reads); b++ {
			if vcLinearizable(append(writesOnly(), lin[reads[a]], lin[reads[b]]), 0) {
				continue
			}
			op, first := idx[reads[b]], idx[reads[a]]
			blame(op, "stale")
			v.vioWhat = fmt.Sprintf("history %v: %s although an earlier %s", syms, describe(op), describe(first))
			return
		}
	}
	v.vioKey = "C02:non-linearizable-history:" + ctx
	v.vioWhat = fmt.Sprintf("history %v: no linearization of %s", syms, v.outcome)
}

func c02ValName(val int, wOrd map[int]int) string {
	if val == 0 {
		return "no row (the state before every write)"
	}
	return fmt.Sprintf("the value of write #%d", wOrd[val])
}

func c02AckedBefore(r *c02Op, ops []*c02Op, wOrd map[int]int) string {
	var s []string
	for _, op := range ops {
		if op.Kind == "W" && op.Outcome == "ok" && op.Resp < r.Inv {
			s = append(s, fmt.Sprintf("write #%d (step %d, served by n%d) was acknowledged at %s", wOrd[op.Val], op.Step, op.Served, time.Duration(op.Resp)))
		}
	}
	if len(s) == 0 {
		return "no write acknowledged before it began explains that value"
	}
	return strings.Join(s, ", ") + " before the read began"
}

type c02Status struct {
	what  string
	since time.Time
}

type c02Replay struct {
	History []string `json:"history"`
	API     string   `json:"api"`
	Ops     any      `json:"ops,omitempty"`
	Trace   any      `json:"trace,omitempty"`
}

func TestVerif_C02(t *testing.T) {
	r := kit.Start(t, "C02", "hist")
	defer r.Finish()
	start := time.Now()
	vcSelfTestLin(t)
	if os.Getenv("VERIF_DEBUG") == "" {
		// raft and rqlite log to os.Stderr; a cluster run produces hundreds of MB of it
		if f, err := os.OpenFile(os.DevNull, os.O_WRONLY, 0); err == nil {
			os.Stderr = f
		}
	}

	depth := r.Pick(3, 4)
	alpha := c02Quick
	type job struct {
		syms []string
		api  vcAPI
	}
	var jobs []job
	var ruleExtra string
	if r.Thorough() {
		// the full alphabet to depth 3 with both APIs, the quick alphabet to depth 4
		seen := map[string]bool{}
		add := func(hs [][]string, api vcAPI) {
			for _, h := range hs {
				k := strings.Join(h, " ") + "/" + api.String()
				if !seen[k] {
					seen[k] = true
					jobs = append(jobs, job{h, api})
				}
			}
		}
		// in this order, so that a time cap cuts the deepest histories
		add(c02Histories(c02Full, 3), vcAPIQuery)
		add(c02Histories(c02Full, 3), vcAPIRequest)
		add(c02Histories(c02Quick, depth), vcAPIQuery)
		ruleExtra = fmt.Sprintf("thorough: alphabet %v to depth 3 through Execute/Query and through Request, plus alphabet %v to depth %d through Execute/Query", c02Full, c02Quick, depth)
	} else {
		for _, h := range c02Histories(alpha, depth) {
			jobs = append(jobs, job{h, vcAPIQuery})
		}
		for _, h := range c02Histories(alpha, depth) {
			// Request duplicates Query's read-index/upgrade logic: all histories to depth 2,
			// and those of depth 3 whose last step contains a read
			if last := h[len(h)-1]; len(h) <= 2 || strings.ContainsAny(last, "LS") {
				jobs = append(jobs, job{h, vcAPIRequest})
			}
		}
		// the deposed-leader windows need a write before and reads after; two reads after
		// it (is the second one still protected when the first one is stuck?) is depth 4
		for _, p := range []string{"Pl", "Pd"} {
			for _, r1 := range []string{"L", "S", "Lo", "So"} {
				for _, r2 := range []string{"L", "S", "Lo", "So"} {
					jobs = append(jobs, job{[]string{"W", p, r1, r2}, vcAPIQuery}, job{[]string{"W", p, r1, r2}, vcAPIRequest})
				}
			}
		}
		ruleExtra = fmt.Sprintf("quick: alphabet %v to depth %d through Store.Execute/Query; through Store.Request to depth 2 and, at depth 3, the histories whose last step contains a read; plus the 32 depth-4 histories [W, Pl|Pd, r1, r2] with r1, r2 in {L, S, Lo, So} through both", alpha, depth)
	}
	if rp := kit.Replay(); rp != nil {
		var x c02Replay
		if err := json.Unmarshal(rp, &x); err != nil || len(x.History) == 0 {
			t.Fatalf("harness: bad replay: %v", err)
		}
		api := vcAPIQuery
		if x.API == vcAPIRequest.String() {
			api = vcAPIRequest
		}
		jobs = nil
		for i := 0; i < 5; i++ {
			jobs = append(jobs, job{x.History, api})
		}
	}
	if only := os.Getenv("VERIF_C02_ONLY"); only != "" {
		// development aid: "Pl W Lo;W Pd L" runs just these histories (through both APIs)
		jobs = nil
		for _, hs := range strings.Split(only, ";") {
			if f := strings.Fields(hs); len(f) > 0 {
				jobs = append(jobs, job{f, vcAPIQuery}, job{f, vcAPIRequest})
			}
		}
	}
	if sh := os.Getenv("VERIF_SHARD"); sh != "" {
		var i, n int
		if _, err := fmt.Sscanf(sh, "%d/%d", &i, &n); err == nil && n > 0 {
			var mine []job
			for k, j := range jobs {
				if k%n == i {
					mine = append(mine, j)
				}
			}
			jobs = mine
		}
	}
	r.Rule("every sequence of steps (1..depth) over the step alphabet, with 'old'-targeted steps only after a deposing step, heal only while partitioned, one partition at a time; each run on a live 3-node cluster of real Stores, followed by heal + one final strong read + comparison of all nodes' tables at the same log index. " + ruleExtra + ". Steps: W/L/S = write/linearizable read/strong read at the leader; Wo/Lo/So at the most recently deposed leader; Wf/Lf/Sf at a follower that forwards; a|b = two clients concurrently; Pl = isolate leader and elect a successor; Pd = Pl plus all entry-carrying AppendEntries dropped on the majority side; Pf = isolate a follower; H = heal; X = leadership transfer; Cl/Cf = crash+restart leader/follower. evaluations = histories run; transitions = steps executed; states = histories whose register history was checked; distinct = (history, API, what every operation observed)")
	r.Assume("the interleavings inside hashicorp/raft, SQLite and the Go runtime are not controlled: each history is run once per listed API with whatever schedule the run produced; the oracle is sound for every schedule")
	r.Assume("elections are triggered by delivering raft's TimeoutNow message to the chosen node and all raft timeouts are 5 s, so that a deposed leader remains a believer for the rest of a history; crashes are Store.Close without snapshot followed by a reopen on the same directory (no torn writes)")
	r.Assume("forwarding is emulated in the harness (a node that answers ErrNotLeader hands the request to the Store of the node it names as leader if the network matrix lets the two talk); cluster/client.go, cluster/service.go and proxy/proxy.go are not executed")
	r.Note("3 nodes only. Intra-raft interleavings uncontrolled (DESIGN 1.6): this is exhaustive over histories, not over schedules.")

	var next, done atomic.Int64
	var wg sync.WaitGroup
	var mu sync.Mutex
	var nUnsettled, nRebuilt, nPending, nOps, nWedged, nHung, nAbandoned, nNoCluster int64
	// all clusters of this run live under one directory, removed when the test ends - also
	// those of clusters that had to be abandoned
	shm := os.TempDir()
	if st, err := os.Stat("/dev/shm"); err == nil && st.IsDir() {
		shm = "/dev/shm"
	}
	base, err := os.MkdirTemp(shm, "vc-cluster-c02-")
	if err != nil {
		t.Fatalf("harness: %v", err)
	}
	defer os.RemoveAll(base)
	var phases [5]time.Duration
	type slow struct {
		d time.Duration
		s string
	}
	var slowest []slow
	workers := c02Workers
	if r.Thorough() {
		workers = 32
	}
	if len(jobs) < workers {
		workers = len(jobs)
	}
	if w, err := strconv.Atoi(os.Getenv("VERIF_C02_WORKERS")); err == nil && w > 0 {
		workers = w
	}
	if n, err := strconv.Atoi(os.Getenv("VERIF_C02_LIMIT_S")); err == nil && n > 0 {
		c02HistoryLimit = time.Duration(n) * time.Second
	}
	capped := atomic.Bool{}
	var dumpOnce atomic.Bool
	// progress line every 30 s, and one goroutine dump if a worker sits on one history for 3 minutes
	current := make([]atomic.Value, workers)
	stopWatch := make(chan struct{})
	defer close(stopWatch)
	go func() {
		for {
			select {
			case <-stopWatch:
				return
			case <-time.After(30 * time.Second):
			}
			var cur []string
			for w := range current {
				if v := current[w].Load(); v != nil {
					st := v.(c02Status)
					cur = append(cur, fmt.Sprintf("w%d:%s(%ds)", w, st.what, int(time.Since(st.since).Seconds())))
				}
			}
			fmt.Printf("harness progress: %d/%d histories done after %v; %s\n", done.Load(), len(jobs), time.Since(start).Round(time.Second), strings.Join(cur, " "))
		}
	}()
	for w := 0; w < workers; w++ {
		wg.Add(1)
		go func(w int) {
			defer wg.Done()
			var c *vcCluster
			defer func() {
				if c != nil {
					c.Close()
				}
			}()
			// runWatched runs one history (starting a cluster first if the worker has none) under
			// the per-history limit. hung=true: the limit passed; the cluster is marked wedged and
			// leaked together with the goroutine that is stuck in it (its files go with the run's
			// base directory), and whatever that goroutine may still produce is discarded.
			runWatched := func(j job) (v *c02Verdict, hung bool, err error) {
				type result struct {
					v   *c02Verdict
					c   *vcCluster
					err error
				}
				ch := make(chan result, 1)
				var abandoned atomic.Bool
				cur := c
				go func() {
					cc := cur
					var err error
					for try := 0; cc == nil && try < 3 && !abandoned.Load(); try++ {
						if cc, err = vcNewCluster(vcOpts{N: 3, Base: base}); err != nil {
							cc = nil
							t.Logf("harness: cluster start failed (try %d): %v", try, err)
						}
					}
					var v *c02Verdict
					if cc != nil && !abandoned.Load() {
						v = c02RunHistory(cc, j.syms, j.api)
					}
					if abandoned.Load() {
						if cc != nil {
							cc.Close() // nobody is waiting any more: tidy up if that is still possible
						}
						return
					}
					ch <- result{v, cc, err}
				}()
				select {
				case o := <-ch:
					c = o.c
					if o.v == nil {
						return nil, false, fmt.Errorf("cannot start a cluster: %v", o.err)
					}
					return o.v, false, nil
				case <-time.After(c02HistoryLimit):
					abandoned.Store(true)
					if cur != nil {
						cur.wedged.Store(true)
					}
					c = nil
					return nil, true, nil
				}
			}
			for {
				k := int(next.Add(1)) - 1
				if k >= len(jobs) {
					return
				}
				if r.OverBudget() {
					capped.Store(true)
					return
				}
				j := jobs[k]
				var v *c02Verdict
				for attempt := 0; attempt < 2; attempt++ {
					current[w].Store(c02Status{fmt.Sprintf("%v/%s#%d", j.syms, j.api, attempt), time.Now()})
					var hung bool
					var err error
					v, hung, err = runWatched(j)
					if err != nil {
						mu.Lock()
						nNoCluster++
						mu.Unlock()
						t.Logf("harness: worker %d stops: %v", w, err)
						return
					}
					if hung {
						mu.Lock()
						nHung++
						mu.Unlock()
						t.Logf("harness: history %v (%s) attempt %d exceeded %v; its cluster is abandoned", j.syms, j.api, attempt, c02HistoryLimit)
						if dumpOnce.CompareAndSwap(false, true) {
							buf := make([]byte, 4<<20)
							buf = buf[:runtime.Stack(buf, true)]
							fmt.Printf("harness watchdog: goroutines at the first abandoned attempt (%v/%s):\n%s\n", j.syms, j.api, buf)
						}
						v = nil
						if r.OverBudget() {
							break
						}
						continue
					}
					if v.settled {
						break
					}
					mu.Lock()
					nRebuilt++
					if v.wedged {
						nWedged++
					}
					mu.Unlock()
					c.Close()
					c = nil
					if v.vioKey != "" {
						break
					}
				}
				if v == nil {
					// exceeded the limit on every attempt: no verdict, reported as a cap, never as a violation
					done.Add(1)
					mu.Lock()
					r.Eval(1)
					nAbandoned++
					r.Distinct(strings.Join(j.syms, " ") + "/" + j.api.String() + " :: abandoned")
					mu.Unlock()
					continue
				}
				done.Add(1)
				mu.Lock()
				r.Eval(1)
				r.Transition(v.steps)
				if v.ops != nil {
					r.State(1)
				}
				nOps += int64(v.nOps)
				var tot time.Duration
				for i, d := range v.phase {
					phases[i] += d
					tot += d
				}
				slowest = append(slowest, slow{tot, fmt.Sprintf("%v %v %v", j.syms, v.phase, v.trace)})
				nPending += int64(v.nPending)
				if !v.settled {
					nUnsettled++
					t.Logf("history %v (%s): cluster did not come back: %s; trace %v", j.syms, j.api, v.why, v.trace)
				}
				r.Distinct(strings.Join(j.syms, " ") + "/" + j.api.String() + " :: " + v.outcome)
				if k%211 == 0 || (strings.Contains(v.outcome, "Lo:sees") && k%17 == 0) {
					r.Sample(map[string]any{"history": j.syms, "api": j.api.String(), "observed": v.outcome})
				}
				if v.vioKey != "" {
					r.Violation(v.vioKey, v.vioWhat, c02Replay{History: j.syms, API: j.api.String(), Ops: v.ops, Trace: v.trace})
				}
				if os.Getenv("VERIF_C02_VERBOSE") != "" {
					var tm []string
					for _, op := range v.ops {
						tm = append(tm, fmt.Sprintf("%d.%s%s@n%d[%dms..%dms srv n%d fwd=%v]", op.Step, op.Kind, op.Level, op.Node, op.Inv/1e6, op.Resp/1e6, op.Served, op.Fwd))
					}
					t.Logf("%v/%s: %s | %s | %v", j.syms, j.api, v.outcome, strings.Join(tm, " "), v.phase)
				}
				mu.Unlock()
			}
		}(w)
	}
	wg.Wait()
	sort.Slice(slowest, func(a, b int) bool { return slowest[a].d > slowest[b].d })
	t.Logf("time by phase (summed over workers) steps=%v settle=%v stragglers=%v final-read=%v quiesce=%v", phases[0], phases[1], phases[2], phases[3], phases[4])
	for i := 0; i < len(slowest) && i < 12; i++ {
		t.Logf("slow: %v %s", slowest[i].d, slowest[i].s)
	}
	if done.Load() == 0 && len(jobs) > 0 {
		t.Fatalf("harness: no history could be run (clusters do not start)")
	}
	if capped.Load() {
		r.Cap("time budget used up after %d of %d histories", done.Load(), len(jobs))
	}
	if nAbandoned > 0 {
		r.Cap("%d histories exceeded the per-history limit of %v on both attempts and were abandoned without a verdict", nAbandoned, c02HistoryLimit)
	}
	if nNoCluster > 0 && !capped.Load() && done.Load() < int64(len(jobs)) {
		r.Cap("%d workers stopped because no cluster could be started; %d of %d histories run", nNoCluster, done.Load(), len(jobs))
	}
	if nUnsettled > 0 {
		r.Cap("%d histories left the cluster unable to settle/quiesce within 30 s twice: no replica-agreement verdict for them", nUnsettled)
	}
	r.Set("histories", len(jobs))
	r.Set("scripted_client_operations", nOps)
	t.Logf("operations without an answer by the end of their history: %d; clusters discarded: %d (close hung: %d); attempts over the %v limit: %d (histories abandoned: %d)", nPending, nRebuilt, nWedged, c02HistoryLimit, nHung, nAbandoned)
	r.Note("A run in which Store.Close(true) of a node being crashed does not return within 15 s (hashicorp/raft v1.7.3 pipelined-replication goroutine deadlock, see vcCluster.Crash; a liveness defect of the dependency, not a C02 matter) is abandoned and repeated on a fresh cluster; the log of the part says how many.")
}
