package store

import (
	"context"
	gosql "database/sql"
	"encoding/json"
	"fmt"
	"os"
	"path/filepath"
	"strings"
	"sync"
	"testing"
	"time"

	_ "github.com/mattn/go-sqlite3"
	"github.com/rqlite/rqlite/v10/command/proto"
	"github.com/rqlite/rqlite/v10/internal/random"
	kit "github.com/rqlite/rqlite/v10/internal/verifkit"
)

// C17, part "seq": SEQUENCES of query-endpoint requests (and unified requests
// treated as read-only) on one Store.
//
// The single-request part (c17_reads_test.go) cannot reach behaviour that needs
// connection state left behind by an earlier request: a PRAGMA that sticks to a
// pooled read-only connection, an ATTACHed database, a TEMP table. Here every
// sequence of 1..3 requests over the alphabet below is sent to one real
// single-node Store whose read-only pool is limited to ONE connection
// (Store.MaxReadOnlyConns = 1, the -db-max-ro-conns knob), so that every
// request of a sequence meets the connection state its predecessors left.
//
//	P  PRAGMA query_only off, in the plain spelling (refused by the PRAGMA guard)
//	   and in the spellings that pass it (C15 known-finding classes: call syntax,
//	   leading comment, quoted name, inner comment, leading empty statement,
//	   later statement, quoted schema prefix, EXPLAIN prefix)
//	A  ATTACH DATABASE {the node's own database file | a fresh scratch file |
//	   ':memory:'} AS x   (thorough: also the own file as a file: URI with mode=rw)
//	W  a write addressed through the alias: INSERT / UPDATE / DELETE / CREATE TABLE
//	   in x., PRAGMA x.user_version=9
//	D  DETACH DATABASE x
//	T  CREATE TEMP TABLE tt(a); INSERT INTO tt VALUES(1)   (connection state only)
//	S  SELECT * FROM t
//	X  INSERT INTO t ... addressed to main (control)
//
// Each sequence is run in every mode {one request per symbol, all through
// Store.Query | all through Store.Request | alternating; "batch": the whole
// sequence as the statements array of ONE Store.Query / ONE Store.Request
// request - a request's statements run one after the other on one connection,
// whatever the size of the pool} at each of NONE, WEAK, STRONG, LINEARIZABLE,
// AUTO (alternating: NONE only). Quick tier: the full product of length 1..3 at
// NONE for the four non-alternating modes; elsewhere the product of length 1..2
// plus every chain [pragma, attach, alias write] / [attach, pragma, alias write]
// for every spelling. Thorough: the full product everywhere.
//
// Oracle (unchanged): the node's database - schema, every row of every table,
// user_version, read through an INDEPENDENT read-only SQLite connection to the
// node's database file - is the same before and after every Store.Query
// request, and before and after every Store.Request request in which no
// statement was answered with an execute result. Writes to the scratch file,
// to ':memory:' or to TEMP tables are not changes of the node's database and
// are allowed. The raft log index is recorded with every violation.
//
// Section "busy": with the one read-only connection held by a stalled read,
// every write text is sent to the query endpoint / as a read-classified unified
// request; it must not change the database however the request is served.

type c17qSym struct {
	name  string // symbol name; for P symbols the spelling class
	class string // pragma-off | attach | alias-write | detach | temp | select | direct-write
	kind  string // for writes: dml | ddl | pragma ; for attach: own-file | scratch-file | memory
	sql   string // {OWN} and {SCRATCH} are replaced per worker
}

var c17qPragmaSpellings = []struct{ class, text string }{
	{"guarded-assignment", "PRAGMA query_only=%d"}, // refused by the guard: control
	{"call-syntax", "PRAGMA query_only(%d)"},
	{"leading-comment", "-- c\nPRAGMA query_only=%d"},
	{"quoted-name", "PRAGMA \"query_only\"=%d"},
	{"inner-comment", "PRAGMA/**/query_only=%d"},
	{"leading-empty-statement", ";PRAGMA query_only=%d"},
	{"later-statement", "SELECT 1;PRAGMA query_only=%d"},
	{"quoted-schema-prefix", "PRAGMA \"main\".query_only=%d"},
	{"explain-prefix", "EXPLAIN PRAGMA query_only=%d"},
}

func c17qPragma(i int) c17qSym {
	p := c17qPragmaSpellings[i]
	return c17qSym{name: p.class, class: "pragma-off", sql: fmt.Sprintf(p.text, 0)}
}

var c17qAttach = []c17qSym{
	{"attach-own", "attach", "own-file", "ATTACH DATABASE '{OWN}' AS x"},
	{"attach-scratch", "attach", "scratch-file", "ATTACH DATABASE '{SCRATCH}' AS x"},
	{"attach-memory", "attach", "memory", "ATTACH DATABASE ':memory:' AS x"},
}
var c17qAttachURI = c17qSym{"attach-own-uri", "attach", "own-file", "ATTACH DATABASE 'file:{OWN}?mode=rw' AS x"}

var c17qRest = []c17qSym{
	{"x-insert", "alias-write", "dml", "INSERT INTO x.t(v) VALUES('m')"},
	{"x-update", "alias-write", "dml", "UPDATE x.t SET v='m' WHERE id=1"},
	{"x-delete", "alias-write", "dml", "DELETE FROM x.t WHERE id=1"},
	{"x-create-table", "alias-write", "ddl", "CREATE TABLE x.z(a)"},
	{"x-pragma-user-version", "alias-write", "pragma", "PRAGMA x.user_version=9"},
	{"detach", "detach", "", "DETACH DATABASE x"},
	{"temp-create", "temp", "ddl", "CREATE TEMP TABLE tt(a)"},
	{"temp-insert", "temp", "dml", "INSERT INTO tt VALUES(1)"},
	{"select", "select", "", "SELECT * FROM t"},
	{"direct-insert", "direct-write", "dml", "INSERT INTO t(v) VALUES('m')"},
}

// writes sent while the read-only pool is busy
var c17qBusyWrites = []c17qSym{
	{"insert", "direct-write", "dml", "INSERT INTO t(v) VALUES('m')"},
	{"update", "direct-write", "dml", "UPDATE t SET v='m' WHERE id=1"},
	{"delete", "direct-write", "dml", "DELETE FROM t WHERE id=1"},
	{"create-table", "direct-write", "ddl", "CREATE TABLE z(a)"},
	{"pragma-user-version", "direct-write", "pragma", "PRAGMA user_version=7"},
	{"select-then-insert", "direct-write", "dml", "SELECT 1;INSERT INTO t(v) VALUES('m')"},
}

type c17qMode struct {
	name  string
	eps   [2]string // endpoint of even / odd steps
	lvl   proto.ConsistencyLevel
	batch bool // the whole sequence is the statements array of ONE request
}

func c17qModes() []c17qMode {
	var ms []c17qMode
	for _, l := range c17Levels {
		ms = append(ms, c17qMode{"query", [2]string{"query", "query"}, l, false})
		ms = append(ms, c17qMode{"request", [2]string{"request", "request"}, l, false})
		ms = append(ms, c17qMode{"query-batch", [2]string{"query", "query"}, l, true})
		ms = append(ms, c17qMode{"request-batch", [2]string{"request", "request"}, l, true})
	}
	ms = append(ms, c17qMode{"query-request", [2]string{"query", "request"}, proto.ConsistencyLevel_NONE, false})
	ms = append(ms, c17qMode{"request-query", [2]string{"request", "query"}, proto.ConsistencyLevel_NONE, false})
	return ms
}

// c17qSequences returns the sequences of symbol indexes to run: the full
// product of length 1..maxLen over `full`, plus, for every symbol of `chain`
// (pragma spellings not in the product), every chain [p, attach, alias-write]
// and [attach, p, alias-write].
func c17qSequences(alpha []c17qSym, full []int, chain []int, maxLen int) [][]int {
	var out [][]int
	var rec func(prefix []int)
	rec = func(prefix []int) {
		if len(prefix) > 0 {
			out = append(out, append([]int(nil), prefix...))
		}
		if len(prefix) == maxLen {
			return
		}
		for _, a := range full {
			rec(append(prefix, a))
		}
	}
	rec(nil)
	seen := map[string]bool{}
	for _, q := range out {
		seen[fmt.Sprint(q)] = true
	}
	for _, p := range chain {
		for i, a := range alpha {
			if a.class != "attach" {
				continue
			}
			for j, w := range alpha {
				if w.class != "alias-write" {
					continue
				}
				for _, q := range [][]int{{p, i, j}, {i, p, j}} {
					if !seen[fmt.Sprint(q)] {
						seen[fmt.Sprint(q)] = true
						out = append(out, q)
					}
				}
			}
		}
	}
	return out
}

type c17qReplay struct {
	Section  string   `json:"section"`
	Mode     string   `json:"mode"`
	Level    string   `json:"level"`
	Sequence []string `json:"sequence"`
	SQL      []string `json:"sql,omitempty"`
}

func TestVerif_C17_seq(t *testing.T) {
	r := kit.Start(t, "C17", "seq")
	defer r.Finish()
	r.Rule("every sequence of 1..3 requests over the symbol alphabet {query_only-off spellings, ATTACH own file/scratch file/:memory: AS x, INSERT/UPDATE/DELETE/CREATE TABLE/PRAGMA user_version through x., DETACH, TEMP table create+insert, SELECT, INSERT into main} x mode {one request per symbol through Store.Query / Store.Request / alternating, or the whole sequence as the statements of ONE request} x level, on a real single-node Store with ONE pooled read-only connection; node database (schema, all rows, user_version) read through an independent connection before and after every request; plus every write text sent while the one read-only connection is held by a stalled read; distinct = (endpoint, level, symbol class, per-statement outcome, changed)")
	r.Assume("Store.MaxReadOnlyConns=1 (-db-max-ro-conns=1) makes the pooled connection a request meets deterministic; with the default of 256 the same state is reached on whichever pooled connection a request happens to get")
	r.Assume("snapshotting is disabled on the harness Store (threshold raised): no checkpoint runs while the independent connection reads")
	r.Note("writes that land in the scratch file, in ':memory:' or in TEMP tables are connection state, not node database content: allowed")

	// alphabet for this tier
	var alpha []c17qSym
	var full, chainOnly []int
	nP := len(c17qPragmaSpellings)
	for i := 0; i < nP; i++ {
		alpha = append(alpha, c17qPragma(i))
		if r.Thorough() || i < 3 {
			full = append(full, i)
		} else {
			chainOnly = append(chainOnly, i)
		}
	}
	for _, a := range c17qAttach {
		full = append(full, len(alpha))
		alpha = append(alpha, a)
	}
	if r.Thorough() {
		full = append(full, len(alpha))
		alpha = append(alpha, c17qAttachURI)
	}
	for _, a := range c17qRest {
		full = append(full, len(alpha))
		alpha = append(alpha, a)
	}
	var allP, attachIdx []int
	for i, a := range alpha {
		if a.class == "pragma-off" {
			allP = append(allP, i)
		}
		if a.class == "attach" {
			attachIdx = append(attachIdx, i)
		}
	}
	_ = attachIdx
	seqsFull := c17qSequences(alpha, full, chainOnly, 3)
	// quick tier, alternating modes and levels other than NONE (WEAK, LINEARIZABLE, AUTO take NONE's path below
	// the level decision; STRONG goes through the log, every request a raft apply):
	// product of length 1..2, and every 3-chain for every spelling
	seqsLite := c17qSequences(alpha, full, allP, 2)
	modes := c17qModes()
	seqsOf := func(m c17qMode) [][]int {
		if r.Thorough() || (m.lvl == proto.ConsistencyLevel_NONE && m.eps[0] == m.eps[1]) {
			return seqsFull
		}
		return seqsLite
	}

	var only *c17qReplay
	if raw := kit.Replay(); raw != nil {
		only = &c17qReplay{}
		if err := json.Unmarshal(raw, only); err != nil {
			t.Fatalf("harness: replay: %v", err)
		}
		seqsOf = func(m c17qMode) [][]int {
			sq := make([]int, 0, len(only.Sequence))
			for _, n := range only.Sequence {
				for i, a := range alpha {
					if a.name == n {
						sq = append(sq, i)
					}
				}
			}
			return [][]int{sq}
		}
	}
	r.Set("alphabet_symbols_in_product", len(full))
	r.Set("sequences_per_mode_full", len(seqsFull))
	r.Set("sequences_per_mode_lite", len(seqsLite))
	r.Set("modes", len(modes))

	// jobs: chunks of a mode's sequences, and the busy section of a mode; each job runs on
	// its own fresh Store, jobs run in parallel
	type job struct {
		m    c17qMode
		seqs [][]int
		off  int
		busy bool
	}
	var jobs []job
	const chunk = 400
	for _, m := range modes {
		if only != nil && (only.Mode != m.name || only.Level != m.lvl.String()) {
			continue
		}
		if only == nil || only.Section == "seq" {
			sq := seqsOf(m)
			for o := 0; o < len(sq); o += chunk {
				e := o + chunk
				if e > len(sq) {
					e = len(sq)
				}
				jobs = append(jobs, job{m: m, seqs: sq[o:e], off: o})
			}
		}
		if m.eps[0] == m.eps[1] && !m.batch && (only == nil || only.Section == "busy") {
			jobs = append(jobs, job{m: m, busy: true})
		}
	}
	r.Set("stores_opened", len(jobs))
	jobCh := make(chan job)
	var wg sync.WaitGroup
	for i := 0; i < 14; i++ {
		wg.Add(1)
		go func() {
			defer wg.Done()
			for j := range jobCh {
				w := c17qNewWorker(t, r, j.m)
				for k, sq := range j.seqs {
					w.runSequence(alpha, sq, j.off+k)
				}
				if j.busy {
					for _, bw := range c17qBusyWrites {
						if only != nil && (len(only.Sequence) != 1 || only.Sequence[0] != bw.name) {
							continue
						}
						w.runBusy(bw)
					}
				}
				w.close()
			}
		}()
	}
	for _, j := range jobs {
		jobCh <- j
	}
	close(jobCh)
	wg.Wait()
}

type c17qWorker struct {
	t          *testing.T
	r          *kit.Run
	m          c17qMode
	s          *Store
	closeLn    func()
	ind        *gosql.DB // independent read-only connection to the node's database file
	scratch    string
	base       string
	base0      string
	ctx        context.Context
	resets     int
	dv         int64  // data_version of the independent connection at the base image
	ownReal    string // the database path with symlinks resolved
	okSpelling int
}

func c17qNewWorker(t *testing.T, r *kit.Run, m c17qMode) *c17qWorker {
	dir := kit.Scratch(t)
	s, ln := mustNewStoreAtPathsLn(random.String(), dir, false)
	s.MaxReadOnlyConns = 1
	s.SnapshotThreshold = 1 << 40
	s.SnapshotThresholdWALSize = 0
	s.SnapshotInterval = time.Hour
	if err := s.Open(); err != nil {
		t.Fatalf("harness: open: %v", err)
	}
	if err := s.Bootstrap(NewServer(s.ID(), s.Addr(), true)); err != nil {
		t.Fatalf("harness: bootstrap: %v", err)
	}
	if _, err := s.WaitForLeader(120 * time.Second); err != nil {
		t.Fatalf("harness: leader: %v", err)
	}
	w := &c17qWorker{t: t, r: r, m: m, s: s, closeLn: func() { ln.Close() }, ctx: context.Background(),
		scratch: filepath.Join(dir, "attached-scratch.db")}
	ind, err := gosql.Open("sqlite3", "file:"+s.dbPath+"?mode=ro")
	if err != nil {
		t.Fatalf("harness: independent connection: %v", err)
	}
	ind.SetMaxOpenConns(1)
	w.ind = ind
	w.ownReal, _ = filepath.EvalSymlinks(s.dbPath)
	w.okSpelling = 1
	w.resetDB()
	w.base = w.digest()
	w.base0 = w.base
	w.dv = w.dataVersion()
	// one strong read, so that LINEARIZABLE requests are not upgraded to STRONG on first use
	sq := queryRequestFromString("SELECT 1", false, false, false)
	sq.Level = proto.ConsistencyLevel_STRONG
	if _, _, _, err := s.Query(w.ctx, sq); err != nil {
		t.Fatalf("harness: strong read: %v", err)
	}
	if qo, att, temps := w.connState(); qo != 1 || att != "" || temps != 0 {
		t.Fatalf("harness: fresh store's read-only connection is not in its initial state (query_only=%d attached=%q temp objects=%d)", qo, att, temps)
	}
	return w
}

func (w *c17qWorker) close() {
	w.r.Add("database_resets", int64(w.resets))
	w.ind.Close()
	w.s.Close(true)
	w.closeLn()
}

func (w *c17qWorker) resetDB() {
	if _, _, err := w.s.Execute(w.ctx, executeRequestFromStrings(c17Reset, false, false)); err != nil {
		w.t.Fatalf("harness: reset: %v", err)
	}
}

// digest reads schema, every row of every table and user_version of the node's
// database through the independent connection.
func (w *c17qWorker) digest() string {
	var b strings.Builder
	type obj struct{ typ, name, tbl, sql string }
	var objs []obj
	rows, err := w.ind.Query("SELECT type,name,tbl_name,coalesce(sql,'') FROM main.sqlite_master ORDER BY name")
	if err != nil {
		w.t.Fatalf("harness: digest schema: %v", err)
	}
	for rows.Next() {
		var o obj
		if err := rows.Scan(&o.typ, &o.name, &o.tbl, &o.sql); err != nil {
			w.t.Fatalf("harness: digest schema: %v", err)
		}
		objs = append(objs, o)
	}
	rows.Close()
	for _, o := range objs {
		fmt.Fprintf(&b, "[%s %s %s %q]", o.typ, o.name, o.tbl, o.sql)
	}
	for _, o := range objs {
		if o.typ != "table" {
			continue
		}
		fmt.Fprintf(&b, " %s:", o.name)
		rs, err := w.ind.Query(fmt.Sprintf("SELECT * FROM main.%q ORDER BY rowid", o.name))
		if err != nil {
			w.t.Fatalf("harness: digest rows of %s: %v", o.name, err)
		}
		cols, _ := rs.Columns()
		for rs.Next() {
			vals := make([]any, len(cols))
			ptrs := make([]any, len(cols))
			for i := range vals {
				ptrs[i] = &vals[i]
			}
			if err := rs.Scan(ptrs...); err != nil {
				w.t.Fatalf("harness: digest rows of %s: %v", o.name, err)
			}
			b.WriteString("(")
			for _, v := range vals {
				switch x := v.(type) {
				case []byte:
					fmt.Fprintf(&b, "x%x,", x)
				case string:
					fmt.Fprintf(&b, "%q,", x)
				default:
					fmt.Fprintf(&b, "%v,", x)
				}
			}
			b.WriteString(")")
		}
		rs.Close()
	}
	var uv int
	if err := w.ind.QueryRow("PRAGMA main.user_version").Scan(&uv); err != nil {
		w.t.Fatalf("harness: digest user_version: %v", err)
	}
	fmt.Fprintf(&b, " user_version=%d", uv)
	return b.String()
}

func (w *c17qWorker) sub(sql string) string {
	return strings.ReplaceAll(strings.ReplaceAll(sql, "{OWN}", w.s.dbPath), "{SCRATCH}", w.scratch)
}

func (w *c17qWorker) norm(s string) string {
	s = strings.ReplaceAll(s, w.s.dbPath, "<own>")
	s = strings.ReplaceAll(s, w.scratch, "<scratch>")
	return s
}

// send sends one request through the named endpoint at the worker's level.
// It returns a per-statement outcome string and whether every statement was
// treated as a read (no execute result).
func (w *c17qWorker) send(ctx context.Context, ep string, lvl proto.ConsistencyLevel, sql ...string) (outcome string, treatedAsRead bool) {
	treatedAsRead = true
	if ep == "query" {
		qr := queryRequestFromStrings(sql, false, false, false)
		qr.Level = lvl
		qr.LinearizableTimeout = int64(5 * time.Second)
		rows, _, _, err := w.s.Query(ctx, qr)
		if err != nil {
			return "request-error:" + w.norm(err.Error()), true
		}
		for _, q := range rows {
			if q.Error != "" {
				outcome += "error:" + w.norm(q.Error) + ";"
			} else {
				outcome += "rows;"
			}
		}
		return outcome, true
	}
	eqr := executeQueryRequestFromStrings(sql, lvl, false, false, false)
	eqr.LinearizableTimeout = int64(5 * time.Second)
	resp, _, _, err := w.s.Request(ctx, eqr)
	if err != nil {
		return "request-error:" + w.norm(err.Error()), true
	}
	for _, x := range resp {
		switch {
		case x.GetE() != nil:
			treatedAsRead = false
			if x.GetE().Error != "" {
				outcome += "execute-error:" + w.norm(x.GetE().Error) + ";"
			} else {
				outcome += "execute-result;"
			}
		case x.GetQ() != nil:
			if x.GetQ().Error != "" {
				outcome += "error:" + w.norm(x.GetQ().Error) + ";"
			} else {
				outcome += "rows;"
			}
		default:
			outcome += "error:" + w.norm(x.GetError()) + ";"
		}
	}
	return outcome, treatedAsRead
}

// roQuery runs one statement on the pooled read-only connection (Store.Query at NONE).
func (w *c17qWorker) roQuery(sql string) (*proto.QueryRows, error) {
	qr := queryRequestFromString(sql, false, false, false)
	qr.Level = proto.ConsistencyLevel_NONE
	rows, _, _, err := w.s.Query(w.ctx, qr)
	if err != nil {
		return nil, err
	}
	if len(rows) != 1 {
		return nil, fmt.Errorf("%d results", len(rows))
	}
	if rows[0].Error != "" {
		return nil, fmt.Errorf("%s", rows[0].Error)
	}
	return rows[0], nil
}

// connState observes the pooled read-only connection with ONE query-endpoint
// request: query_only, what x is attached to ("" = not attached), number of
// TEMP objects.
func (w *c17qWorker) connState() (queryOnly int64, attached string, temps int64) {
	qr := queryRequestFromStrings([]string{"PRAGMA query_only", "PRAGMA database_list", "SELECT count(*) FROM sqlite_temp_master"}, false, false, false)
	qr.Level = proto.ConsistencyLevel_NONE
	rows, _, _, err := w.s.Query(w.ctx, qr)
	if err != nil || len(rows) != 3 || rows[0].Error != "" || rows[1].Error != "" || rows[2].Error != "" || len(rows[0].Values) != 1 || len(rows[2].Values) != 1 {
		w.t.Fatalf("harness: probe of the read-only connection: %v %v", rows, err)
	}
	queryOnly = rows[0].Values[0].Parameters[0].GetI()
	for _, row := range rows[1].Values {
		if row.Parameters[1].GetS() != "x" {
			continue
		}
		switch f := row.Parameters[2].GetS(); {
		case f == "":
			attached = "memory"
		case f == w.s.dbPath || f == w.ownReal:
			attached = "own-file"
		default:
			attached = "scratch-file"
		}
	}
	temps = rows[2].Values[0].Parameters[0].GetI()
	return
}

// setQueryOnly switches query_only of the pooled connection through the query
// endpoint, with whichever spelling the guard lets through (remembered).
func (w *c17qWorker) setQueryOnly(v int) {
	n := len(c17qPragmaSpellings)
	for k := 0; k < n; k++ {
		i := (w.okSpelling + k) % n
		w.roQuery(fmt.Sprintf(c17qPragmaSpellings[i].text, v))
		if q, _, _ := w.connState(); q == int64(v) {
			w.okSpelling = i
			return
		}
	}
}

// cleanConn brings the pooled read-only connection (and, for unified modes,
// the read-write connection) back to the initial state, through the same
// endpoints, and verifies it by observation.
func (w *c17qWorker) cleanConn(cleanRW, touched bool) {
	qo, att, temps := w.connState()
	if qo != 1 || att != "" || temps != 0 {
		if att != "" {
			w.roQuery("DETACH DATABASE x")
		}
		if temps != 0 {
			if qo == 1 {
				w.setQueryOnly(0)
			}
			w.roQuery("DROP TABLE IF EXISTS temp.tt")
			qo = 0
		}
		if qo == 0 {
			w.setQueryOnly(1)
		}
		qo, att, temps = w.connState()
		if qo != 1 || att != "" || temps != 0 {
			w.t.Fatalf("harness: cannot bring the read-only connection back to its initial state (query_only=%d attached=%q temp objects=%d)", qo, att, temps)
		}
	}
	if cleanRW {
		// read-write connection: a STRONG unified request runs ATTACH there, any unified
		// request runs TEMP writes there (through the log).
		eqr := executeQueryRequestFromString("DETACH DATABASE x", proto.ConsistencyLevel_STRONG, false, false, false)
		w.s.Request(w.ctx, eqr)
		if _, _, err := w.s.Execute(w.ctx, executeRequestFromStrings([]string{"DROP TABLE IF EXISTS temp.tt"}, false, false)); err != nil {
			w.t.Fatalf("harness: clean read-write connection: %v", err)
		}
		w.dv = w.dataVersion()
	}
	if touched {
		os.Remove(w.scratch)
		os.Remove(w.scratch + "-wal")
		os.Remove(w.scratch + "-shm")
		os.Remove(w.scratch + "-journal")
	}
}

// dataVersion is PRAGMA data_version on the independent connection: it changes
// whenever another connection commits a change to the database file.
func (w *c17qWorker) dataVersion() int64 {
	var v int64
	if err := w.ind.QueryRow("PRAGMA main.data_version").Scan(&v); err != nil {
		w.t.Fatalf("harness: data_version: %v", err)
	}
	return v
}

// changed decides whether the node's database differs from the base image. The
// full read-back is done only when data_version moved (no commit by another
// connection => same content); runSequence cross-checks with an unconditional
// full read-back at the end of every sequence.
func (w *c17qWorker) changed() (bool, string) {
	dv := w.dataVersion()
	if dv == w.dv {
		return false, w.base
	}
	w.dv = dv
	after := w.digest()
	return after != w.base, after
}

func (w *c17qWorker) restore(what any) {
	w.resetDB()
	w.resets++
	w.dv = w.dataVersion()
	if w.digest() != w.base {
		w.t.Fatalf("harness: reset did not restore the database after %v", what)
	}
}

func (w *c17qWorker) runSequence(alpha []c17qSym, sq []int, si int) {
	start := time.Now()
	names := make([]string, len(sq))
	sqls := make([]string, len(sq))
	touched, touchedRW := false, false
	for i, a := range sq {
		names[i] = alpha[a].name
		sqls[i] = w.sub(alpha[a].sql)
		if c := alpha[a].class; c != "select" && c != "direct-write" {
			touched = true
		}
		if c := alpha[a].class; c == "attach" || c == "temp" {
			touchedRW = true
		}
	}
	usedRequest := false
	lastPragma := ""
	for i, a := range sq {
		sym := alpha[a]
		ep := w.m.eps[i%2]
		if ep == "request" {
			usedRequest = true
		}
		stmts := sqls[i : i+1]
		if w.m.batch {
			// one request whose statements array is the whole sequence; the statement named in
			// a violation key is the last write of the sequence (else its last statement)
			if i > 0 {
				break
			}
			stmts = sqls
		}
		w.r.Eval(1)
		liBefore := w.s.raft.LastIndex()
		outcome, treatedAsRead := w.send(w.ctx, ep, w.m.lvl, stmts...)
		liAfter := w.s.raft.LastIndex()
		for j, b := range sq {
			if (w.m.batch || j == i) && alpha[b].class == "pragma-off" && !strings.HasPrefix(outcome, "request-error") {
				lastPragma = alpha[b].name
			}
		}
		changed, after := w.changed()
		if w.m.batch {
			// the statement named in a violation key: the last write of the sequence that was
			// answered without an error (else the last statement)
			sym = alpha[sq[len(sq)-1]]
			parts := strings.Split(outcome, ";")
			for j, b := range sq {
				if c := alpha[b].class; (c == "alias-write" || c == "direct-write") && j < len(parts) && parts[j] == "rows" {
					sym = alpha[b]
				}
			}
		}
		if w.m.batch {
			w.r.Distinct(fmt.Sprintf("%s-batch|%s|%d statements|read=%v|changed=%v", ep, w.m.lvl, len(stmts), treatedAsRead, changed))
		} else {
			w.r.Distinct(fmt.Sprintf("%s|%s|%s:%s|%s|read=%v|changed=%v", ep, w.m.lvl, sym.class, sym.kind, outcome, treatedAsRead, changed))
		}
		if changed {
			if treatedAsRead {
				qo, att, _ := w.connState()
				attS := "main" // statement addressed to the main database: what x is attached to is irrelevant
				if sym.class == "alias-write" {
					attS = "no-attach"
					if att != "" {
						attS = "attach-" + att
					}
				}
				qoS := "query_only-on"
				if qo == 0 {
					qoS = "after-query_only-off:" + lastPragma
					if lastPragma == "" {
						qoS = "after-query_only-off:unknown-cause"
					}
				}
				stmt := sym.class
				if sym.class == "direct-write" {
					stmt = "direct-" + sym.kind
				}
				w.r.Violation(fmt.Sprintf("C17:db-changed:%s:%s:%s-%s:%s", ep, w.m.lvl, attS, qoS, stmt),
					fmt.Sprintf("mode %s level %s: request %d of the sequence %q (batch modes: ONE request with these statements; sent through Store.%s) was answered as a read (%s) but the node's database changed; raft last index %d -> %d; read-only connection after the request: query_only=%d, x attached to %q; before %s ; after %s",
						w.m.name, w.m.lvl, i+1, sqls, map[string]string{"query": "Query", "request": "Request"}[ep], outcome, liBefore, liAfter, qo, att, w.base, after),
					c17qReplay{Section: "seq", Mode: w.m.name, Level: w.m.lvl.String(), Sequence: names, SQL: sqls})
				w.base = w.base0
				w.restore(sqls)
			} else {
				// a legitimate write (answered with an execute result): the changed image is
				// the image the following requests must preserve; restored after the sequence
				w.base = after
			}
		}
	}
	if w.base != w.base0 {
		w.base = w.base0
		w.restore(sqls)
	}
	// cross-check of the data_version shortcut: unconditional full read-back
	if w.digest() != w.base {
		w.t.Fatalf("harness: database differs from the base image after the sequence %q although data_version did not move", sqls)
	}
	w.r.Validated(1)
	if si%499 == 0 {
		w.r.Sample(map[string]any{"mode": w.m.name, "level": w.m.lvl.String(), "sequence": names})
	}
	w.cleanConn(usedRequest && touchedRW, touched)
	if d := time.Since(start); d > 20*time.Second {
		// the pool retires an idle connection after 30 s; a sequence that took this long may
		// have lost its connection state half way: say so rather than count it as explored
		w.r.Cap("sequence %q in mode %s/%s took %s: pooled connection may have been recycled", names, w.m.name, w.m.lvl, d)
	}
}

// runBusy holds the single read-only connection with a stalled read and sends
// a write text meanwhile. Whatever connection serves it, the database must not
// change (query endpoint), or must change only with an execute result (unified).
func (w *c17qWorker) runBusy(sym c17qSym) {
	ep := w.m.eps[0]
	epName := map[string]string{"query": "Query", "request": "Request"}[ep]
	// the same request with a free pool (the case the single-request part covers):
	// its duration calibrates the wait below, and a text that changes the database
	// even then is not a busy-pool effect
	w.r.Eval(1)
	t0 := time.Now()
	o0, read0 := w.send(w.ctx, ep, w.m.lvl, sym.sql)
	free := time.Since(t0)
	if ch, after := w.changed(); ch {
		if read0 {
			shape := "single-second"
			if strings.Contains(sym.sql, ";") {
				shape = "multi-statement-text"
			}
			w.r.Violation(fmt.Sprintf("C17:db-changed:%s:%s:%s:%s", ep, w.m.lvl, shape, sym.kind),
				fmt.Sprintf("Store.%s at level %s, statement %q (read-only pool free): answered as a read (%s) but the database changed: before %s ; after %s", epName, w.m.lvl, sym.sql, o0, w.base, after),
				c17qReplay{Section: "busy", Mode: w.m.name, Level: w.m.lvl.String(), Sequence: []string{sym.name}, SQL: []string{sym.sql}})
			w.restore(sym.sql)
			return
		}
		w.restore(sym.sql)
	}

	stallCtx, release := context.WithCancel(w.ctx)
	stalled := make(chan struct{})
	go func() {
		defer close(stalled)
		qr := queryRequestFromString("SELECT 1", false, false, false)
		qr.Request.Statements[0].ForceStall = true
		qr.Level = proto.ConsistencyLevel_NONE
		w.s.Query(stallCtx, qr)
	}()
	// wait until the stalled read holds the connection: a probe read then cannot get one
	// (if probes keep being served - by whatever connection - go on after 2 s: the stalled read
	// has had ample time to take the idle connection by then)
	held := false
	for t1 := time.Now(); !held && time.Since(t1) < 2*time.Second; {
		pctx, cancel := context.WithTimeout(w.ctx, 50*time.Millisecond)
		qr := queryRequestFromString("SELECT 1", false, false, false)
		qr.Level = proto.ConsistencyLevel_NONE
		_, _, _, err := w.s.Query(pctx, qr)
		cancel()
		held = err != nil
		if !held {
			time.Sleep(5 * time.Millisecond)
		}
	}
	w.r.Eval(1)
	liBefore := w.s.raft.LastIndex()
	type res struct {
		outcome string
		read    bool
	}
	done := make(chan res, 1)
	go func() {
		o, rd := w.send(w.ctx, ep, w.m.lvl, sym.sql)
		done <- res{o, rd}
	}()
	wait := 50 * free
	if wait < time.Second {
		wait = time.Second
	}
	var out res
	servedWhileBusy := false
	select {
	case out = <-done:
		servedWhileBusy = true
	case <-time.After(wait):
	}
	release()
	<-stalled
	if !servedWhileBusy {
		out = <-done
	}
	liAfter := w.s.raft.LastIndex()
	changed, after := w.changed()
	w.r.Distinct(fmt.Sprintf("busy|%s|%s|%s:%s|%s|read=%v|served-while-busy=%v|changed=%v", ep, w.m.lvl, sym.class, sym.kind, out.outcome, out.read, servedWhileBusy, changed))
	if changed {
		if out.read {
			w.r.Violation(fmt.Sprintf("C17:db-changed:%s:%s:read-only-pool-busy:%s", ep, w.m.lvl, sym.kind),
				fmt.Sprintf("level %s: %q sent through Store.%s while the single read-only connection was held by a stalled read (held observed: %v; answered before the read was released: %v) was answered as a read (%s) but the node's database changed; raft last index %d -> %d; before %s ; after %s",
					w.m.lvl, sym.sql, epName, held, servedWhileBusy, out.outcome, liBefore, liAfter, w.base, after),
				c17qReplay{Section: "busy", Mode: w.m.name, Level: w.m.lvl.String(), Sequence: []string{sym.name}, SQL: []string{sym.sql}})
		}
		w.restore(sym.sql)
	}
	if w.digest() != w.base {
		w.t.Fatalf("harness: database differs from the base image after busy case %q although data_version did not move", sym.sql)
	}
}
