package store

// C10, part "transport": the transport compression pair of store/transport.go on
// the REAL raft NetworkTransport (TCP on loopback). The sender's
// NodeTransport.InstallSnapshot ships a snapshot stream; the receiver's
// NodeTransport.Consumer hands raft an RPC whose Reader is what raft's
// installSnapshot would io.Copy into the snapshot sink. Oracle: for every
// payload, with and without compression, the receiver reads exactly the bytes
// the sender streamed (then the sink/Restore checks of part "transfer" apply).
//
// Payloads are real snapshot streams (snapshot.NewSnapshotStreamer) of small
// SQLite databases: compressible ones, and ones dominated by a pseudo-random
// blob (zstd cannot shrink them, so the wire is a few bytes LONGER than Size).

import (
	"bytes"
	"database/sql"
	"fmt"
	"io"
	"math/rand"
	"os"
	"path/filepath"
	"testing"
	"time"

	"github.com/hashicorp/raft"
	"github.com/rqlite/rqlite/v10/internal/rarchive/zstd"
	kit "github.com/rqlite/rqlite/v10/internal/verifkit"
	"github.com/rqlite/rqlite/v10/snapshot"
)

type c10Payload struct {
	name   string
	class  string
	stream []byte
	wire   int // length of the compressed representation (informational)
}

func c10MakeStream(t *testing.T, dir, name string, pageSize, blobLen int, withWAL bool) c10Payload {
	t.Helper()
	p := filepath.Join(dir, name+".db")
	d, err := sql.Open("sqlite3", p)
	if err != nil {
		t.Fatal(err)
	}
	d.SetMaxOpenConns(1)
	exec := func(q string, args ...any) {
		if _, err := d.Exec(q, args...); err != nil {
			t.Fatalf("%s: %v", q, err)
		}
	}
	query := func(q string) {
		rows, err := d.Query(q)
		if err != nil {
			t.Fatalf("%s: %v", q, err)
		}
		for rows.Next() {
		}
		rows.Close()
	}
	query(fmt.Sprintf("PRAGMA page_size=%d", pageSize))
	if withWAL {
		query("PRAGMA journal_mode=WAL")
		query("PRAGMA wal_autocheckpoint=0")
	}
	exec("CREATE TABLE b(id INTEGER PRIMARY KEY, v BLOB)")
	exec("INSERT INTO b(v) VALUES(?)", []byte("transport/"+name))
	if blobLen > 0 {
		blob := make([]byte, blobLen)
		rand.New(rand.NewSource(int64(blobLen))).Read(blob)
		exec("INSERT INTO b(v) VALUES(?)", blob)
	}
	var wals []string
	if withWAL {
		query("PRAGMA wal_checkpoint(TRUNCATE)")
		exec("INSERT INTO b(v) VALUES(?)", []byte("transport/"+name+"/wal"))
		w, err := os.ReadFile(p + "-wal")
		if err != nil {
			t.Fatal(err)
		}
		wp := filepath.Join(dir, name+".walseg")
		if err := os.WriteFile(wp, w, 0o644); err != nil {
			t.Fatal(err)
		}
		wals = append(wals, wp)
		// stream the database as it was BEFORE the WAL segment
		img, err := os.ReadFile(p)
		if err != nil {
			t.Fatal(err)
		}
		d.Close()
		p = filepath.Join(dir, name+".base.db")
		if err := os.WriteFile(p, img, 0o644); err != nil {
			t.Fatal(err)
		}
	} else {
		d.Close()
	}
	str, err := snapshot.NewSnapshotStreamer(p, wals...)
	if err != nil {
		t.Fatal(err)
	}
	if err := str.Open(); err != nil {
		t.Fatal(err)
	}
	defer str.Close()
	b, err := io.ReadAll(str)
	if err != nil {
		t.Fatal(err)
	}
	c, err := zstd.NewCompressor(bytes.NewReader(b), int64(len(b)), zstd.DefaultBufferSize)
	if err != nil {
		t.Fatal(err)
	}
	w, _ := io.ReadAll(c)
	c.Close()
	class := "compressible"
	if len(w) > len(b) {
		class = "incompressible"
	}
	return c10Payload{name: name, class: class, stream: b, wire: len(w)}
}

type c10Received struct {
	data []byte
	err  error
	size int64
}

func TestVerif_C10_transport(t *testing.T) {
	r := kit.Start(t, "C10", "transport")
	defer r.Finish()
	r.Rule("payloads = real snapshot streams of SQLite databases {3-page 512B-page db; same + 1 WAL; 4 KiB-page db; databases holding one pseudo-random blob of 4 KiB..1 MiB in 512-byte pages, 1 MiB in 4 KiB pages} x {no compression, compression} sent by the real NodeTransport.InstallSnapshot over a real raft TCP NetworkTransport and read from the RPC reader produced by the real NodeTransport.Consumer; oracle: bytes read == bytes streamed, no error. distinct = (payload class, mode, outcome)")
	dir := kit.Scratch(t)
	payloads := []c10Payload{
		c10MakeStream(t, dir, "tiny-512", 512, 0, false),
		c10MakeStream(t, dir, "tiny-512+wal", 512, 0, true),
		c10MakeStream(t, dir, "tiny-4096", 4096, 0, false),
	}
	sizes := []int{4 << 10, 64 << 10, 256 << 10, 1 << 20}
	for _, n := range sizes {
		payloads = append(payloads, c10MakeStream(t, dir, fmt.Sprintf("blob%dk-512", n>>10), 512, n, false))
	}
	payloads = append(payloads, c10MakeStream(t, dir, "blob1024k-512+wal", 512, 1<<20, true))
	payloads = append(payloads, c10MakeStream(t, dir, "blob1024k-4096", 4096, 1<<20, false))

	for _, compress := range []bool{false, true} {
		mode := "plain"
		if compress {
			mode = "compressed"
		}
		mk := func() *NodeTransport {
			nt, err := raft.NewTCPTransport("127.0.0.1:0", nil, 3, 5*time.Second, io.Discard)
			if err != nil {
				t.Fatalf("transport: %v", err)
			}
			return NewNodeTransport(nt, compress)
		}
		send, recv := mk(), mk()
		got := make(chan c10Received, 1)
		done := make(chan struct{})
		go func() {
			ch := recv.Consumer()
			for {
				select {
				case <-done:
					return
				case rpc := <-ch:
					if cmd, ok := rpc.Command.(*raft.InstallSnapshotRequest); ok {
						// what raft.installSnapshot does with the reader: copy it all to the sink
						data, err := io.ReadAll(rpc.Reader)
						got <- c10Received{data, err, cmd.Size}
						rpc.Respond(&raft.InstallSnapshotResponse{Success: err == nil}, err)
					} else {
						rpc.Respond(nil, fmt.Errorf("unexpected rpc"))
					}
				}
			}
		}()
		for _, p := range payloads {
			r.Eval(1)
			replay := map[string]any{"payload": p.name, "stream_len": len(p.stream), "compressed_len": p.wire, "mode": mode}
			key := fmt.Sprintf("C10:transport-altered:%s:%s", p.class, mode)
			r.Guard(key, replay, func() {
				var resp raft.InstallSnapshotResponse
				req := &raft.InstallSnapshotRequest{RPCHeader: raft.RPCHeader{ProtocolVersion: raft.ProtocolVersionMax},
					SnapshotVersion: raft.SnapshotVersionMax, Term: 1, LastLogIndex: 10, LastLogTerm: 1, Size: int64(len(p.stream))}
				serr := send.InstallSnapshot("recv", recv.LocalAddr(), req, &resp, bytes.NewReader(p.stream))
				var rc c10Received
				select {
				case rc = <-got:
				case <-time.After(60 * time.Second):
					r.Violation("C10:transport-hang:"+p.class+":"+mode, fmt.Sprintf("%s: receiver never saw the InstallSnapshot RPC (sender error %v)", p.name, serr), replay)
					return
				}
				switch {
				case rc.err != nil:
					r.Distinct(p.class + "|" + mode + "|receiver read error")
					r.Violation(fmt.Sprintf("C10:clean-transfer-rejected:transport:%s:%s", p.class, mode),
						fmt.Sprintf("%s (%d bytes, compressed representation %d bytes): receiver's snapshot reader failed after %d bytes: %v (sender: %v)", p.name, len(p.stream), p.wire, len(rc.data), rc.err, serr), replay)
				case !bytes.Equal(rc.data, p.stream):
					r.Distinct(p.class + "|" + mode + "|receiver read different bytes")
					what := "clean-transfer-altered"
					if len(rc.data) < len(p.stream) && bytes.Equal(rc.data, p.stream[:len(rc.data)]) {
						what = "clean-transfer-rejected" // short read: raft's size check rejects it
					}
					r.Violation(fmt.Sprintf("C10:%s:transport:%s:%s", what, p.class, mode),
						fmt.Sprintf("%s (%d bytes, compressed representation %d bytes): receiver read %d bytes without error, differing from the stream (sender: %v)", p.name, len(p.stream), p.wire, len(rc.data), serr), replay)
				case serr != nil:
					r.Distinct(p.class + "|" + mode + "|sender error")
					r.Violation(fmt.Sprintf("C10:clean-transfer-rejected:transport:%s:%s", p.class, mode),
						fmt.Sprintf("%s: receiver got the exact stream but the sender reports %v", p.name, serr), replay)
				default:
					r.Distinct(p.class + "|" + mode + "|exact")
				}
				r.Sample(map[string]any{"payload": p.name, "mode": mode, "stream": len(p.stream), "compressed": p.wire, "received": len(rc.data), "receiver_err": fmt.Sprint(rc.err)})
			})
		}
		close(done)
		send.Close()
		recv.Close()
	}
	for _, p := range payloads {
		r.Note("payload %s: stream %d bytes, compressed representation %d bytes (%s)", p.name, len(p.stream), p.wire, p.class)
	}
}
