package store

// C03, part "follower": "... or of any minority of a cluster, at any moment" for a
// FOLLOWER that crashes while raft installs the leader's snapshot on it.
//
// A real three-voter cluster (kit: c02_cluster_test.go). Scenario:
//
//	1. set-up + writes through the leader, everybody applies them;
//	2. the victim (a follower) takes 0, 1 (full) or 2 (full + incremental) snapshots of
//	   its own - with a snapshot it also holds a clean_snapshot fingerprint - and
//	   receives one more write;
//	3. the victim is cut off; the leader writes (small + page-heavy), snapshots with one
//	   trailing log (full), optionally writes and snapshots again (incremental: the stream
//	   a follower installs is then database + WAL), optionally writes once more;
//	4. the crash recorder is installed on the VICTIM's data directory, the link is healed,
//	   raft installs the leader's snapshot on the victim through the real sink and the real
//	   fsmRestore, the victim catches up; the recorder is removed.
//
// Every write is non-idempotent (AUTOINCREMENT ids, a counter) and the model knows the
// database after every log index. Every image of the victim's directory is recovered
//
//	alone   New+Open on a copy, as a restarted node that cannot reach anybody (its network
//	        layer refuses every dial), read with level NONE. Oracle: the database equals the
//	        model AT THE INDEX THE NODE REPORTS (fsm index; raft's applied index): a node
//	        that claims index i holds exactly the writes up to i.
//	rejoin  the image is put in place of the victim's directory in the live cluster and the
//	        victim restarted there; once it has applied a fresh no-op committed by the leader
//	        its database must equal the leader's (no missing rows, no double-applied counter).

import (
	"context"
	"encoding/json"
	"errors"
	"fmt"
	"net"
	"os"
	"path/filepath"
	"sort"
	"strings"
	"sync"
	"sync/atomic"
	"testing"
	"time"

	"github.com/rqlite/rqlite/v10/command/proto"
	kit "github.com/rqlite/rqlite/v10/internal/verifkit"
	vfs "github.com/rqlite/rqlite/v10/internal/verifvfs"
	"github.com/rqlite/rqlite/v10/snapshot"
)

type c03fScenario struct {
	Name     string
	OwnSnaps int  // snapshots the victim takes itself before it is cut off
	Chain    int  // 1: the leader holds one full snapshot; 2: full + incremental
	Trailing bool // the leader writes once more after its last snapshot
}

func c03fScenarios(thorough bool) []c03fScenario {
	var out []c03fScenario
	owns := []int{0, 1}
	trail := []bool{true}
	if thorough {
		owns = []int{0, 1, 2}
		trail = []bool{true, false}
	}
	for _, o := range owns {
		for _, ch := range []int{1, 2} {
			for _, tr := range trail {
				out = append(out, c03fScenario{Name: fmt.Sprintf("own%d-chain%d-trailing=%t", o, ch, tr), OwnSnaps: o, Chain: ch, Trailing: tr})
			}
		}
	}
	return out
}

// c03fModel is the database after every log index that changed it.
type c03fModel struct {
	idx  []uint64
	dump []string
}

const c03fNoSchema = "(no schema: nothing applied)"

func (m *c03fModel) at(i uint64) string {
	out := c03fNoSchema
	for k, x := range m.idx {
		if x <= i {
			out = m.dump[k]
		}
	}
	return out
}

// writesUpTo counts the model states reached by index i (for messages).
func (m *c03fModel) writesUpTo(i uint64) int {
	n := 0
	for _, x := range m.idx {
		if x <= i {
			n++
		}
	}
	return n
}

func (m *c03fModel) which(d string) string {
	for k := len(m.dump) - 1; k >= 0; k-- {
		if m.dump[k] == d {
			return fmt.Sprintf("the model at index %d (%d of %d changes)", m.idx[k], k+1, len(m.idx))
		}
	}
	if d == c03fNoSchema {
		return "the empty database"
	}
	return "no state the database ever had"
}

type c03fDeadLayer struct{ Layer }

func (l c03fDeadLayer) Dial(addr string, timeout time.Duration) (net.Conn, error) {
	return nil, errors.New("c03 follower: restarted node is cut off")
}

func c03fObserve(s *Store) (string, error) {
	d, err := c03ObserveAt(s, proto.ConsistencyLevel_NONE)
	if err != nil && strings.Contains(err.Error(), "no such table") {
		return c03fNoSchema, nil
	}
	return d, err
}

func c03fWaitFor(what string, timeout time.Duration, f func() bool) error {
	dl := time.Now().Add(timeout)
	for time.Now().Before(dl) {
		if f() {
			return nil
		}
		time.Sleep(3 * time.Millisecond)
	}
	return fmt.Errorf("timed out after %v waiting for %s", timeout, what)
}

func c03fLatestSnap(s *Store) uint64 {
	li, _, err := snapshot.LatestIndexTerm(s.snapshotDir)
	if err != nil {
		return 0
	}
	return li
}

type c03fImage struct {
	vfs.Image
	Func string
	Sig  string
}

type c03fRun struct {
	sc       c03fScenario
	c        *vcCluster
	model    *c03fModel
	victim   int
	leader   int
	snapIdx  uint64 // index of the leader's newest snapshot (the one installed)
	preIdx   uint64 // victim's fsm index when it was cut off
	images   []c03fImage
	points   int64
	labels   []string
	discards int
	notes    []string
}

// c03fSig is c03Sig plus whether the leader's snapshot is already the newest of the victim's store.
func c03fSig(root string, snapIdx uint64) string {
	sig := c03Sig(root)
	if li, _, err := snapshot.LatestIndexTerm(filepath.Join(root, snapshotsDirName)); err == nil && li >= snapIdx {
		sig += "+leader-snapshot-installed"
	}
	return sig
}

// c03fRecord builds the cluster, drives the scenario and records the images of the install.
func c03fRecord(sc c03fScenario, imgDir string) (run *c03fRun, err error) {
	defer func() {
		if p := recover(); p != nil {
			err = fmt.Errorf("c03 follower harness: scenario %s: %v", sc.Name, p)
			if run != nil && run.c != nil {
				run.c.Close()
			}
		}
	}()
	c, cerr := vcNewCluster(vcOpts{N: 3, RaftTimeout: 10 * time.Second})
	if cerr != nil {
		return nil, fmt.Errorf("c03 follower harness: cluster: %w", cerr)
	}
	run = &c03fRun{sc: sc, c: c, model: &c03fModel{}, victim: 1, leader: 0}
	if l := c.Leader(); l != 0 {
		panic(fmt.Sprintf("leader is n%d", l))
	}
	must := func(what string, err error) {
		if err != nil {
			panic(fmt.Sprintf("%s: %v [%s]", what, err, c.describe()))
		}
	}
	ls := func() *Store { return c.nodes[run.leader].store() }
	vs := func() *Store { return c.nodes[run.victim].store() }
	m := c03Model{}
	k := 0
	exec := func(stmts []string) uint64 {
		res, idx, err := ls().Execute(context.Background(), executeRequestFromStrings(stmts, false, true))
		must("write", err)
		for _, r := range res {
			if e := r.GetError(); e != "" {
				panic("statement error: " + e)
			}
			if er := r.GetE(); er != nil && er.Error != "" {
				panic("statement error: " + er.Error)
			}
		}
		run.model.idx = append(run.model.idx, idx)
		run.model.dump = append(run.model.dump, m.dump())
		return idx
	}
	write := func(op byte) uint64 {
		k++
		return exec(c03Write(op, k, &m))
	}
	all := func(idx uint64) { must("everybody applies", c.WaitApplied(idx, 120*time.Second)) }

	exec(c03Setup)
	write('w')
	all(write('w'))
	for i := 0; i < sc.OwnSnaps; i++ {
		if i > 0 {
			all(write('w'))
		}
		must(fmt.Sprintf("victim's own snapshot %d", i+1), vs().Snapshot(0))
	}
	if sc.OwnSnaps > 0 {
		if _, err := os.Stat(filepath.Join(c.nodes[run.victim].dir, cleanSnapshotName)); err != nil {
			run.notes = append(run.notes, "victim holds no clean_snapshot marker after its own snapshot")
		}
	}
	all(write('w'))
	run.preIdx = vs().fsmIdx.Load()

	c.net.Isolate(run.victim)
	write('w')
	write('W')
	must("leader snapshot", ls().Snapshot(1))
	if sc.Chain == 2 {
		write('w')
		must("leader incremental snapshot", ls().Snapshot(1))
	}
	if sc.Trailing {
		write('w')
	}
	run.snapIdx = c03fLatestSnap(ls())
	if run.snapIdx <= run.preIdx {
		panic(fmt.Sprintf("leader snapshot index %d not ahead of the victim (%d)", run.snapIdx, run.preIdx))
	}
	if l := c.Leader(); l != run.leader {
		panic(fmt.Sprintf("leadership moved to n%d while the victim was cut off", l))
	}

	root := c.nodes[run.victim].dir
	rec := &vfs.Recorder{Root: root, ImgDir: imgDir,
		HashNameOnly: func(rel string) bool { return strings.HasSuffix(rel, "-shm") }}
	vfs.Install(rec)
	rec.Snap("before-heal")
	c.net.Heal()
	werr := c03fWaitFor("the victim to install the leader's snapshot and catch up", 180*time.Second, func() bool {
		return c03fLatestSnap(vs()) >= run.snapIdx && vs().fsmIdx.Load() >= ls().fsmIdx.Load() && vs().raft.LastIndex() >= ls().raft.LastIndex()
	})
	rec.Snap("after-catch-up")
	vfs.Install(nil)
	must("install", werr)
	if errs := rec.Errors(); len(errs) > 0 {
		panic(fmt.Sprintf("recorder: %v", errs))
	}
	for _, im := range rec.Images() {
		if err := c03BoltOK(filepath.Join(im.Dir, "raft.db")); err != nil {
			run.discards++
			continue
		}
		run.images = append(run.images, c03fImage{Image: im, Func: c03FuncOf(im.Label), Sig: c03fSig(im.Dir, run.snapIdx)})
	}
	run.points, run.labels = rec.Points()
	return run, nil
}

type c03fOutcome struct {
	ok     bool
	kind   string
	detail string
	how    string
	crcBad bool
}

var c03fSeq atomic.Int64

// c03fAlone restarts an image as a node that cannot reach anybody.
func c03fAlone(scratch string, run *c03fRun, im c03fImage) c03fOutcome {
	wdir := filepath.Join(scratch, fmt.Sprintf("a%d", c03fSeq.Add(1)))
	root := filepath.Join(wdir, "node")
	defer os.RemoveAll(wdir)
	if err := vfs.CopyTree(im.Dir, root); err != nil {
		panic(fmt.Sprintf("c03 follower harness: copy image: %v", err))
	}
	orig := run.c.nodes[run.victim].dir
	if p := filepath.Join(root, snapshotsDirName, "REAP_PLAN"); true {
		if b, err := os.ReadFile(p); err == nil {
			os.WriteFile(p, []byte(strings.ReplaceAll(string(b), orig+"/", root+"/")), 0o644)
		}
	}
	out := c03fOutcome{}
	for attempt := 0; ; attempt++ {
		ly := c03fDeadLayer{mustMockLayer("localhost:0")}
		s := New(&Config{DBConf: NewDBConfig(), Dir: root, ID: run.c.nodes[run.victim].id}, ly)
		s.HeartbeatTimeout, s.ElectionTimeout, s.LeaderLeaseTimeout = time.Second, time.Second, time.Second
		s.RaftLogLevel = "ERROR"
		s.NoSnapshotOnClose = true
		var crcBad atomic.Bool
		s.crcBadHandler = func(_, _ uint32) { crcBad.Store(true) }
		_, fpErr := os.Stat(filepath.Join(root, cleanSnapshotName))
		if err := s.Open(); err != nil {
			ly.Close()
			return c03fOutcome{kind: "open-fails", detail: err.Error()}
		}
		fast := s.numSnapshotsSkipped.Load() > 0
		if err := s.snapshotCAS.BeginWithRetry("c03f", 120*time.Second, 2*time.Millisecond); err == nil {
			s.snapshotCAS.End()
		}
		if crcBad.Load() && attempt == 0 {
			s.Close(true)
			ly.Close()
			os.Remove(filepath.Join(root, cleanSnapshotName))
			out.how = "fast-path-crc-mismatch-exit-then-"
			out.crcBad = true
			continue
		}
		got, err := c03fObserve(s)
		fsmIdx, raftIdx, snapIdx := s.fsmIdx.Load(), s.raft.AppliedIndex(), c03fLatestSnap(s)
		s.Close(true)
		ly.Close()
		if err != nil {
			return c03fOutcome{kind: "read-fails", detail: err.Error(), crcBad: out.crcBad}
		}
		switch {
		case fast:
			out.how += "fast-path"
		case fpErr == nil:
			out.how += "restore(marker-rejected)"
		default:
			out.how += "restore"
		}
		claimed := fsmIdx
		if raftIdx > claimed {
			claimed = raftIdx
		}
		want := run.model.at(claimed)
		desc := fmt.Sprintf("restarted alone via %s: reports fsm index %d, raft applied index %d (newest snapshot %d; installed snapshot is %d, index before the cut %d); database is %s, a node at index %d holds %s",
			out.how, fsmIdx, raftIdx, snapIdx, run.snapIdx, run.preIdx, run.model.which(got), claimed, run.model.which(want))
		if got == want && run.model.at(fsmIdx) == want {
			switch {
			case claimed >= run.snapIdx:
				out.how += "/at-or-after-installed-snapshot"
			case claimed == 0:
				out.how += "/nothing-applied-yet"
			default:
				out.how += "/before-install"
			}
			out.ok = true
			return out
		}
		out.detail = desc
		switch {
		case run.model.writesUpTo(claimed) > 0 && got != want && c03fOlder(run.model, got, want) && claimed >= run.snapIdx:
			out.kind = "stale-database-claims-installed-snapshot-index"
		case c03fOlder(run.model, got, want):
			out.kind = "database-behind-reported-index"
		case c03fOlder(run.model, want, got):
			out.kind = "database-ahead-of-reported-index"
		default:
			out.kind = "database-matches-no-index"
		}
		return out
	}
}

// c03fOlder reports whether a is an earlier model state than b.
func c03fOlder(m *c03fModel, a, b string) bool {
	pos := func(d string) int {
		if d == c03fNoSchema {
			return -1
		}
		for k := len(m.dump) - 1; k >= 0; k-- {
			if m.dump[k] == d {
				return k
			}
		}
		return -2
	}
	pa, pb := pos(a), pos(b)
	return pa != -2 && pb != -2 && pa < pb
}

// c03fRejoin puts the image in place of the victim's directory and restarts the victim in the live cluster.
func c03fRejoin(run *c03fRun, im c03fImage) c03fOutcome {
	c := run.c
	if c.Wedged() {
		return c03fOutcome{kind: "harness-wedged"}
	}
	n := c.nodes[run.victim]
	if err := c.Crash(run.victim); err != nil && c.Wedged() {
		return c03fOutcome{kind: "harness-wedged"}
	}
	os.RemoveAll(n.dir)
	if err := vfs.CopyTree(im.Dir, n.dir); err != nil {
		panic(fmt.Sprintf("c03 follower harness: copy image: %v", err))
	}
	if err := c.Restart(run.victim); err != nil {
		return c03fOutcome{kind: "open-fails", detail: err.Error()}
	}
	l := c.Leader()
	if l < 0 || l == run.victim {
		if _, err := c.WaitLeader([]int{0, 2}, 0, 120*time.Second); err != nil {
			return c03fOutcome{kind: "harness-no-leader", detail: err.Error()}
		}
		l = c.Leader()
	}
	ls, vs := c.nodes[l].store(), n.store()
	idx, err := c.noop(l)
	if err != nil {
		return c03fOutcome{kind: "harness-no-leader", detail: err.Error()}
	}
	if err := c03fWaitFor(fmt.Sprintf("the rejoined victim to apply index %d", idx), 180*time.Second, func() bool { return vs.fsmIdx.Load() >= idx }); err != nil {
		return c03fOutcome{kind: "never-catches-up", detail: fmt.Sprintf("%v [%s]", err, c.describe())}
	}
	want, err := c03ObserveAt(ls, proto.ConsistencyLevel_NONE)
	if err != nil {
		panic(fmt.Sprintf("c03 follower harness: leader read: %v", err))
	}
	if fin := run.model.dump[len(run.model.dump)-1]; want != fin {
		panic(fmt.Sprintf("c03 follower harness: the leader's database is not the model: %s vs %s", c03Short(want), c03Short(fin)))
	}
	got, err := c03fObserve(vs)
	if err != nil {
		return c03fOutcome{kind: "read-fails", detail: err.Error()}
	}
	if got == want {
		return c03fOutcome{ok: true, how: "equals-leader"}
	}
	kind := "diverges-after-rejoin"
	switch c03Classify2(got, want) {
	case -1:
		kind = "writes-missing-after-rejoin"
	case 1:
		kind = "writes-applied-twice-after-rejoin"
	}
	return c03fOutcome{kind: kind, detail: fmt.Sprintf("rejoined the live cluster and applied index %d: database %s; the leader's is %s", idx, c03Short(got), c03Short(want))}
}

// c03Classify2 compares the counter of two dumps: -1 got lower, 1 got higher, 0 otherwise.
func c03Classify2(got, want string) int {
	n := func(d string) int {
		var cnt, v int
		if p := strings.Split(d, ";"); len(p) == 3 {
			fmt.Sscanf(strings.TrimPrefix(p[1], "c:"), "%d/%d", &cnt, &v)
		}
		return v
	}
	switch g, w := n(got), n(want); {
	case g < w:
		return -1
	case g > w:
		return 1
	}
	return 0
}

type c03fReplay struct {
	Scenario string `json:"scenario"`
	Label    string `json:"label"`
	Hits     int    `json:"hits"`
	Mode     string `json:"mode"`
	State    string `json:"state"`
}

func TestVerif_C03_follower(t *testing.T) {
	r := kit.Start(t, "C03", "follower")
	defer r.Finish()
	r.Rule("scenarios {victim follower with 0, 1 [, 2: thorough] snapshots of its own} x {leader's snapshot store: full, full+incremental} [x {leader wrote after its snapshot, not}: thorough] on a real 3-voter cluster; crash images = copies of the victim's data directory at every instrumented point (of any node's goroutines) at which it changed, from the moment the link is healed until the victim has installed the leader's snapshot and caught up; every image recovered alone (cut off, level NONE read, database vs the model at the index the node reports) and rejoined to the live cluster (database vs the leader's after catching up). Distinct = (scenario, function of the crash point, crash-state class, mode, outcome)")
	r.Assume("process-crash model as in part crash; the victim is a voter of a 3-node cluster whose other two nodes stay up; crash points inside hashicorp/raft (between sink.Close and FSM.Restore there is none of rqlite's own steps except those of the two calls) are represented by the images taken at the first step of the following call")
	scratch := c03ScratchRoot(t)
	scs := c03fScenarios(r.Thorough())
	shard, nshards := 0, 1
	if sh := os.Getenv("VERIF_SHARD"); sh != "" {
		fmt.Sscanf(sh, "%d/%d", &shard, &nshards)
	}
	var replay *c03fReplay
	if raw := kit.Replay(); raw != nil {
		replay = &c03fReplay{}
		if err := json.Unmarshal(raw, replay); err != nil || replay.Scenario == "" {
			t.Skip("not a replay of this part")
		}
		nshards, shard = 1, 0
		scs = c03fScenarios(true)
	}
	only := os.Getenv("C03F_SCENARIO")
	labels := map[string]bool{}
	for i, sc := range scs {
		if i%nshards != shard || (replay != nil && replay.Scenario != sc.Name) || (only != "" && only != sc.Name) {
			continue
		}
		run, err := c03fRecord(sc, filepath.Join(scratch, fmt.Sprintf("imgs%d", i)))
		if err != nil {
			t.Fatalf("%v", err)
		}
		r.Add("scenarios", 1)
		r.State(len(run.images))
		r.Add("crash_points_reached", run.points)
		r.Add("images", int64(len(run.images)))
		r.Add("images_discarded_torn_raftdb_copy", int64(run.discards))
		for _, l := range run.labels {
			labels[l] = true
		}
		for _, n := range run.notes {
			r.Note("scenario %s: %s", sc.Name, n)
		}
		installed := 0
		for _, im := range run.images {
			if strings.Contains(im.Sig, "leader-snapshot-installed") {
				installed++
			}
		}
		if installed == 0 || installed == len(run.images) {
			r.Cap("scenario %s: no image before / after the leader's snapshot reached the victim's store (%d of %d after)", sc.Name, installed, len(run.images))
		}

		report := func(im c03fImage, mode string, out c03fOutcome) {
			r.Eval(1)
			if strings.HasPrefix(out.kind, "harness-") {
				r.Cap("scenario %s: %s: %s", sc.Name, out.kind, out.detail)
				return
			}
			if !out.ok {
				r.Violation(fmt.Sprintf("C03:follower:%s:%s:state=%s", out.kind, mode, im.Sig),
					fmt.Sprintf("scenario %s, victim crashes at %s#%d (in %s, state %s) while installing the leader's snapshot: %s", sc.Name, im.Label, im.Hits, im.Func, im.Sig, out.detail),
					c03fReplay{Scenario: sc.Name, Label: im.Label, Hits: im.Hits, Mode: mode, State: im.Sig})
				return
			}
			r.Distinct(fmt.Sprintf("%s|%s|%s|%s|%s", sc.Name, im.Func, im.Sig, mode, out.how))
			if im.N == len(run.images)/2 {
				r.Sample(map[string]any{"scenario": sc.Name, "crash_at": fmt.Sprintf("%s#%d", im.Label, im.Hits), "in": im.Func, "state": im.Sig, "mode": mode, "outcome": out.how})
			}
		}
		// a replay names the crash point; which points yield an image depends a little on
		// raft's timing, so it falls back to the same label, then to the first image of the
		// same crash-state class
		pick := -1
		if replay != nil {
			for _, exact := range []int{2, 1, 0} {
				for j, im := range run.images {
					if pick < 0 && ((exact == 2 && im.Label == replay.Label && im.Hits == replay.Hits) ||
						(exact == 1 && im.Label == replay.Label) || (exact == 0 && replay.State != "" && im.Sig == replay.State)) {
						pick = j
					}
				}
			}
		}
		match := func(im c03fImage, mode string) bool {
			return replay == nil || (pick >= 0 && im.N == run.images[pick].N && replay.Mode == mode)
		}

		// alone: in parallel
		alone := make([]c03fOutcome, len(run.images))
		var wg sync.WaitGroup
		sem := make(chan struct{}, 6)
		for j, im := range run.images {
			if !match(im, "alone") && !match(im, "rejoin") {
				continue
			}
			wg.Add(1)
			sem <- struct{}{}
			go func(j int, im c03fImage) {
				defer wg.Done()
				defer func() { <-sem }()
				alone[j] = c03fAlone(scratch, run, im)
			}(j, im)
		}
		wg.Wait()
		for j, im := range run.images {
			if match(im, "alone") {
				report(im, "alone", alone[j])
			}
		}
		// rejoin: one after the other in the live cluster
		for j, im := range run.images {
			if !match(im, "rejoin") {
				continue
			}
			if alone[j].crcBad {
				continue // a restart here exits the process once (the kit's Store has no handler seam); covered alone
			}
			if r.OverBudget() {
				r.Cap("budget used up before every image of scenario %s was rejoined", sc.Name)
				break
			}
			out := c03fRejoin(run, im)
			report(im, "rejoin", out)
			r.Add("rejoins", 1)
			if run.c.Wedged() {
				r.Cap("scenario %s: a Store.Close hung (raft pipeline shutdown, see the cluster kit); remaining rejoins skipped", sc.Name)
				break
			}
		}
		run.c.Close()
		os.RemoveAll(filepath.Join(scratch, fmt.Sprintf("imgs%d", i)))
	}
	var ls []string
	for l := range labels {
		ls = append(ls, l)
	}
	sort.Strings(ls)
	perFile := map[string]int{}
	for _, l := range ls {
		if i := strings.LastIndex(l, ":"); i > 0 {
			perFile[l[:i]]++
		} else {
			perFile["(harness)"]++
		}
	}
	r.Set(fmt.Sprintf("distinct_crash_labels_per_file_shard%d", shard), perFile)
	r.Note("each shard runs its own scenarios; counters add up over shards; image counts vary a little between runs (raft timing)")
}
