package store

// Extension of the in-process cluster kit (c02_cluster_test.go, identifiers vc*)
// for checks that need a NON-VOTER in the cluster. Pulled into a check with
// `"also_files": ["C02", "vx"]`; the kit itself is not changed. Identifiers are
// prefixed vx.
//
// vxNewCluster is vcNewCluster with a suffrage per node. The kit's ForceElection
// and Settle pick election candidates among all running nodes and must not be
// used on a cluster with a non-voter (raft's TimeoutNow handler does not look at
// the suffrage: a non-voter told to time out stands for election); vxElect and
// vxSettle only ever kick voters.

import (
	"context"
	"fmt"
	"os"
	"path/filepath"
	"time"

	"github.com/hashicorp/raft"
	"github.com/rqlite/rqlite/v10/command/proto"
)

// vxNewCluster starts len(voter) nodes; node 0 is bootstrapped (it must be a
// voter) and becomes the leader, node i>0 is joined as a voter or a non-voter.
// The kv table exists and is applied everywhere, and the leader has served a
// strong read in its term (linearizable reads are not upgraded).
func vxNewCluster(o vcOpts, voter []bool) (c *vcCluster, err error) {
	o.N = len(voter)
	o = o.withDefaults()
	if !voter[0] {
		return nil, fmt.Errorf("vx: node 0 must be a voter")
	}
	base := o.Base
	if base == "" {
		base = os.TempDir()
		if st, e := os.Stat("/dev/shm"); e == nil && st.IsDir() {
			base = "/dev/shm"
		}
	}
	vcSweepOnce.Do(func() { vcSweepStale(base) })
	root, err := os.MkdirTemp(base, "vc-cluster-")
	if err != nil {
		return nil, err
	}
	c = &vcCluster{o: o, net: vcNewNet(o.N), root: root}
	defer func() {
		if err != nil {
			c.Close()
			c = nil
		}
	}()
	for i := 0; i < o.N; i++ {
		p, err := vcNewPort()
		if err != nil {
			return c, err
		}
		n := &vcNode{idx: i, id: fmt.Sprintf("n%d", i), dir: filepath.Join(root, fmt.Sprintf("n%d", i)), port: p, addr: p.ln.Addr().String()}
		c.net.addrIdx[n.addr] = i
		c.nodes = append(c.nodes, n)
	}
	for _, n := range c.nodes {
		if err := c.open(n); err != nil {
			return c, fmt.Errorf("open %s: %w", n.id, err)
		}
	}
	n0 := c.nodes[0]
	if err := n0.s.Bootstrap(NewServer(n0.id, n0.addr, true)); err != nil {
		return c, fmt.Errorf("bootstrap: %w", err)
	}
	if err := c.TimeoutNow(0); err != nil {
		return c, fmt.Errorf("first election: %w", err)
	}
	if _, err := n0.s.WaitForLeader(60 * time.Second); err != nil {
		return c, fmt.Errorf("first leader: %w", err)
	}
	for _, n := range c.nodes[1:] {
		if err := n0.s.Join(joinRequest(n.id, n.addr, voter[n.idx])); err != nil {
			return c, fmt.Errorf("join %s: %w", n.id, err)
		}
		if _, err := n.s.WaitForLeader(60 * time.Second); err != nil {
			return c, fmt.Errorf("%s learns the leader: %w", n.id, err)
		}
	}
	if _, _, err := n0.s.Execute(context.Background(), executeRequestFromString(vcTable, false, false)); err != nil {
		return c, fmt.Errorf("create table: %w", err)
	}
	if _, err := vxSettle(c, voter, 60*time.Second); err != nil {
		return c, err
	}
	if _, err := c.Quiesce(60 * time.Second); err != nil {
		return c, err
	}
	for i, v := range voter {
		got, err := c.nodes[i].s.IsVoter()
		if err != nil || got != v {
			return c, fmt.Errorf("vx: node %d: voter=%v err=%v, want voter=%v", i, got, err, v)
		}
	}
	if res := c.Read(max(c.Leader(), 0), "-", proto.ConsistencyLevel_STRONG, vcAPIQuery, false); res.Err != nil {
		return c, fmt.Errorf("first strong read: %w", res.Err)
	}
	return c, nil
}

// vxElect makes voter `cand` stand for election (raft's TimeoutNow message) and
// waits for a leader in a term above the highest term of any running node.
func vxElect(c *vcCluster, cand int, timeout time.Duration) (int, error) {
	var minTerm uint64
	all := make([]int, len(c.nodes))
	for i := range c.nodes {
		all[i] = i
		if t := c.Term(i); t > minTerm {
			minTerm = t
		}
	}
	c.FreshenConns(all)
	if err := c.TimeoutNow(cand); err != nil {
		return -1, err
	}
	return c.WaitLeader(nil, minTerm, timeout)
}

// vxSettle waits until the running nodes agree on one leader in one term; while
// no node of the cluster claims leadership it kicks the voters in turn (never a
// non-voter). The network must be healed.
func vxSettle(c *vcCluster, voter []bool, timeout time.Duration) (int, error) {
	deadline := time.Now().Add(timeout)
	lastKick := time.Time{}
	next := 0
	for {
		if l := c.stableLeader(); l >= 0 {
			return l, nil
		}
		if time.Now().After(deadline) {
			return -1, fmt.Errorf("vx: cluster did not settle on one leader within %v: %s", timeout, c.describe())
		}
		if c.Leader() < 0 && time.Since(lastKick) > 1500*time.Millisecond {
			for k := 0; k < len(voter); k++ {
				cand := (next + k) % len(voter)
				if voter[cand] && c.Up(cand) {
					next = cand + 1
					vxElect(c, cand, time.Second)
					break
				}
			}
			lastKick = time.Now()
			continue
		}
		time.Sleep(3 * time.Millisecond)
	}
}

// vxBelievesLeader reports whether node i's raft state is Leader, and its term.
func vxBelievesLeader(c *vcCluster, i int) (bool, uint64) {
	s := c.nodes[i].store()
	if s == nil {
		return false, 0
	}
	return s.raft.State() == raft.Leader, s.raft.CurrentTerm()
}

// vxClose shuts a cluster down without healing it first: the nodes are stopped
// one after the other while any partition is still in place, then the kit's
// Close removes the files. (vcCluster.Close heals first and stops all nodes at
// once; if the heal lets a cut-off candidate win an election at that moment, a
// heartbeat of the new term can reach a node between raft's shutdown and the
// closing of its stable store, and hashicorp/raft's heartbeat fast path - which
// checks for shutdown only on entry - panics the process with "failed to save
// current term: database not open". Seen once under heavy load.)
func vxClose(c *vcCluster) {
	for i := range c.nodes {
		c.Crash(i)
	}
	c.Close()
}
