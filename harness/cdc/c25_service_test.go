package cdc

import (
	"bufio"
	"bytes"
	"crypto/sha256"
	"encoding/binary"
	"encoding/json"
	"errors"
	"fmt"
	"io"
	"net/http"
	"os"
	"os/exec"
	"runtime/debug"
	"sort"
	"strings"
	"sync"
	"testing"
	"testing/synctest"
	"time"

	cdcjson "github.com/rqlite/rqlite/v10/cdc/json"
	"github.com/rqlite/rqlite/v10/command/proto"
	sqldb "github.com/rqlite/rqlite/v10/db"
	"github.com/rqlite/rqlite/v10/internal/rarchive/flate"
	kit "github.com/rqlite/rqlite/v10/internal/verifkit"
	"go.etcd.io/bbolt"
)

// C25 part (b) "service": at-least-once delivery with the log index by the real
// cdc.Service, across endpoint failures, leader changes, node restarts, snapshot
// synchronisation and high-water-mark updates from other leaders.
//
// Explicit-state search (E-SEQ). A state is the history that reaches it; every
// successor is produced by replaying history+action on a FRESH real Service (own
// directory, own bbolt FIFO) inside a testing/synctest bubble, so the batch
// delay, the retry back-off and the HWM interval run on a fake clock and a run is
// deterministic. The endpoint is an in-memory http.RoundTripper put into the
// service's real HTTPSink (HTTPSink.Write, status handling and the JSON envelope
// are the real code); the cluster is the package's own mockCluster.
//
// The environment contract modelled around the service (from /repo/cdc/DESIGN.md,
// store.fsmSnapshot and cmd/rqlited/main.go):
//   - the store hands every committed event group to Service.C() once, in log
//     order, labelled with the entry's index; a non-transactional multi-statement
//     request yields several groups with the SAME index ("same-entry");
//   - before a snapshot may truncate the log the store runs the snapshot sync, so
//     everything handed over before a completed sync must already be durable in
//     the service (or delivered);
//   - after a restart (CDC is enabled before Store.Open) the log entries after
//     the last snapshot are re-applied, i.e. their groups are handed over again;
//   - another node can only be leader while this one is not; "another leader
//     delivered up to k" means that leader sent every entry <= k to the endpoint
//     and then broadcast k as high-water mark: a legitimate HWM update.
//
// Oracle (no more than the statement):
//   O1 after every history the node is made leader with the endpoint up and time
//      passes until nothing moves any more; then every group handed to this node
//      whose index is above everything another leader delivered must have reached
//      the endpoint at least once (duplicates allowed);
//   O2 every delivered group carries the index it was handed over with and exactly
//      that group's row changes;
//   O3 within one tenure of this node the delivered indexes never decrease.
// The retry limit is "forever" (the statement's exclusion for an exhausted finite
// limit therefore never applies) and the hand-off channel (capacity 100) is
// drained after every hand-over, so the documented drop-when-full cannot occur.

const (
	c25sBatchDelay  = 100 * time.Millisecond
	c25sBackoff     = 131 * time.Millisecond
	c25sHWMInterval = 2003 * time.Millisecond
	c25sTickLen     = 150 * time.Millisecond  // > batch delay, > one retry back-off, 7 of them < HWM interval
	c25sLongLen     = 2500 * time.Millisecond // > HWM interval
)

type c25sAct int

const (
	c25sFeed c25sAct = iota
	c25sSame
	c25sTick
	c25sLong
	c25sGain
	c25sLoss
	c25sDown
	c25sUp
	c25sGlitch
	c25sSnap
	c25sRestart
	c25sOtherAll
	c25sOtherLow
	c25sOtherAhead
	c25sNActs
)

var c25sNames = [...]string{"feed", "same-entry", "tick", "long-tick", "leader-gain", "leader-loss",
	"endpoint-down", "endpoint-up", "endpoint-fails-once", "snapshot-sync", "restart", "other-leader-delivers-all",
	"other-leader-delivers-1", "other-leader-delivers-ahead"}

func (a c25sAct) String() string { return c25sNames[a] }

func c25sHistString(h []int) string {
	p := make([]string, len(h))
	for i, a := range h {
		p[i] = c25sAct(a).String()
	}
	return "[" + strings.Join(p, ", ") + "]"
}

func c25sHistNames(h []int) []string {
	p := make([]string, len(h))
	for i, a := range h {
		p[i] = c25sAct(a).String()
	}
	return p
}

type c25sVio struct {
	Key  string `json:"key"`
	What string `json:"what"`
}

type c25sGroup struct {
	Ord       int
	Index     uint64
	Sig       string // signature of the message the endpoint must receive
	EvSig     string // the same without the index (to recognise a wrong label)
	Delivered int    // successful deliveries by this node that contained it
}

// c25sTransport is the endpoint: an in-memory RoundTripper that can be down
// (alternating transport error / HTTP 503), up (alternating 200 / 202) or up but
// failing the next request only, and records every batch it accepted.
type c25sTransport struct {
	w             *c25sWorld
	up            bool
	failNext      int // while up: this many further requests fail
	nAttempts     int
	nFail         int
	nOK           int
	tenureMaxIdx  uint64 // highest group index delivered in the current tenure
	tenureMaxHi   uint64 // highest batch maximum delivered in the current tenure
	lastAttemptHi uint64 // highest batch maximum attempted by the current incarnation
	tenAttemptHi  uint64 // highest batch maximum attempted in the current tenure
	newDeliveries [][]int
}

func c25sResp(req *http.Request, code int) *http.Response {
	return &http.Response{StatusCode: code, Status: fmt.Sprintf("%d %s", code, http.StatusText(code)),
		Proto: "HTTP/1.1", ProtoMajor: 1, ProtoMinor: 1, Header: http.Header{},
		Body: io.NopCloser(strings.NewReader("")), Request: req}
}

func (tr *c25sTransport) RoundTrip(req *http.Request) (*http.Response, error) {
	body, err := io.ReadAll(req.Body)
	req.Body.Close()
	if err != nil {
		return nil, err
	}
	tr.nAttempts++
	var env cdcjson.CDCMessagesEnvelope
	jerr := json.Unmarshal(body, &env)
	hi := uint64(0)
	for _, m := range env.Payload {
		if m != nil && m.Index > hi {
			hi = m.Index
		}
	}
	if hi > tr.lastAttemptHi {
		tr.lastAttemptHi = hi
	}
	if hi > tr.tenAttemptHi {
		tr.tenAttemptHi = hi
	}
	if !tr.up || tr.failNext > 0 {
		if tr.up {
			tr.failNext--
		}
		tr.nFail++
		if tr.nFail%2 == 1 {
			return nil, errors.New("c25s: endpoint unreachable")
		}
		return c25sResp(req, http.StatusServiceUnavailable), nil
	}
	tr.nOK++
	if jerr != nil {
		tr.w.vio("C25:service:delivered-body-not-an-envelope", fmt.Sprintf("endpoint received a body that is not a CDC envelope: %v: %.200q", jerr, body))
	} else {
		tr.w.onDelivery(&env, hi)
	}
	code := http.StatusOK
	if tr.nOK%2 == 0 {
		code = http.StatusAccepted
	}
	return c25sResp(req, code), nil
}

// c25sCluster is the package's mockCluster, additionally recording what the
// leader broadcasts (the mock, like the production cluster, also delivers a
// broadcast to the broadcasting node's own HWM channel).
type c25sCluster struct {
	*mockCluster
	w *c25sWorld
}

func (c *c25sCluster) BroadcastHighWatermark(v uint64) error {
	c.w.selfQ = append(c.w.selfQ, v)
	return c.mockCluster.BroadcastHighWatermark(v)
}

type c25sWorld struct {
	dir     string
	batchSz int
	multi   bool // the db layer can emit several groups for one log entry
	svc     *Service
	cl      *mockCluster
	tr      *c25sTransport

	groups      []*c25sGroup
	bySig       map[string]*c25sGroup
	byEvSig     map[string]*c25sGroup
	maxFed      uint64
	snapIdx     uint64
	kOther      uint64
	leader      bool
	lastWasFeed bool
	pending     []int    // ordinals of the groups sitting in the batcher
	selfQ       []uint64 // HWM values this node broadcast while leader
	fBase       uint64   // hwmFollowerUpdated when the current follower loop started

	hist         []int
	vios         []c25sVio
	vioSeen      map[string]bool
	snapTimeouts int
}

func c25sNewWorld(dir string, batchSz int, multi bool) *c25sWorld {
	w := &c25sWorld{dir: dir, batchSz: batchSz, multi: multi, bySig: map[string]*c25sGroup{}, byEvSig: map[string]*c25sGroup{}, vioSeen: map[string]bool{}}
	w.tr = &c25sTransport{w: w, up: true}
	return w
}

func (w *c25sWorld) vio(key, what string) {
	if w.vioSeen[key] {
		return
	}
	w.vioSeen[key] = true
	w.vios = append(w.vios, c25sVio{Key: key, What: c25sHistString(w.hist) + ": " + what})
}

func (w *c25sWorld) start() error {
	cfg := DefaultConfig()
	cfg.Endpoint = "http://cdc-endpoint.invalid/events"
	cfg.MaxBatchSz = w.batchSz
	cfg.MaxBatchDelay = c25sBatchDelay
	cfg.HighWatermarkInterval = c25sHWMInterval
	cfg.TransmitMinBackoff = c25sBackoff
	cfg.TransmitRetryPolicy = LinearRetryPolicy
	cfg.TransmitMaxRetries = nil // retry forever
	cl := newMockCluster()
	svc, err := NewService("n1", w.dir, &c25sCluster{cl, w}, cfg)
	if err != nil {
		return err
	}
	svc.logger.SetOutput(io.Discard)
	hs, ok := svc.sink.(*HTTPSink)
	if !ok {
		svc.fifo.Close()
		return fmt.Errorf("sink is %T, not *HTTPSink", svc.sink)
	}
	hs.httpClient.Transport = w.tr
	if err := svc.Start(); err != nil {
		svc.fifo.Close()
		return err
	}
	w.svc, w.cl = svc, cl
	w.leader = false
	w.pending, w.selfQ, w.fBase = nil, nil, 0
	w.tr.lastAttemptHi = 0
	synctest.Wait()
	return nil
}

func (w *c25sWorld) stop() {
	if w.svc == nil {
		return
	}
	w.svc.Stop()
	w.svc.batcher.Close() // Service.Stop leaves the batcher goroutine behind; a bubble must not
	w.svc = nil
	synctest.Wait()
}

// c25sMake builds the group handed to the service and, independently of the
// marshalling code under test, the message the endpoint has to receive.
func c25sMake(ord int, index uint64) (*proto.CDCIndexedEventGroup, *cdcjson.CDCMessage) {
	n := ord%3 + 1
	g := &proto.CDCIndexedEventGroup{Index: index, CommitTimestamp: int64(1000 + ord)}
	m := &cdcjson.CDCMessage{Index: index, Timestamp: int64(1000 + ord)}
	sv := func(i int64, s string) *proto.CDCRow {
		return &proto.CDCRow{Values: []*proto.CDCValue{{Value: &proto.CDCValue_I{I: i}}, {Value: &proto.CDCValue_S{S: s}}}}
	}
	for j := 0; j < n; j++ {
		rid := int64(ord*10 + j + 1)
		table := "t"
		if (ord+j)%2 == 1 {
			table = "u"
		}
		ev := &proto.CDCEvent{Table: table, ColumnNames: []string{"id", "v"}}
		me := &cdcjson.CDCMessageEvent{Table: table}
		oldS, newS := fmt.Sprintf("old%d.%d", ord, j), fmt.Sprintf("new%d.%d", ord, j)
		switch (ord + j) % 3 {
		case 0:
			ev.Op, ev.NewRowId, ev.NewRow = proto.CDCEvent_INSERT, rid, sv(rid, newS)
			me.Op, me.NewRowID, me.After = "INSERT", rid, map[string]any{"id": float64(rid), "v": newS}
		case 1:
			ev.Op, ev.OldRowId, ev.NewRowId, ev.OldRow, ev.NewRow = proto.CDCEvent_UPDATE, rid, rid, sv(rid, oldS), sv(rid, newS)
			me.Op, me.OldRowID, me.NewRowID = "UPDATE", rid, rid
			me.Before, me.After = map[string]any{"id": float64(rid), "v": oldS}, map[string]any{"id": float64(rid), "v": newS}
		default:
			ev.Op, ev.OldRowId, ev.OldRow = proto.CDCEvent_DELETE, rid, sv(rid, oldS)
			me.Op, me.OldRowID, me.Before = "DELETE", rid, map[string]any{"id": float64(rid), "v": oldS}
		}
		g.Events = append(g.Events, ev)
		m.Events = append(m.Events, me)
	}
	return g, m
}

func c25sMap(m map[string]any) string {
	if m == nil {
		return "-"
	}
	ks := make([]string, 0, len(m))
	for k := range m {
		ks = append(ks, k)
	}
	sort.Strings(ks)
	var b strings.Builder
	for _, k := range ks {
		fmt.Fprintf(&b, "%s=%v,", k, m[k])
	}
	return b.String()
}

func c25sEvSig(m *cdcjson.CDCMessage) string {
	var b strings.Builder
	fmt.Fprintf(&b, "ts%d", m.Timestamp)
	for _, e := range m.Events {
		if e == nil {
			b.WriteString("|nil")
			continue
		}
		fmt.Fprintf(&b, "|%s %s n%d o%d b{%s} a{%s} e%q", e.Op, e.Table, e.NewRowID, e.OldRowID, c25sMap(e.Before), c25sMap(e.After), e.Error)
	}
	return b.String()
}

func c25sSig(m *cdcjson.CDCMessage) string { return fmt.Sprintf("i%d ", m.Index) + c25sEvSig(m) }

func (w *c25sWorld) hand(g *c25sGroup) {
	pg, _ := c25sMake(g.Ord, g.Index)
	before := w.svc.writesToBatcher.Load()
	w.svc.C() <- pg
	synctest.Wait()
	if w.svc.writesToBatcher.Load() > before { // accepted (not at or below the HWM)
		w.pending = append(w.pending, g.Ord)
		if len(w.pending) == w.batchSz { // the batcher passes a full batch on at once
			w.pending = nil
		}
	}
}

func (w *c25sWorld) feed(index uint64) {
	ord := len(w.groups)
	_, m := c25sMake(ord, index)
	g := &c25sGroup{Ord: ord, Index: index, Sig: c25sSig(m), EvSig: c25sEvSig(m)}
	w.groups = append(w.groups, g)
	w.bySig[g.Sig] = g
	w.byEvSig[g.EvSig] = g
	if index > w.maxFed {
		w.maxFed = index
	}
	w.hand(g)
}

func (w *c25sWorld) onDelivery(env *cdcjson.CDCMessagesEnvelope, hi uint64) {
	tr := w.tr
	var ords []int
	for _, m := range env.Payload {
		if m == nil {
			w.vio("C25:service:delivered-unknown-group:null", "endpoint received a null payload entry")
			continue
		}
		g := w.bySig[c25sSig(m)]
		if g == nil {
			cls, what := "unknown", fmt.Sprintf("endpoint received a group labelled %d that was never handed over: %s", m.Index, c25sSig(m))
			if o := w.byEvSig[c25sEvSig(m)]; o != nil {
				cls, what = "wrong-index", fmt.Sprintf("endpoint received the row changes of the group of entry %d labelled with index %d", o.Index, m.Index)
				if m.Index == 0 {
					cls = "index-zero"
				}
			} else {
				for _, o := range w.groups {
					if o.Index == m.Index {
						cls, what = "content-differs", fmt.Sprintf("endpoint received a group labelled %d whose row changes are not those handed over: got %s, a handed-over group of that entry is %s", m.Index, c25sSig(m), o.Sig)
						break
					}
				}
			}
			w.vio("C25:service:delivered-unknown-group:"+cls, what)
			ords = append(ords, -1)
		} else {
			g.Delivered++
			ords = append(ords, g.Ord)
		}
		if m.Index < tr.tenureMaxIdx {
			cls := "group-index-decreased-across-batches"
			if hi < tr.tenureMaxHi {
				cls = "batch-after-higher-batch"
			}
			w.vio("C25:service:order:"+cls, fmt.Sprintf("within one tenure a group labelled %d (batch maximum %d) was delivered after index %d (earlier batch maximum %d)", m.Index, hi, tr.tenureMaxIdx, tr.tenureMaxHi))
		}
		if m.Index > tr.tenureMaxIdx {
			tr.tenureMaxIdx = m.Index
		}
	}
	if hi > tr.tenureMaxHi {
		tr.tenureMaxHi = hi
	}
	tr.newDeliveries = append(tr.newDeliveries, ords)
}

func (w *c25sWorld) newTenure() { w.tr.tenureMaxIdx, w.tr.tenureMaxHi, w.tr.tenAttemptHi = 0, 0, 0 }

func (w *c25sWorld) groupsOfLast() int {
	n := 0
	for _, g := range w.groups {
		if g.Index == w.maxFed {
			n++
		}
	}
	return n
}

func (w *c25sWorld) enabled() []int {
	var e []int
	add := func(a c25sAct, ok bool) {
		if ok {
			e = append(e, int(a))
		}
	}
	add(c25sFeed, true)
	add(c25sSame, w.multi && w.lastWasFeed && w.groupsOfLast() < 3)
	add(c25sTick, true)
	add(c25sLong, true)
	add(c25sGain, !w.leader)
	add(c25sLoss, w.leader)
	add(c25sDown, w.tr.up)
	add(c25sUp, !w.tr.up)
	add(c25sGlitch, w.tr.up && w.tr.failNext == 0)
	add(c25sSnap, w.maxFed > w.snapIdx)
	add(c25sRestart, true)
	add(c25sOtherAll, !w.leader && w.maxFed >= 1 && w.kOther < w.maxFed)
	add(c25sOtherLow, !w.leader && w.maxFed >= 2)
	add(c25sOtherAhead, !w.leader && w.kOther < w.maxFed+1)
	return e
}

func (w *c25sWorld) isEnabled(a int) bool {
	for _, x := range w.enabled() {
		if x == a {
			return true
		}
	}
	return false
}

func (w *c25sWorld) restart() error {
	w.stop()
	if err := w.start(); err != nil {
		return err
	}
	w.newTenure()
	// log replay: the entries after the last snapshot are applied again
	for _, g := range w.groups {
		if g.Index > w.snapIdx {
			w.hand(g)
		}
	}
	return nil
}

func (w *c25sWorld) other(k uint64) {
	if k > w.kOther {
		w.kOther = k
	}
	w.cl.BroadcastHWM(k)
	synctest.Wait()
}

func (w *c25sWorld) apply(a c25sAct) error {
	w.hist = append(w.hist, int(a))
	wasFeed := false
	switch a {
	case c25sFeed:
		w.feed(w.maxFed + 1)
		wasFeed = true
	case c25sSame:
		w.feed(w.maxFed)
		wasFeed = true
	case c25sTick, c25sLong:
		d := c25sTickLen
		if a == c25sLong {
			d = c25sLongLen
		}
		time.Sleep(d)
		synctest.Wait()
		w.pending = nil // the batch delay has passed
	case c25sGain:
		w.newTenure()
		w.leader = true
		w.cl.SetLeader(0)
		synctest.Wait()
	case c25sLoss:
		w.leader = false
		w.fBase = w.svc.hwmFollowerUpdated.Load()
		w.cl.SetLeader(-1)
		synctest.Wait()
	case c25sDown:
		w.tr.up = false
	case c25sUp:
		w.tr.up = true
	case c25sGlitch:
		w.tr.failNext = 1
	case c25sSnap:
		if err := w.cl.RequestSnapshotSync(time.Second); err != nil {
			w.snapTimeouts++ // the store aborts the snapshot: nothing is truncated
		} else {
			w.snapIdx = w.maxFed
		}
		synctest.Wait()
		w.pending = nil // flushed
	case c25sRestart:
		if err := w.restart(); err != nil {
			return err
		}
	case c25sOtherAll:
		w.other(w.maxFed)
	case c25sOtherLow:
		w.other(1)
	case c25sOtherAhead:
		w.other(w.maxFed + 1)
	}
	w.lastWasFeed = wasFeed
	return nil
}

// fifoContent reads the bbolt file of the running service: key -> group ordinals.
func (w *c25sWorld) fifoContent() (string, map[int]bool) {
	in := map[int]bool{}
	var b strings.Builder
	err := w.svc.fifo.db.View(func(tx *bbolt.Tx) error {
		return tx.Bucket(bucketName).ForEach(func(k, v []byte) error {
			fmt.Fprintf(&b, "%d:", btouint64(k))
			raw, err := flate.Decompress(v)
			if err != nil {
				b.WriteString("undecodable;")
				return nil
			}
			var env cdcjson.CDCMessagesEnvelope
			if err := json.Unmarshal(raw, &env); err != nil {
				b.WriteString("undecodable;")
				return nil
			}
			for _, m := range env.Payload {
				if g := w.bySig[c25sSig(m)]; g != nil {
					fmt.Fprintf(&b, "g%d,", g.Ord)
					in[g.Ord] = true
				} else {
					fmt.Fprintf(&b, "?%d,", m.Index)
				}
			}
			b.WriteString(";")
			return nil
		})
	})
	if err != nil {
		return "error:" + err.Error(), in
	}
	return b.String(), in
}

// key is the canonical state key: everything of the model that the oracle and the
// enabledness of actions depend on, plus what is observable of the real service
// at a quiescent point: roles, HWM, durable FIFO content and highest-ever key,
// whether the FIFO still has something to offer, the highest batch this
// incarnation already took out of the FIFO and the highest one the current leader
// loop tried to send (it may still be holding it), which groups sit in the batcher, the
// node's own HWM broadcasts still queued for its next follower loop, and the
// highest HWM update the running follower loop accepted.
func (w *c25sWorld) key() string {
	var fed, dl strings.Builder
	for _, g := range w.groups {
		fmt.Fprintf(&fed, "%d,", g.Index)
		if g.Delivered > 0 {
			dl.WriteString("1")
		} else {
			dl.WriteString("0")
		}
	}
	fifo, _ := w.fifoContent()
	hk, _ := w.svc.fifo.HighestKey()
	tmax, tatt := uint64(0), uint64(0)
	if w.leader {
		tmax, tatt = w.tr.tenureMaxIdx, w.tr.tenAttemptHi
	}
	// HWM values still queued in the node's own HWM channel (own broadcasts, read by the next follower loop)
	var selfQ []uint64
	if n := len(w.svc.hwmObCh); n > 0 && n <= len(w.selfQ) {
		selfQ = w.selfQ[len(w.selfQ)-n:]
	}
	// highest HWM update the running follower loop has accepted (it ignores anything at or below)
	fp := uint64(0)
	if !w.leader && w.svc.hwmFollowerUpdated.Load() > w.fBase {
		fp = w.svc.HighWatermark()
	}
	return fmt.Sprintf("L%t U%t/%d fed[%s] snap%d other%d lwf%t dl%s tmax%d hwm%d fifo{%s} hi%d next%t att%d/%d pend%v selfq%v fp%d",
		w.leader, w.tr.up, w.tr.failNext, fed.String(), w.snapIdx, w.kOther, w.lastWasFeed, dl.String(), tmax,
		w.svc.HighWatermark(), fifo, hk, w.svc.fifo.HasNext(), w.tr.lastAttemptHi, tatt, w.pending, selfQ, fp)
}

func (w *c25sWorld) settle() bool {
	stable := 0
	for i := 0; i < 12; i++ {
		a, d := w.tr.nAttempts, w.tr.nOK
		time.Sleep(c25sLongLen)
		synctest.Wait()
		if w.tr.nAttempts == a && w.tr.nOK == d {
			stable++
			if stable == 2 {
				return true
			}
		} else {
			stable = 0
		}
	}
	return false
}

func (w *c25sWorld) missing() []*c25sGroup {
	var ms []*c25sGroup
	for _, g := range w.groups {
		if g.Index > w.kOther && g.Delivered == 0 {
			ms = append(ms, g)
		}
	}
	return ms
}

// closing evaluates O1 from the current state: leader, endpoint up, time passes.
func (w *c25sWorld) closing() (outcome string, notQuiescent bool) {
	w.tr.newDeliveries = nil
	w.tr.up = true // a pending fails-once stays: the first request of the closing fails and is retried
	if !w.leader {
		w.newTenure()
		w.leader = true
		w.cl.SetLeader(0)
		synctest.Wait()
	}
	if !w.settle() {
		notQuiescent = true
	}
	ms := w.missing()
	outcome = fmt.Sprintf("closing delivers %v", w.tr.newDeliveries)
	if len(ms) == 0 {
		return outcome, notQuiescent
	}
	hwm := w.svc.HighWatermark()
	fifo, inFifo := w.fifoContent()
	type rec struct {
		g      *c25sGroup
		inFifo bool
	}
	var recs []rec
	for _, g := range ms {
		recs = append(recs, rec{g, inFifo[g.Ord]})
	}
	// classification only: would a restart (with log replay after the last snapshot) deliver it?
	recovered := map[int]bool{}
	if err := w.restart(); err == nil {
		w.newTenure()
		w.leader = true
		w.cl.SetLeader(0)
		synctest.Wait()
		w.settle()
		for _, g := range ms {
			if g.Delivered > 0 {
				recovered[g.Ord] = true
			}
		}
	}
	for _, r := range recs {
		g := r.g
		sib := 0
		for _, o := range w.groups {
			if o.Index == g.Index {
				sib++
			}
		}
		cause := "lost"
		switch {
		case sib > 1:
			cause = "multi-group-entry"
		case r.inFifo:
			cause = "in-fifo-not-sent"
		case g.Index <= hwm:
			cause = "dropped-by-hwm"
		}
		perm := "never delivered even after a further restart with log replay from the last snapshot (entries <= " + fmt.Sprint(w.snapIdx) + " are gone from the log)"
		if recovered[g.Ord] {
			perm = "delivered only after a further restart"
		}
		w.vio("C25:service:never-delivered:"+cause,
			fmt.Sprintf("group #%d of log entry %d (%d group(s) in that entry) was handed to the service, no other leader delivered it (other leaders delivered up to %d), yet after leader+endpoint-up+time it never reached the endpoint; HWM=%d, FIFO={%s}, in FIFO=%v; %s",
				g.Ord, g.Index, sib, w.kOther, hwm, fifo, r.inFifo, perm))
		outcome += fmt.Sprintf(" missing g%d:%s:%v", g.Ord, cause, recovered[g.Ord])
	}
	return outcome, notQuiescent
}

type c25sJob struct {
	ID      int   `json:"id"`
	H       []int `json:"h"`
	BatchSz int   `json:"b"`
	Multi   bool  `json:"multi"`
	Trace   bool  `json:"trace,omitempty"`
}

type c25sReply struct {
	ID           int       `json:"id"`
	Key          string    `json:"key"`
	Enabled      []int     `json:"enabled"`
	Vios         []c25sVio `json:"vios,omitempty"`
	Outcome      string    `json:"outcome"`
	Steps        int       `json:"steps"`
	Fatal        string    `json:"fatal,omitempty"`
	Trace        []string  `json:"trace,omitempty"`
	SnapTimeouts int       `json:"snap_timeouts,omitempty"`
	NotQuiescent bool      `json:"not_quiescent,omitempty"`
	Disabled     bool      `json:"disabled,omitempty"`
	Skipped      bool      `json:"skipped,omitempty"` // not run: the time budget was used up
}

// c25sExec runs one history on a fresh real service in a bubble.
func c25sExec(t *testing.T, base string, job c25sJob) (rep c25sReply) {
	rep.ID = job.ID
	dir, err := os.MkdirTemp(base, "h")
	if err != nil {
		rep.Fatal = err.Error()
		return
	}
	defer os.RemoveAll(dir)
	defer func() {
		if p := recover(); p != nil {
			rep.Fatal = fmt.Sprintf("panic: %v\n%s", p, debug.Stack())
		}
	}()
	synctest.Test(t, func(t *testing.T) {
		w := c25sNewWorld(dir, job.BatchSz, job.Multi)
		defer func() {
			if p := recover(); p != nil {
				rep.Fatal = fmt.Sprintf("panic in %s: %v\n%s", c25sHistString(w.hist), p, debug.Stack())
			}
		}()
		if err := w.start(); err != nil {
			rep.Fatal = "first start: " + err.Error()
			return
		}
		defer w.stop()
		for i, a := range job.H {
			if !w.isEnabled(a) {
				rep.Disabled = true
				return
			}
			w.tr.newDeliveries = nil
			pre := ""
			if i == len(job.H)-1 {
				pre = fmt.Sprintf("hwm%d", w.svc.HighWatermark())
			}
			if err := w.apply(c25sAct(a)); err != nil {
				w.vio("C25:service:restart-error", "the service did not come up again: "+err.Error())
				rep.Vios = w.vios
				return
			}
			rep.Steps++
			if job.Trace {
				rep.Trace = append(rep.Trace, fmt.Sprintf("%-28s -> %s   delivered now %v", c25sAct(a), w.key(), w.tr.newDeliveries))
			}
			if i == len(job.H)-1 {
				f, _ := w.fifoContent()
				rep.Outcome = fmt.Sprintf("%s: %s->hwm%d delivers %v fifo{%s} next%t; ", c25sAct(a), pre, w.svc.HighWatermark(), w.tr.newDeliveries, f, w.svc.fifo.HasNext())
			}
		}
		rep.Key = w.key()
		rep.Enabled = w.enabled()
		oc, nq := w.closing()
		rep.Outcome += oc
		rep.NotQuiescent = nq
		rep.Vios = w.vios
		rep.SnapTimeouts = w.snapTimeouts
		if job.Trace {
			rep.Trace = append(rep.Trace, "closing: "+oc)
		}
	})
	return
}

func c25sScratchBase(t *testing.T) string {
	if d := os.Getenv("VERIF_C25S_BASE"); d != "" { // a worker: the parent owns (and removes) the directory
		return d
	}
	if st, err := os.Stat("/dev/shm"); err == nil && st.IsDir() {
		if d, err := os.MkdirTemp("/dev/shm", "verif-c25s-"); err == nil {
			t.Cleanup(func() { os.RemoveAll(d) })
			return d
		}
	}
	return kit.Scratch(t)
}

type c25sCols struct{}

func (c25sCols) ColumnNames(string) ([]string, error) { return []string{"id", "v"}, nil }

// c25sMultiGroupEntries asks the real db-layer streamer (the producer of the
// service's input) whether one log entry can arrive as several groups: two
// commits under one Reset, as for a two-statement non-transactional request.
func c25sMultiGroupEntries() (bool, error) {
	ch := make(chan *proto.CDCIndexedEventGroup, 16)
	st, err := sqldb.NewCDCStreamer(ch, c25sCols{})
	if err != nil {
		return false, err
	}
	st.Reset(5)
	for i := int64(1); i <= 2; i++ {
		if err := st.PreupdateHook(&proto.CDCEvent{Op: proto.CDCEvent_INSERT, Table: "t", NewRowId: i}); err != nil {
			return false, err
		}
		st.CommitHook()
	}
	if f, ok := any(st).(interface{ Flush() }); ok {
		f.Flush() // an end-of-entry hand-over, should the streamer have one
	}
	st.Reset(6)
	n, rows := 0, 0
	for {
		select {
		case g := <-ch:
			if g.Index == 5 {
				n++
				rows += len(g.Events)
			}
			continue
		default:
		}
		break
	}
	if rows != 2 {
		return false, fmt.Errorf("streamer probe: %d groups with %d row changes for an entry with 2 committed row changes", n, rows)
	}
	return n > 1, nil
}

const c25sReplyPrefix = "C25S-REPLY "

func c25sChild(t *testing.T) {
	base := c25sScratchBase(t)
	in := bufio.NewReaderSize(os.Stdin, 1<<20)
	for {
		line, err := in.ReadBytes('\n')
		if len(bytes.TrimSpace(line)) > 0 {
			var job c25sJob
			if jerr := json.Unmarshal(line, &job); jerr != nil {
				t.Fatalf("bad job: %v", jerr)
			}
			ResetStats()
			rep := c25sExec(t, base, job)
			b, _ := json.Marshal(rep)
			fmt.Fprintf(os.Stdout, "%s%s\n", c25sReplyPrefix, b)
			if rep.Fatal != "" {
				os.Exit(3) // goroutines of the failed bubble may be left behind: start clean
			}
		}
		if err != nil {
			return
		}
	}
}

type c25sWorker struct {
	cmd    *exec.Cmd
	in     io.WriteCloser
	out    *bufio.Reader
	stderr *bytes.Buffer
}

func c25sSpawn(base string) (*c25sWorker, error) {
	cmd := exec.Command(os.Args[0], "-test.run", "^TestVerif_C25_service$", "-test.timeout", "60m")
	cmd.Env = append(os.Environ(), "VERIF_C25S_CHILD=1", "VERIF_C25S_BASE="+base, "GOMAXPROCS=2", "VERIF_REPLAY=", "VERIF_OUT=")
	in, err := cmd.StdinPipe()
	if err != nil {
		return nil, err
	}
	out, err := cmd.StdoutPipe()
	if err != nil {
		return nil, err
	}
	eb := &bytes.Buffer{}
	cmd.Stderr = eb
	if err := cmd.Start(); err != nil {
		return nil, err
	}
	return &c25sWorker{cmd: cmd, in: in, out: bufio.NewReaderSize(out, 1<<20), stderr: eb}, nil
}

func (wk *c25sWorker) close() {
	wk.in.Close()
	wk.cmd.Wait()
}

func (wk *c25sWorker) do(job c25sJob) (rep c25sReply, err error) {
	b, _ := json.Marshal(job)
	if _, err = wk.in.Write(append(b, '\n')); err != nil {
		return rep, err
	}
	for {
		line, rerr := wk.out.ReadString('\n')
		if strings.HasPrefix(line, c25sReplyPrefix) {
			err = json.Unmarshal([]byte(strings.TrimPrefix(strings.TrimSpace(line), c25sReplyPrefix)), &rep)
			return rep, err
		}
		if rerr != nil {
			return rep, fmt.Errorf("worker ended: %v; stderr tail: %s", rerr, c25sTail(wk.stderr.String(), 3000))
		}
	}
}

func c25sTail(s string, n int) string {
	if len(s) > n {
		return s[len(s)-n:]
	}
	return s
}

// c25sPool runs jobs on persistent child processes (a bbolt open/close per history:
// threads of one process serialise on the address-space lock, processes do not).
type c25sPool struct {
	n    int
	base string // scratch directory shared by the workers (each history gets its own subdirectory)
}

func (p *c25sPool) run(t *testing.T, jobs []c25sJob, stop func() bool) []c25sReply {
	reps := make([]c25sReply, len(jobs))
	ch := make(chan int, len(jobs))
	for i := range jobs {
		ch <- i
	}
	close(ch)
	var wg sync.WaitGroup
	var mu sync.Mutex
	var fault error
	for k := 0; k < p.n; k++ {
		wg.Add(1)
		go func() {
			defer wg.Done()
			var wk *c25sWorker
			defer func() {
				if wk != nil {
					wk.close()
				}
			}()
			for i := range ch {
				if stop != nil && stop() {
					reps[i] = c25sReply{ID: jobs[i].ID, Skipped: true}
					continue
				}
				if wk == nil {
					var err error
					if wk, err = c25sSpawn(p.base); err != nil {
						mu.Lock()
						fault = err
						mu.Unlock()
						return
					}
				}
				rep, err := wk.do(jobs[i])
				if err != nil {
					rep = c25sReply{ID: jobs[i].ID, Fatal: err.Error()}
				}
				if rep.Fatal != "" {
					wk.close()
					wk = nil
				}
				reps[i] = rep
			}
		}()
	}
	wg.Wait()
	if fault != nil {
		t.Fatalf("C25 service harness: cannot start worker: %v", fault)
	}
	return reps
}

func c25sFatalVio(r *kit.Run, batchSz int, h []int, fatal string) {
	key := "C25:service:crash"
	if strings.Contains(fatal, "deadlock") {
		key = "C25:service:hang"
	}
	r.Violation(key, c25sHistString(h)+": "+strings.SplitN(fatal, "\n", 2)[0]+"\n"+c25sTail(fatal, 2500), c25sReplay{batchSz, c25sHistNames(h)})
}

func c25sParse(names []string) ([]int, error) {
	var h []int
	for _, n := range names {
		found := false
		for i, x := range c25sNames {
			if x == n {
				h = append(h, i)
				found = true
			}
		}
		if !found {
			return nil, fmt.Errorf("unknown action %q", n)
		}
	}
	return h, nil
}

type c25sReplay struct {
	BatchSize int      `json:"batch_size"`
	History   []string `json:"history"`
}

type c25sPhase struct {
	BatchSz, Depth int
	Budgeted       bool
}

func c25sVioKeys(vs []c25sVio) string {
	var ks []string
	for _, v := range vs {
		ks = append(ks, v.Key)
	}
	sort.Strings(ks)
	return strings.Join(ks, "+")
}

// c25sSearch is the breadth-first search of one phase (one batch size). It
// returns the number of distinct states and the depth completed.
func c25sSearch(t *testing.T, r *kit.Run, pool *c25sPool, ph c25sPhase, multi bool, nEval *int) (int, int) {
	type node struct {
		h       []int
		enabled []int
		key     string
		spot    bool // a merged duplicate extended only to validate the merge
	}
	type succ struct {
		key  uint64
		vios string
	}
	hk := func(s string) uint64 {
		h := sha256.Sum256([]byte(s))
		return binary.BigEndian.Uint64(h[:8])
	}
	replay := func(h []int) c25sReplay { return c25sReplay{ph.BatchSz, c25sHistNames(h)} }
	seen := map[uint64]bool{}
	succOf := map[uint64]map[int]succ{} // successors of every state's representative, by (hashed) state key
	root := pool.run(t, []c25sJob{{H: nil, BatchSz: ph.BatchSz, Multi: multi}}, nil)[0]
	r.Eval(1)
	if root.Fatal != "" {
		t.Fatalf("C25 service harness: empty history failed: %s", root.Fatal)
	}
	for _, v := range root.Vios {
		r.Violation(v.Key, v.What, replay(nil))
	}
	seen[hk(root.Key)] = true
	frontier := []node{{h: nil, enabled: root.Enabled, key: root.Key}}
	merged, spotMismatch, notQuiescent, snapTimeouts := 0, 0, 0, 0
	completed := 0
	var perDepth []string
	for d := 1; d <= ph.Depth; d++ {
		if ph.Budgeted && r.OverBudget() {
			r.Cap("batch size %d: time budget used up before depth %d; all histories up to depth %d are complete", ph.BatchSz, d, completed)
			break
		}
		var jobs []c25sJob
		var parent []int
		for pi, n := range frontier {
			for _, a := range n.enabled {
				h := append(append([]int(nil), n.h...), a)
				jobs = append(jobs, c25sJob{ID: len(jobs), H: h, BatchSz: ph.BatchSz, Multi: multi})
				parent = append(parent, pi)
			}
		}
		var stop func() bool
		if ph.Budgeted {
			stop = r.OverBudget
		}
		reps := pool.run(t, jobs, stop)
		var next []node
		newStates, spots, skipped := 0, 0, 0
		for _, rep := range reps {
			if rep.Skipped {
				skipped++
			}
		}
		// first the representatives, then the spot checks (which compare against them)
		for pass := 0; pass < 2; pass++ {
			for i, rep := range reps {
				par := frontier[parent[i]]
				if par.spot != (pass == 1) {
					continue
				}
				h := jobs[i].H
				a := h[len(h)-1]
				if rep.Skipped {
					continue
				}
				if rep.Fatal != "" {
					c25sFatalVio(r, ph.BatchSz, h, rep.Fatal)
					continue
				}
				if rep.Disabled {
					t.Fatalf("C25 service harness: action not enabled on replay of %s", c25sHistString(h))
				}
				r.Eval(1)
				r.Transition(rep.Steps)
				if rep.NotQuiescent {
					notQuiescent++
				}
				snapTimeouts += rep.SnapTimeouts
				vk := c25sVioKeys(rep.Vios)
				if par.spot {
					r.Validated(1)
					want, ok := succOf[hk(par.key)][a]
					if !ok || want.key != hk(rep.Key) || want.vios != vk {
						spotMismatch++
						if spotMismatch <= 5 {
							r.Note("merge spot check (batch size %d): %s reaches {%s} verdict {%s}; the representative of its parent state {%s} reached another state or verdict {%s} (known=%v)", ph.BatchSz, c25sHistString(h), rep.Key, vk, par.key, want.vios, ok)
						}
					}
				} else {
					if succOf[hk(par.key)] == nil {
						succOf[hk(par.key)] = map[int]succ{}
					}
					succOf[hk(par.key)][a] = succ{hk(rep.Key), vk}
				}
				for _, v := range rep.Vios {
					r.Violation(v.Key, fmt.Sprintf("batch size %d: %s", ph.BatchSz, v.What), replay(h))
				}
				r.Distinct(fmt.Sprintf("b%d %s", ph.BatchSz, rep.Outcome))
				r.SampleEvery(*nEval, map[string]any{"batch_size": ph.BatchSz, "history": c25sHistNames(h), "state": rep.Key, "outcome": rep.Outcome})
				*nEval++
				if !seen[hk(rep.Key)] {
					seen[hk(rep.Key)] = true
					newStates++
					next = append(next, node{h: h, enabled: rep.Enabled, key: rep.Key})
				} else if !par.spot {
					merged++
					if merged%4 == 0 && d < ph.Depth {
						spots++
						next = append(next, node{h: h, enabled: rep.Enabled, key: rep.Key, spot: true})
					}
				}
			}
		}
		if skipped > 0 {
			perDepth = append(perDepth, fmt.Sprintf("depth %d: %d of %d histories run when the time budget was used up", d, len(jobs)-skipped, len(jobs)))
			r.Cap("batch size %d: time budget used up in depth %d (%d of %d histories of that depth run and judged); all histories up to depth %d are complete", ph.BatchSz, d, len(jobs)-skipped, len(jobs), completed)
			break
		}
		completed = d
		perDepth = append(perDepth, fmt.Sprintf("depth %d: %d histories run, %d new states, %d merged histories kept for a spot check", d, len(jobs), newStates, spots))
		frontier = next
	}
	r.Set(fmt.Sprintf("batch%d_depth_completed", ph.BatchSz), completed)
	r.Set(fmt.Sprintf("batch%d_per_depth", ph.BatchSz), perDepth)
	r.Add("merged_histories", int64(merged))
	r.Add("merge_spotcheck_mismatches", int64(spotMismatch))
	r.Add("closings_not_quiescent", int64(notQuiescent))
	r.Add("snapshot_sync_timeouts", int64(snapTimeouts))
	return len(seen), completed
}

func TestVerif_C25_service(t *testing.T) {
	if os.Getenv("VERIF_C25S_CHILD") != "" {
		c25sChild(t)
		return
	}
	r := kit.Start(t, "C25", "service")
	defer r.Finish()

	phases := []c25sPhase{{BatchSz: 2, Depth: 5}, {BatchSz: 1, Depth: 4}, {BatchSz: 3, Depth: 4}}
	if r.Thorough() {
		phases = []c25sPhase{{BatchSz: 1, Depth: 5}, {BatchSz: 3, Depth: 5}, {BatchSz: 2, Depth: 7, Budgeted: true}}
	}
	if v := os.Getenv("VERIF_C25S_PHASE"); v != "" { // experiments only: "<batch>/<depth>"
		var b, d int
		fmt.Sscanf(v, "%d/%d", &b, &d)
		phases = []c25sPhase{{BatchSz: b, Depth: d}}
	}
	var pd []string
	for _, ph := range phases {
		pd = append(pd, fmt.Sprintf("length <= %d with batch size %d", ph.Depth, ph.BatchSz))
	}
	r.Rule("breadth-first search over all histories of " + strings.Join(pd, ", ") + " over {feed (next log index; 1-3 row changes, INSERT/UPDATE/DELETE on tables t/u, by ordinal), same-entry (one more group of the entry just handed over, <=3 per entry, only directly after a hand-over, only if the real db.CDCStreamer produces such groups), tick (150 ms: past the 100 ms batch delay and one 131 ms retry), long-tick (2.5 s: past the 2003 ms HWM interval), leader-gain/-loss, endpoint-down/-up (down alternates transport error / HTTP 503, up alternates 200 / 202), endpoint-fails-once (the next request only), snapshot-sync, restart (Stop, new Service on the same directory, the groups of the entries after the last snapshot handed over again), other-leader-delivers-{all,1,ahead} (another leader delivered every entry <= {highest handed over, 1, highest+1} and broadcast that as HWM; only while this node is not leader)}; every history+action is replayed on a fresh real cdc.Service (retry forever) in a synctest bubble, then closed with leader-gain + endpoint-up + long-ticks until nothing moves, and judged; histories whose canonical state key (roles, model, delivered set, HWM, durable FIFO content, FIFO highest key and has-next, highest batch this incarnation took from the FIFO and highest batch tried in this tenure, batcher content, own queued HWM broadcasts, follower loop's accepted HWM) was seen before are not extended; states = distinct keys, transitions = actions executed on the real service, distinct = observed (action, service reaction, closing outcome) triples")
	multi, perr := c25sMultiGroupEntries()
	if perr != nil {
		t.Fatalf("C25 service harness: %v", perr)
	}
	if v := os.Getenv("VERIF_C25S_MULTI"); v != "" { // experiments only
		multi = v == "1"
	}
	if multi {
		r.Note("db.CDCStreamer hands over one group per commit, so a log entry with several commits arrives as several groups of one index: same-entry is in the alphabet.")
	} else {
		r.Note("db.CDCStreamer hands over one group per log entry: same-entry is not in the alphabet.")
	}
	r.Set("same_entry_in_alphabet", multi)
	r.Assume("the environment of the CDC service is modelled from cdc/DESIGN.md, store.fsmSnapshot and cmd/rqlited/main.go: groups arrive once in log order; a completed snapshot sync precedes log truncation; after a restart the groups of the entries after the last snapshot arrive again; another node leads only while this one does not; an HWM broadcast by another leader covers only entries that leader delivered")
	r.Assume("state-key merging in the CDC service search: two histories with the same key are assumed to have the same futures (timer phases are not in the key; the ticks are longer than the timers they are meant to pass); 1 in 4 merged histories is extended anyway and its successors compared with the representative's (traces_validated_against_impl counts those executions, service.merge_spotcheck_mismatches the differences); a mismatch costs coverage, never a false alarm: every verdict comes from a concrete executed history")
	r.Assume("a node restart of the CDC service is Stop + NewService (a process kill differs only in the FIFO file, which C26 covers); retry limit = forever; the filter is applied upstream of the service (part index)")

	if raw := kit.Replay(); raw != nil {
		var rp c25sReplay
		if err := json.Unmarshal(raw, &rp); err != nil {
			t.Fatal(err)
		}
		h, err := c25sParse(rp.History)
		if err != nil {
			t.Fatal(err)
		}
		base := c25sScratchBase(t)
		if v := os.Getenv("VERIF_C25S_REPEAT"); v != "" { // experiments only: cost of one history
			var n int
			fmt.Sscan(v, &n)
			for i := 0; i < n; i++ {
				c25sExec(t, base, c25sJob{H: h, BatchSz: rp.BatchSize, Multi: true})
			}
		}
		rep := c25sExec(t, base, c25sJob{H: h, BatchSz: rp.BatchSize, Multi: true, Trace: true})
		r.Eval(1)
		r.Transition(rep.Steps)
		for _, l := range rep.Trace {
			t.Log(l)
		}
		if rep.Fatal != "" {
			c25sFatalVio(r, rp.BatchSize, h, rep.Fatal)
		}
		if rep.Disabled {
			t.Fatalf("replay: an action of %v is not enabled where it stands", rp.History)
		}
		for _, v := range rep.Vios {
			r.Violation(v.Key, fmt.Sprintf("batch size %d: %s", rp.BatchSize, v.What), rp)
		}
		return
	}

	pool := &c25sPool{n: 16, base: c25sScratchBase(t)}
	states, nEval := 0, 0
	for _, ph := range phases {
		n, done := c25sSearch(t, r, pool, ph, multi, &nEval)
		states += n
		if done < ph.Depth {
			r.Note("batch size %d: completed depth %d of %d.", ph.BatchSz, done, ph.Depth)
		}
	}
	r.State(states)
}
