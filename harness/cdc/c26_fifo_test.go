package cdc

import (
	"bytes"
	"encoding/json"
	"fmt"
	"io"
	"os"
	"os/exec"
	"path/filepath"
	"sort"
	"strings"
	"sync"
	"testing"
	"time"

	kit "github.com/rqlite/rqlite/v10/internal/verifkit"
	"go.etcd.io/bbolt"
)

// C26: the CDC disk queue is ordered, durable and duplicate-suppressing.
//
// Every operation sequence of length D over
//   enqueue(1..4) | delete-range(1..4) | consume | reopen | kill
// is run on a fresh real Queue (one bbolt file per sequence) next to a
// sequential reference model written from the property statement; after every
// step Len, Empty, FirstKey, HighestKey and HasNext are compared with the model,
// and every consume compares the emitted item (index and payload).
//
// Asynchrony: the queue is one manager goroutine; Enqueue/DeleteRange/queries
// are synchronous round trips to it and are handled in order, so a query issued
// after an operation observes the state after that operation (including the
// head reload the manager does after replying). Presence of an item is judged by
// a blocking receive (30 s guard); absence is judged by HasNext()==false, which
// is the manager's own "nothing to send" state (outCh is nil exactly then), and
// confirmed with a non-blocking receive.

const (
	c26OpEnq = iota
	c26OpDel
	c26OpConsume
	c26OpReopen
	c26OpKill
)

type c26Op struct {
	Kind int    `json:"kind"`
	Arg  uint64 `json:"arg,omitempty"`
}

func (o c26Op) String() string {
	switch o.Kind {
	case c26OpEnq:
		return fmt.Sprintf("enqueue(%d)", o.Arg)
	case c26OpDel:
		return fmt.Sprintf("delete-range(%d)", o.Arg)
	case c26OpConsume:
		return "consume"
	case c26OpReopen:
		return "reopen"
	}
	return "kill"
}

func (o c26Op) kindName() string {
	return [...]string{"enqueue", "delete-range", "consume", "reopen", "kill"}[o.Kind]
}

// c26Alphabet: enqueue(1..n), delete-range(1..n), consume, reopen[, kill].
func c26Alphabet(n int, kill bool) []c26Op {
	var a []c26Op
	for i := 1; i <= n; i++ {
		a = append(a, c26Op{c26OpEnq, uint64(i)})
	}
	for i := 1; i <= n; i++ {
		a = append(a, c26Op{c26OpDel, uint64(i)})
	}
	a = append(a, c26Op{Kind: c26OpConsume}, c26Op{Kind: c26OpReopen})
	if kill {
		a = append(a, c26Op{Kind: c26OpKill})
	}
	return a
}

// c26Model is the sequential reference model of the property statement.
type c26Model struct {
	stored  map[uint64][]byte // index -> payload of the accepted enqueue
	highest uint64            // highest index ever stored (survives restarts)
	cursor  uint64            // highest index emitted in this open (0 = none)
	// bookkeeping for classifying divergences only:
	delMaxThisOpen uint64          // largest delete-range argument issued in this open after an emission
	enqAfterDel    map[uint64]bool // items accepted later in the same open with index <= delMaxThisOpen
}

func c26NewModel() *c26Model {
	return &c26Model{stored: map[uint64][]byte{}, enqAfterDel: map[uint64]bool{}}
}

func (m *c26Model) keys() []uint64 {
	var k []uint64
	for i := range m.stored {
		k = append(k, i)
	}
	sort.Slice(k, func(a, b int) bool { return k[a] < k[b] })
	return k
}

func (m *c26Model) next() (uint64, bool) {
	for _, k := range m.keys() {
		if k > m.cursor {
			return k, true
		}
	}
	return 0, false
}

func (m *c26Model) first() uint64 {
	k := m.keys()
	if len(k) == 0 {
		return 0
	}
	return k[0]
}

func (m *c26Model) key() string {
	return fmt.Sprintf("%v|%d|%d", m.keys(), m.highest, m.cursor)
}

type c26Real struct {
	q    *Queue
	path string
	gen  int
	dir  string
}

func (r *c26Real) open() error {
	q, err := NewQueue(r.path)
	if err != nil {
		return err
	}
	r.q = q
	return nil
}

func c26Copy(dst, src string) error {
	in, err := os.Open(src)
	if err != nil {
		return err
	}
	defer in.Close()
	out, err := os.Create(dst)
	if err != nil {
		return err
	}
	if _, err := io.Copy(out, in); err != nil {
		out.Close()
		return err
	}
	return out.Close()
}

type c26Div struct {
	key, what string
}

// c26Run executes one sequence; it returns the first divergence (or nil) and
// the number of steps executed on the real queue.
//
// hooks.visit sees every checked transition. hooks.postOpen is called at every
// node reached by a reopen/kill step (after its checks passed) with a signature
// of the real on-disk content plus the model content; if it returns true the run
// stops there (prunedAt = that step), see the pruning argument at c26Explore.
type c26Hooks struct {
	visit    func(stateKey string, op c26Op, obs string)
	postOpen func(i int, sig string) bool
}

func c26Run(dir string, seq []c26Op, h *c26Hooks) (div *c26Div, steps int, prunedAt int) {
	prunedAt = -1
	real := &c26Real{dir: dir, path: filepath.Join(dir, "q0.db")}
	var files []string
	files = append(files, real.path)
	defer func() {
		if real.q != nil {
			real.q.Close()
		}
		for _, f := range files {
			os.Remove(f)
		}
	}()
	if err := real.open(); err != nil {
		return &c26Div{"C26:open-error", err.Error()}, 0, -1
	}
	m := c26NewModel()
	attempts := map[uint64]int{}
	hist := func(i int) string {
		p := make([]string, i+1)
		for j := 0; j <= i; j++ {
			p[j] = seq[j].String()
		}
		return strings.Join(p, ", ")
	}

	check := func(i int, op c26Op) *c26Div {
		q := real.q
		after := ":after-" + op.kindName()
		if l := q.Len(); l != len(m.stored) {
			cls := "C26:len-mismatch" + after
			if (op.Kind == c26OpReopen || op.Kind == c26OpKill) && l < len(m.stored) {
				cls = "C26:acknowledged-item-lost" + after
			}
			return &c26Div{cls, fmt.Sprintf("[%s]: Len=%d, model stores %v", hist(i), l, m.keys())}
		}
		if e, err := q.Empty(); err != nil || e != (len(m.stored) == 0) {
			return &c26Div{"C26:empty-mismatch" + after, fmt.Sprintf("[%s]: Empty=%v err=%v, model stores %v", hist(i), e, err, m.keys())}
		}
		if fk, err := q.FirstKey(); err != nil || fk != m.first() {
			return &c26Div{"C26:firstkey-mismatch" + after, fmt.Sprintf("[%s]: FirstKey=%d err=%v, model stores %v", hist(i), fk, err, m.keys())}
		}
		if hk, err := q.HighestKey(); err != nil || hk != m.highest {
			cls := "C26:highestkey-mismatch" + after
			return &c26Div{cls, fmt.Sprintf("[%s]: HighestKey=%d err=%v, model highest-ever %d", hist(i), hk, err, m.highest)}
		}
		nx, has := m.next()
		if hn := q.HasNext(); hn != has {
			if has {
				cls := "C26:stored-item-not-offered"
				if m.enqAfterDel[nx] {
					cls += ":enqueued-at-or-below-an-earlier-delete-range-of-this-open"
				}
				return &c26Div{cls + after, fmt.Sprintf("[%s]: item %d is stored, not deleted and not yet emitted in this open, but the queue has nothing to emit (HasNext=false, Len=%d)", hist(i), nx, q.Len())}
			}
			got := "?"
			select {
			case ev, ok := <-q.C:
				if ok {
					got = fmt.Sprint(ev.Index)
				}
			case <-time.After(30 * time.Second):
			}
			return &c26Div{"C26:unexpected-item-offered" + after, fmt.Sprintf("[%s]: model has nothing left to emit in this open (stored %v, emitted up to %d) but the queue offers item %s", hist(i), m.keys(), m.cursor, got)}
		}
		return nil
	}

	for i, op := range seq {
		pre := m.key()
		obs := ""
		steps++
		switch op.Kind {
		case c26OpEnq:
			attempts[op.Arg]++
			data := []byte(fmt.Sprintf("item-%d#%d", op.Arg, attempts[op.Arg]))
			// the producer reuses its buffer once the enqueue is acknowledged (a scratch-buffer
			// producer): the queue must have taken its own copy by then
			buf := append([]byte(nil), data...)
			if err := real.q.Enqueue(&Event{Index: op.Arg, Data: buf}); err != nil {
				return &c26Div{"C26:enqueue-error", fmt.Sprintf("[%s]: %v", hist(i), err)}, steps, -1
			}
			for bi := range buf {
				buf[bi] = '!'
			}
			if op.Arg > m.highest {
				m.stored[op.Arg] = data
				m.highest = op.Arg
				if op.Arg <= m.delMaxThisOpen {
					m.enqAfterDel[op.Arg] = true
				}
				obs = "stored"
			} else {
				obs = "ignored"
			}
		case c26OpDel:
			if err := real.q.DeleteRange(op.Arg); err != nil {
				return &c26Div{"C26:delete-range-error", fmt.Sprintf("[%s]: %v", hist(i), err)}, steps, -1
			}
			n := 0
			for k := range m.stored {
				if k <= op.Arg {
					delete(m.stored, k)
					n++
				}
			}
			if m.cursor > 0 && op.Arg > m.delMaxThisOpen {
				m.delMaxThisOpen = op.Arg // a delete-range issued after something was emitted in this open
			}
			obs = fmt.Sprintf("deleted%d", n)
		case c26OpConsume:
			nx, has := m.next()
			if has {
				select {
				case ev, ok := <-real.q.C:
					if !ok || ev == nil {
						return &c26Div{"C26:events-channel-closed", fmt.Sprintf("[%s]", hist(i))}, steps, -1
					}
					if ev.Index != nx {
						cls := "C26:emitted-out-of-order-or-duplicate"
						if _, st := m.stored[ev.Index]; !st {
							cls = "C26:emitted-item-not-stored"
						}
						return &c26Div{cls, fmt.Sprintf("[%s]: emitted %d, model expects %d (stored %v, emitted up to %d)", hist(i), ev.Index, nx, m.keys(), m.cursor)}, steps, -1
					}
					if !bytes.Equal(ev.Data, m.stored[nx]) {
						return &c26Div{"C26:emitted-payload-differs", fmt.Sprintf("[%s]: item %d payload %q, accepted enqueue had %q", hist(i), nx, ev.Data, m.stored[nx])}, steps, -1
					}
					m.cursor = nx
					obs = fmt.Sprintf("got%d", nx)
				case <-time.After(30 * time.Second):
					cls := "C26:stored-item-not-offered"
					if m.enqAfterDel[nx] {
						cls += ":enqueued-at-or-below-an-earlier-delete-range-of-this-open"
					}
					return &c26Div{cls + ":at-consume", fmt.Sprintf("[%s]: item %d not emitted within 30s (HasNext=%v)", hist(i), nx, real.q.HasNext())}, steps, -1
				}
			} else {
				// absence: judged by the state accessor, confirmed by a non-blocking receive
				if real.q.HasNext() {
					return &c26Div{"C26:unexpected-item-offered:at-consume", fmt.Sprintf("[%s]: model has nothing to emit (stored %v, emitted up to %d) but HasNext=true", hist(i), m.keys(), m.cursor)}, steps, -1
				}
				select {
				case ev := <-real.q.C:
					return &c26Div{"C26:unexpected-item-offered:at-consume", fmt.Sprintf("[%s]: received %v although HasNext=false", hist(i), ev)}, steps, -1
				default:
				}
				obs = "none"
			}
		case c26OpReopen:
			real.q.Close()
			real.q = nil
			if err := real.open(); err != nil {
				return &c26Div{"C26:reopen-error", fmt.Sprintf("[%s]: %v", hist(i), err)}, steps, -1
			}
			m.cursor, m.delMaxThisOpen, m.enqAfterDel = 0, 0, map[uint64]bool{}
		case c26OpKill:
			// Process kill at an operation boundary: the file as it is on disk now,
			// without Close. (bbolt commits are trusted to be atomic, so boundaries
			// inside a bbolt transaction are not explored.)
			real.gen++
			np := filepath.Join(real.dir, fmt.Sprintf("q%d.db", real.gen))
			if err := c26Copy(np, real.path); err != nil {
				panic("C26 harness: copy: " + err.Error())
			}
			files = append(files, np)
			real.q.Close() // dispose of the "dead" process; the image was taken before
			real.q = nil
			real.path = np
			if err := real.open(); err != nil {
				return &c26Div{"C26:open-after-kill-error", fmt.Sprintf("[%s]: %v", hist(i), err)}, steps, -1
			}
			m.cursor, m.delMaxThisOpen, m.enqAfterDel = 0, 0, map[uint64]bool{}
		}
		if d := check(i, op); d != nil {
			return d, steps, -1
		}
		if h != nil && h.visit != nil {
			h.visit(pre, op, obs+">"+m.key())
		}
		if (op.Kind == c26OpReopen || op.Kind == c26OpKill) && h != nil && h.postOpen != nil && i+1 < len(seq) {
			if h.postOpen(i, c26Signature(real.q, m)) {
				return nil, steps, i
			}
		}
	}
	return nil, steps, -1
}

// c26Signature is the logical content of the real bbolt file (queue bucket and
// max_key, read directly) together with the model's content.
func c26Signature(q *Queue, m *c26Model) string {
	var b strings.Builder
	err := q.db.View(func(tx *bbolt.Tx) error {
		if err := tx.Bucket(bucketName).ForEach(func(k, v []byte) error {
			fmt.Fprintf(&b, "%x=%s;", k, v)
			return nil
		}); err != nil {
			return err
		}
		return tx.Bucket(metaBucketName).ForEach(func(k, v []byte) error {
			fmt.Fprintf(&b, "meta %s=%x;", k, v)
			return nil
		})
	})
	if err != nil {
		panic("C26 harness: signature: " + err.Error())
	}
	b.WriteString("||")
	for _, k := range m.keys() {
		fmt.Fprintf(&b, "%d=%s;", k, m.stored[k])
	}
	fmt.Fprintf(&b, "hi=%d", m.highest)
	return b.String()
}

func c26ScratchBase(t *testing.T) string {
	// bbolt issues several system calls per transaction and fsyncs; a memory file
	// system keeps the enumeration affordable.
	if st, err := os.Stat("/dev/shm"); err == nil && st.IsDir() {
		d, err := os.MkdirTemp("/dev/shm", "verif-c26-")
		if err == nil {
			t.Cleanup(func() { os.RemoveAll(d) })
			return d
		}
	}
	return kit.Scratch(t)
}

// c26Items splits the work into items = the first two operations of a sequence,
// and deals them to shards: items containing reopen/kill (cheap, and they seed
// the table of explored nodes) first, then the others, both round-robin.
func c26Items(alpha []c26Op, shard, nshards int) [][2]int {
	var light, heavy, out [][2]int
	for a := range alpha {
		for b := range alpha {
			if alpha[a].Kind >= c26OpReopen || alpha[b].Kind >= c26OpReopen {
				light = append(light, [2]int{a, b})
			} else {
				heavy = append(heavy, [2]int{a, b})
			}
		}
	}
	for i, it := range light {
		if i%nshards == shard {
			out = append(out, it)
		}
	}
	for i, it := range heavy {
		if i%nshards == (nshards-1-shard) {
			out = append(out, it)
		}
	}
	return out
}

// c26Explore runs, in lexicographic order, every sequence of length D (>=3)
// below each work item of this shard.
//
// Pruning (sound, not a sampling device): a node reached by reopen/kill has no
// in-memory history - NewQueue derives everything from the file. Two such nodes
// with the same logical file content (and the same model content) therefore
// have the same futures, given deterministic code and trusted bbolt. A node is
// pruned only against a node with the same signature whose subtree, with at
// least as many remaining steps, has already been explored completely by this
// process (closed), itself under the same rule; by induction on closing time
// every pruned comparison has an executed twin. Only nodes whose whole subtree
// lies inside one work item (step >= 1) are ever recorded. Sequences without
// reopen/kill are never pruned.
func c26Explore(r *kit.Run, dir string, alpha []c26Op, D, shard, nshards int, budgeted bool, states map[string]struct{}) (complete bool) {
	A := len(alpha)
	closed := map[string]int{} // signature -> largest completely explored remaining depth
	cand := make([]string, D)  // signature of the not-yet-closed node at step i of the current path
	closeFrom := func(k int) {
		for i := k; i < D; i++ {
			if cand[i] != "" {
				if rem := D - (i + 1); closed[cand[i]] < rem {
					closed[cand[i]] = rem
				}
				cand[i] = ""
			}
		}
	}
	trans := map[string]struct{}{}
	seq := make([]c26Op, D)
	idx := make([]int, D)
	var pruned int64
	hooks := &c26Hooks{
		visit: func(pre string, op c26Op, obs string) {
			states[pre] = struct{}{}
			trans[pre+"/"+op.String()+"/"+obs] = struct{}{}
		},
	}
	hooks.postOpen = func(i int, sig string) bool {
		if rem, ok := closed[sig]; ok && rem >= D-(i+1) {
			return true
		}
		if i >= 1 {
			cand[i] = sig
		}
		return false
	}
	complete = true
	evals, steps := 0, 0
items:
	for _, it := range c26Items(alpha, shard, nshards) {
		closeFrom(0)
		idx[0], idx[1] = it[0], it[1]
		for k := 2; k < D; k++ {
			idx[k] = 0
		}
		for {
			for k := 0; k < D; k++ {
				seq[k] = alpha[idx[k]]
			}
			d, n, prunedAt := c26Run(dir, seq, hooks)
			evals++
			steps += n
			if d != nil {
				r.Violation(d.key, d.what, append([]c26Op(nil), seq[:n]...))
			}
			if budgeted && evals%64 == 0 && r.OverBudget() {
				complete = false
				break items
			}
			// next leaf: normally bump the last position; after a prune at step i,
			// skip every leaf that shares seq[0..i].
			k := D - 1
			if prunedAt >= 0 {
				pruned++
				k = prunedAt
			}
			for k >= 2 {
				idx[k]++
				if idx[k] < A {
					break
				}
				idx[k] = 0
				k--
			}
			if k < 2 {
				break // work item finished (or wholly covered)
			}
			closeFrom(k) // nodes at steps >= k are left for good
			for j := k + 1; j < D; j++ {
				idx[j] = 0
			}
		}
	}
	if complete {
		closeFrom(0)
	}
	r.Eval(evals)
	r.Transition(steps)
	r.Add("subtrees_pruned_as_already_explored", pruned)
	for k := range trans {
		r.Distinct(k)
	}
	return complete
}

type c26ChildResult struct {
	Evaluations int64             `json:"evaluations"`
	Transitions int64             `json:"transitions"`
	Distinct    []string          `json:"distinct_keys"`
	Violations  []kit.Violation   `json:"violations"`
	VioCounts   map[string]int    `json:"violation_counts"`
	Caps        []string          `json:"caps"`
	Extra       map[string]any    `json:"extra"`
	Complete    bool              `json:"complete"`
}

type c26Phase struct {
	N        int  // index domain 1..N
	Kill     bool // kill operation included
	D        int  // sequence length
	Budgeted bool // may be stopped by the time budget
}

func (p c26Phase) String() string {
	k := "reopen, kill"
	if !p.Kill {
		k = "reopen"
	}
	b := ""
	if p.Budgeted {
		b = " until the time budget"
	}
	return fmt.Sprintf("D=%d over {enqueue(1..%d), delete-range(1..%d), consume, %s}%s", p.D, p.N, p.N, k, b)
}

func TestVerif_C26(t *testing.T) {
	// ---- child mode: one shard of one phase, result written through the kit into a private directory
	if ch := os.Getenv("VERIF_C26_CHILD"); ch != "" {
		var shard, nshards, D, budgeted, n, kill int
		if _, err := fmt.Sscanf(ch, "%d/%d/%d/%d/%d/%d", &shard, &nshards, &D, &budgeted, &n, &kill); err != nil {
			t.Fatal(err)
		}
		r := kit.Start(t, "C26", "seq")
		defer r.Finish()
		states := map[string]struct{}{}
		if !c26Explore(r, c26ScratchBase(t), c26Alphabet(n, kill == 1), D, shard, nshards, budgeted == 1, states) {
			r.Cap("shard %d/%d of depth %d stopped by the time budget", shard, nshards, D)
		}
		var sl []string
		for k := range states {
			sl = append(sl, k)
		}
		sort.Strings(sl)
		r.Set("states", sl)
		return
	}

	r := kit.Start(t, "C26", "seq")
	defer r.Finish()
	// Every sequence needs its own bbolt open/close (several ms of system calls in
	// this environment), which bounds what fits into the tier budgets.
	phases := []c26Phase{{N: 4, Kill: true, D: 4}, {N: 2, Kill: false, D: 6}}
	if r.Thorough() {
		phases = []c26Phase{{N: 4, Kill: true, D: 5}, {N: 2, Kill: false, D: 7}, {N: 4, Kill: true, D: 6, Budgeted: true}}
	}
	if v := os.Getenv("VERIF_C26_DEPTH"); v != "" { // experiments only
		var d int
		fmt.Sscan(v, &d)
		phases = []c26Phase{{N: 4, Kill: true, D: d}}
	}
	var ps []string
	for _, p := range phases {
		ps = append(ps, p.String())
	}
	r.Rule("every operation sequence of length exactly D (all shorter ones are its prefixes and are checked step by step), for: " + strings.Join(ps, "; ") + "; each sequence runs on a fresh real Queue and bbolt file next to a sequential reference model, compared after every step; subtrees below a reopen/kill node whose on-disk content equals that of an already completely explored reopen/kill node with at least as many remaining steps are not re-run (sequences without reopen/kill are all run); states = distinct (stored set, highest-ever, emitted-this-open cursor); distinct = observed (state, operation, observation, next state) transitions")
	r.Assume("bbolt transactions are atomic and durable once Update returns: kill images are taken at operation boundaries only")
	r.Assume("a freshly opened Queue's behaviour depends only on the logical content of its bbolt file (used to merge reopen/kill nodes); the code is deterministic")
	r.Assume("'emits stored items' is read as: every stored, undeleted item not yet emitted in this open is offered on the channel; absence is read from HasNext (the manager's own send-enable state)")

	if raw := kit.Replay(); raw != nil {
		var seq []c26Op
		if err := json.Unmarshal(raw, &seq); err != nil {
			t.Fatal(err)
		}
		d, n, _ := c26Run(c26ScratchBase(t), seq, nil)
		r.Eval(1)
		r.Transition(n)
		if d != nil {
			r.Violation(d.key, d.what, seq)
		}
		return
	}

	// The queue opens/closes a bbolt file (mmap/munmap) per sequence; threads of one
	// process serialise on the address-space lock, so shards run as child processes.
	nproc := 16
	states := map[string]struct{}{}
	outBase := kit.Scratch(t)
	runPhase := func(pi int, ph c26Phase) bool {
		type res struct {
			c   c26ChildResult
			err error
			log string
		}
		results := make([]res, nproc)
		var wg sync.WaitGroup
		budget := ""
		if ph.Budgeted {
			left := 1
			if b := os.Getenv("VERIF_BUDGET_S"); b != "" {
				var total int
				fmt.Sscan(b, &total)
				left = total - int(time.Since(c26Start).Seconds())
				if left < 1 {
					left = 1
				}
			} else {
				left = 0 // no budget configured: run to completion
			}
			if left > 0 {
				budget = fmt.Sprint(left)
			}
		}
		b2i := func(b bool) int {
			if b {
				return 1
			}
			return 0
		}
		for i := 0; i < nproc; i++ {
			wg.Add(1)
			go func(i int) {
				defer wg.Done()
				od := filepath.Join(outBase, fmt.Sprintf("p%d-c%d", pi, i))
				os.MkdirAll(od, 0o755)
				cmd := exec.Command(os.Args[0], "-test.run", "^TestVerif_C26$", "-test.timeout", "40m")
				cmd.Env = append(os.Environ(),
					fmt.Sprintf("VERIF_C26_CHILD=%d/%d/%d/%d/%d/%d", i, nproc, ph.D, b2i(ph.Budgeted), ph.N, b2i(ph.Kill)),
					"VERIF_OUT="+od, "VERIF_BUDGET_S="+budget, "GOMAXPROCS=2", "VERIF_REPLAY=")
				out, err := cmd.CombinedOutput()
				results[i].log = string(out)
				if err != nil {
					results[i].err = err
					return
				}
				raw, err := os.ReadFile(filepath.Join(od, "C26.seq.json"))
				if err != nil {
					results[i].err = err
					return
				}
				results[i].err = json.Unmarshal(raw, &results[i].c)
			}(i)
		}
		wg.Wait()
		complete := true
		var evals int64
		for i, x := range results {
			if x.err != nil {
				t.Fatalf("child %d of phase %v failed: %v\n%s", i, ph, x.err, x.log)
			}
			evals += x.c.Evaluations
			r.Eval(int(x.c.Evaluations))
			r.Transition(int(x.c.Transitions))
			for _, k := range x.c.Distinct {
				r.Distinct(k)
			}
			for _, v := range x.c.Violations {
				r.Violation(v.Key, v.What, v.Replay)
			}
			for k, n := range x.c.VioCounts {
				r.Add("sequences_diverging:"+k, int64(n))
			}
			if len(x.c.Caps) > 0 {
				complete = false
			}
			if st, ok := x.c.Extra["states"].([]any); ok {
				for _, s := range st {
					states[fmt.Sprint(s)] = struct{}{}
				}
			}
			if p, ok := x.c.Extra["subtrees_pruned_as_already_explored"].(float64); ok {
				r.Add("subtrees_pruned_as_already_explored", int64(p))
			}
		}
		r.Note("phase %v: %d sequences run, complete=%v", ph, evals, complete)
		return complete
	}

	var done []string
	for pi, ph := range phases {
		if runPhase(pi, ph) {
			done = append(done, ph.String())
			continue
		}
		if !ph.Budgeted {
			t.Fatal("unbudgeted phase reported a cap")
		}
		r.Cap("%v stopped by the time budget; complete: %s", ph, strings.Join(done, "; "))
	}
	r.Set("phases_completed", done)
	r.State(len(states))
	r.Sample(map[string]any{"sequence": []string{"enqueue(1)", "consume", "delete-range(2)", "enqueue(2)", "consume", "reopen"}})
}

var c26Start = time.Now()
