package system

import (
	"context"
	"encoding/json"
	"errors"
	"fmt"
	"io"
	"net/http"
	"net/url"
	"os"
	"reflect"
	"sort"
	"strings"
	"sync"
	"testing"
	"time"

	"github.com/rqlite/rqlite/v10/auth"
	"github.com/rqlite/rqlite/v10/cluster"
	"github.com/rqlite/rqlite/v10/command/proto"
	httpd "github.com/rqlite/rqlite/v10/http"
	kit "github.com/rqlite/rqlite/v10/internal/verifkit"
	"github.com/rqlite/rqlite/v10/proxy"
	"github.com/rqlite/rqlite/v10/store"
	"github.com/rqlite/rqlite/v10/tcp"
)

// C20: a write, strong read or unified request sent to a follower is either
// redirected (when the client asks for it) or executed once on the leader with
// the caller's credentials, the leader's results and commit index come back
// unchanged, and nothing is executed against the follower's own database.
//
// Complete in-process nodes (Store + cluster service + proxy + HTTP service,
// built like system_test/helpers.go builds them, plus a credential store on the
// HTTP service and on the cluster service of every node): leader, voting
// follower, non-voter. One client, one request at a time on a quiescent cluster,
// so every oracle is schedule-independent:
//
//   - status/redirect/authorisation outcome as the statement prescribes;
//   - "results" equal what the leader itself answers (reads: the same statement
//     asked of the leader directly at level none right afterwards; writes: the
//     model's next AUTOINCREMENT id, one row affected);
//   - raft_index is an index the leader's log got during the request
//     (leader commit index before < raft_index <= after);
//   - every node's table equals the model after convergence (a write applied
//     exactly once, nothing on a refusal or redirect; a follower that executed
//     something itself would differ);
//   - the leader's cluster service saw exactly one command, carrying the caller's
//     user name and password (recorded by a wrapper around its credential store),
//     and no other node's cluster service saw any.
//
// The interleavings inside raft are whatever the run produced.

const (
	c20Poll     = 30 * time.Second
	c20RaftTO   = 2 * time.Second
	c20QueueTO  = "4s"
	c20NumNodes = 3
)

// ---- credentials ----------------------------------------------------------

type c20Call struct {
	User, Pass, Perm string
	OK               bool
}

// c20Rec wraps a node's credential store and records every decision asked of it.
type c20Rec struct {
	mu    sync.Mutex
	inner *auth.CredentialsStore
	calls []c20Call
}

func (r *c20Rec) AA(u, p, perm string) bool {
	ok := r.inner.AA(u, p, perm)
	r.mu.Lock()
	r.calls = append(r.calls, c20Call{u, p, perm, ok})
	r.mu.Unlock()
	return ok
}

func (r *c20Rec) take() []c20Call {
	r.mu.Lock()
	defer r.mu.Unlock()
	c := r.calls
	r.calls = nil
	return c
}

// Every node knows rw (everything), ro (query only), wo (execute only); node i
// alone knows only<i> (everything): a user the node the client talks to accepts
// but the leader does not.
func c20CredJSON(i int) string {
	return fmt.Sprintf(`[
 {"username":"rw","password":"pw","perms":["execute","query"]},
 {"username":"ro","password":"pw","perms":["query"]},
 {"username":"wo","password":"pw","perms":["execute"]},
 {"username":"only%d","password":"pw","perms":["execute","query"]}
]`, i)
}

// ---- nodes ----------------------------------------------------------------

type c20Node struct {
	*Node
	idx     int
	plain   *auth.CredentialsStore // same content as the recorders wrap; asked by the oracle only
	httpRec *c20Rec
	clRec   *c20Rec
	ldrCh   chan bool
}

var (
	c20ScratchOnce sync.Once
	c20ScratchBase string
)

func c20Dir(t *testing.T) string {
	c20ScratchOnce.Do(func() {
		if d, err := os.MkdirTemp("/dev/shm", "verif-c20-"); err == nil {
			c20ScratchBase = d
			t.Cleanup(func() { os.RemoveAll(d) })
		}
	})
	if c20ScratchBase == "" {
		return kit.Scratch(t)
	}
	d, err := os.MkdirTemp(c20ScratchBase, "n")
	if err != nil {
		t.Fatal(err)
	}
	return d
}

func c20MustCreds(i int) *auth.CredentialsStore {
	cs := auth.NewCredentialsStore()
	if err := cs.Load(strings.NewReader(c20CredJSON(i))); err != nil {
		panic(err)
	}
	return cs
}

// c20NewNode follows mustNodeEncrypted in helpers.go, with credential stores.
func c20NewNode(t *testing.T, idx int, bootstrap bool) *c20Node {
	dir := c20Dir(t)
	mux, _ := mustNewOpenMux("")
	raftDialer := tcp.NewDialer(cluster.MuxRaftHeader, nil)
	clstrDialer := tcp.NewDialer(cluster.MuxClusterHeader, nil)

	n := &c20Node{Node: &Node{Dir: dir, Mux: mux}, idx: idx, plain: c20MustCreds(idx),
		httpRec: &c20Rec{inner: c20MustCreds(idx)}, clRec: &c20Rec{inner: c20MustCreds(idx)}, ldrCh: make(chan bool, 64)}
	raftTn := tcp.NewLayer(mux.Listen(cluster.MuxRaftHeader), raftDialer)
	n.Store = store.New(&store.Config{DBConf: store.NewDBConfig(), Dir: dir, ID: fmt.Sprintf("n%d", idx)}, raftTn)
	n.Store.SnapshotThreshold = 1 << 20 // no snapshots while the histories run
	n.Store.ElectionTimeout, n.Store.HeartbeatTimeout, n.Store.LeaderLeaseTimeout = c20RaftTO, c20RaftTO, c20RaftTO
	n.Store.RaftLogLevel = "ERROR"
	n.Store.RegisterLeaderChange(n.ldrCh)

	clstr := cluster.New(mux.Listen(cluster.MuxClusterHeader), n.Store, n.Store, n.clRec)
	if err := clstr.Open(); err != nil {
		panic("harness: failed to open cluster service")
	}
	n.Cluster = clstr
	client := cluster.NewClient(clstrDialer, 30*time.Second)
	n.Client = client
	pxy := proxy.New(n.Store, client)
	n.Service = httpd.New("127.0.0.1:0", n.Store, client, pxy, n.httpRec)
	n.Service.DefaultQueueBatchSz = 8
	n.Service.DefaultQueueCap = 64
	if err := n.Service.Start(); err != nil {
		panic(fmt.Sprintf("harness: HTTP service: %v", err))
	}
	n.APIAddr = n.Service.Addr().String()
	clstr.SetAPIAddr(n.APIAddr)
	pxy.SetAPIAddr(n.APIAddr)
	if err := n.Store.Open(); err != nil {
		panic(fmt.Sprintf("harness: open store: %v", err))
	}
	if bootstrap {
		if err := n.Store.Bootstrap(store.NewServer(n.Store.ID(), n.Store.Addr(), true)); err != nil {
			panic(fmt.Sprintf("harness: bootstrap: %v", err))
		}
	}
	n.RaftAddr = n.Store.Addr()
	n.ID = n.Store.ID()
	return n
}

func (n *c20Node) drainLeaderEvents() (k int) {
	for {
		select {
		case <-n.ldrCh:
			k++
		default:
			return
		}
	}
}

// ---- cluster --------------------------------------------------------------

type c20Cluster struct {
	t      *testing.T
	nodes  []*c20Node // 0,1 voters; 2 non-voter
	client *http.Client

	// model
	rows    int    // rows in t
	maxID   int64  // highest id handed out (AUTOINCREMENT never reuses)
	lastV   string // v of the row with the highest id
	seq     int
	failErr any // the leader's own result for the failing statement
	dead    bool

	plainReads  bool          // [move] which node is leader while the read runs is up to the race: leave the per-node row out
	mark        int           // literal put into the read statement of the step being run (0: none)
	slowN       int64         // size of the slow statement, calibrated on this cluster's leader
	slowTook    time.Duration // what it took there
	slowTimeout time.Duration // the caller's timeout for a slow step
}

var errC20Infra = errors.New("cluster infrastructure fault")

var (
	c20LogAdvancedMu sync.Mutex
	c20LogAdvanced   = map[string]int{}
)

func c20NewCluster(t *testing.T) (c *c20Cluster, err error) {
	c = &c20Cluster{t: t, client: &http.Client{Timeout: 60 * time.Second,
		CheckRedirect: func(*http.Request, []*http.Request) error { return http.ErrUseLastResponse }}}
	defer func() {
		if p := recover(); p != nil {
			c.close()
			c, err = nil, fmt.Errorf("%w: %v", errC20Infra, p)
		}
	}()
	for i := 0; i < c20NumNodes; i++ {
		n := c20NewNode(t, i, i == 0)
		c.nodes = append(c.nodes, n)
		if i == 0 {
			if _, err := n.Store.WaitForLeader(60 * time.Second); err != nil {
				panic(err)
			}
			continue
		}
		if err := c.nodes[0].Store.Join(&proto.JoinRequest{Id: n.Store.ID(), Address: n.RaftAddr, Voter: i == 1}); err != nil {
			panic(fmt.Sprintf("join: %v", err))
		}
		if _, err := n.Store.WaitForLeader(60 * time.Second); err != nil {
			panic(err)
		}
	}
	ldr := c.nodes[0]
	for _, sql := range []string{`CREATE TABLE t (id INTEGER PRIMARY KEY AUTOINCREMENT, v TEXT)`, `INSERT INTO t(id, v) VALUES(1, 'seed')`, `CREATE TABLE s (id INTEGER PRIMARY KEY AUTOINCREMENT, v TEXT)`} {
		res, _, err := ldr.Store.Execute(context.Background(), &proto.ExecuteRequest{Request: &proto.Request{Statements: []*proto.Statement{{Sql: sql}}}})
		if err != nil || len(res) != 1 || res[0].GetError() != "" {
			panic(fmt.Sprintf("seed %q: %v %v", sql, err, res))
		}
	}
	c.rows, c.maxID, c.lastV = 1, 1, "seed"
	if err := c.settle(); err != nil {
		panic(err)
	}
	// one row that every node computes for itself (random() left as it is): the nodes' copies legitimately differ
	{
		req, _ := http.NewRequest("POST", "http://"+ldr.APIAddr+"/db/execute?norwrandom", strings.NewReader(c20JSON([]string{`CREATE TABLE r (id INTEGER PRIMARY KEY, v INTEGER)`, `INSERT INTO r(id, v) VALUES(1, random())`})))
		req.Header.Set("Content-Type", "application/json")
		req.SetBasicAuth("rw", "pw")
		resp, err := c.client.Do(req)
		if err != nil {
			panic(err)
		}
		b, _ := io.ReadAll(resp.Body)
		resp.Body.Close()
		if resp.StatusCode != 200 || strings.Contains(string(b), "error") {
			panic(fmt.Sprintf("table r: %d %s", resp.StatusCode, b))
		}
		if err := c.settle(); err != nil {
			panic(err)
		}
		vals := map[int64]bool{}
		for _, n := range c.nodes {
			qr := &proto.QueryRequest{Request: &proto.Request{Statements: []*proto.Statement{{Sql: `SELECT v FROM r WHERE id = 1`}}}, Level: proto.ConsistencyLevel_NONE}
			rows, _, _, err := n.Store.Query(context.Background(), qr)
			if err != nil || len(rows) != 1 || len(rows[0].Values) != 1 {
				panic(fmt.Sprintf("table r on n%d: %v %v", n.idx, err, rows))
			}
			vals[rows[0].Values[0].Parameters[0].GetI()] = true
		}
		if len(vals) != len(c.nodes) {
			panic(fmt.Sprintf("the nodes' random rows do not differ: %v", vals))
		}
	}
	// the leader's own answer to the failing statement, asked directly
	st, _, body, err := c.send(ldr, c20Step{Kind: "execfail", Cred: "full"}, "")
	if err != nil || st != 200 {
		panic(fmt.Sprintf("reference for the failing statement: %d %v %s", st, err, body))
	}
	var pb map[string]any
	if err := json.Unmarshal([]byte(body), &pb); err != nil {
		panic(err)
	}
	c.failErr = pb["results"]
	if !strings.Contains(body, "UNIQUE constraint failed") {
		panic("reference for the failing statement is not a constraint error: " + body)
	}
	if err := c.settle(); err != nil {
		panic(err)
	}
	c.takeAll()
	return c, nil
}

// close tears the cluster down, leader first (a follower closed under a live
// leader can panic inside raft: a heartbeat that passed raft's shutdown check
// writes the term to the already closed log store). It gives up after 25 s: a
// node whose write queue is stuck retrying can block http.Service.Close for ever
// (Queue.Close waits for the queue's goroutine, which is blocked handing the next
// batch to the stuck consumer); such a node is abandoned, the test process ends anyway.
func (c *c20Cluster) close() {
	sort.SliceStable(c.nodes, func(i, j int) bool { return c.nodes[i].Store.IsLeader() && !c.nodes[j].Store.IsLeader() })
	done := make(chan struct{})
	go func() {
		defer close(done)
		var wg sync.WaitGroup
		for i, n := range c.nodes {
			wg.Add(1)
			go func(n *c20Node) { defer wg.Done(); n.Deprovision() }(n)
			if i == 0 {
				time.Sleep(30 * time.Millisecond)
			}
		}
		wg.Wait()
	}()
	select {
	case <-done:
	case <-time.After(25 * time.Second):
		fmt.Fprintf(os.Stderr, "C20: a cluster did not shut down within 25 s; abandoned\n")
	}
}

func (c *c20Cluster) byIdx(i int) *c20Node {
	for _, n := range c.nodes {
		if n.idx == i {
			return n
		}
	}
	return nil
}

func (c *c20Cluster) leader() (*c20Node, error) {
	deadline := time.Now().Add(c20Poll)
	for {
		for _, n := range c.nodes {
			if n.Store.IsLeader() {
				return n, nil
			}
		}
		if time.Now().After(deadline) {
			return nil, fmt.Errorf("%w: no leader for %v", errC20Infra, c20Poll)
		}
		time.Sleep(10 * time.Millisecond)
	}
}

// role resolves "leader" | "follower" | "nonvoter" at this moment.
func (c *c20Cluster) role(r string) (*c20Node, error) {
	ldr, err := c.leader()
	if err != nil {
		return nil, err
	}
	switch r {
	case "leader":
		return ldr, nil
	case "nonvoter":
		return c.byIdx(2), nil
	}
	for _, n := range c.nodes {
		if n != ldr && n.idx != 2 {
			return n, nil
		}
	}
	return nil, errC20Infra
}

type c20State struct {
	N, M int64
	V    string
}

func (c *c20Cluster) localState(n *c20Node) (c20State, error) {
	qr := &proto.QueryRequest{Request: &proto.Request{Statements: []*proto.Statement{{Sql: `SELECT COUNT(*), MAX(id), (SELECT v FROM t ORDER BY id DESC LIMIT 1) FROM t`}}}, Level: proto.ConsistencyLevel_NONE}
	rows, _, _, err := n.Store.Query(context.Background(), qr)
	if err != nil || len(rows) != 1 || rows[0].Error != "" || len(rows[0].Values) != 1 {
		return c20State{}, fmt.Errorf("%w: local read on n%d: %v %v", errC20Infra, n.idx, err, rows)
	}
	p := rows[0].Values[0].Parameters
	return c20State{p[0].GetI(), p[1].GetI(), p[2].GetS()}, nil
}

func (c *c20Cluster) model() c20State { return c20State{int64(c.rows), c.maxID, c.lastV} }

// flushLog makes the leader commit everything it has appended (the no-op entry a
// new leader writes may still be uncommitted when it already reports itself leader):
// a strong read through the leader's Store goes behind it in the log.
func (c *c20Cluster) flushLog() error {
	deadline := time.Now().Add(c20Poll)
	for {
		ldr, err := c.leader()
		if err != nil {
			return err
		}
		qr := &proto.QueryRequest{Request: &proto.Request{Statements: []*proto.Statement{{Sql: `SELECT 1`}}}, Level: proto.ConsistencyLevel_STRONG}
		if _, _, _, err = ldr.Store.Query(context.Background(), qr); err == nil {
			return nil
		}
		if time.Now().After(deadline) {
			return fmt.Errorf("%w: strong read on the leader keeps failing: %v", errC20Infra, err)
		}
		time.Sleep(10 * time.Millisecond)
	}
}

// settle waits until every node knows the same leader, has the leader's commit
// index and holds the same table summary. Returns errC20Infra when it does not happen.
func (c *c20Cluster) settle() error {
	deadline := time.Now().Add(c20Poll)
	for {
		ok := true
		ldr, err := c.leader()
		if err != nil {
			return err
		}
		lci, _ := ldr.Store.CommitIndex()
		ls, err := c.localState(ldr)
		if err != nil {
			return err
		}
		for _, n := range c.nodes {
			la, _ := n.Store.LeaderAddr()
			ci, _ := n.Store.CommitIndex()
			st, err := c.localState(n)
			if err != nil {
				return err
			}
			if la != ldr.RaftAddr || ci != lci || st != ls || n.Store.DBAppliedIndex() != ldr.Store.DBAppliedIndex() {
				ok = false
			}
		}
		if ok {
			return nil
		}
		if time.Now().After(deadline) {
			return fmt.Errorf("%w: nodes did not converge within %v", errC20Infra, c20Poll)
		}
		time.Sleep(5 * time.Millisecond)
	}
}

func (c *c20Cluster) takeAll() (httpCalls, clCalls map[int][]c20Call, leaderEvents int) {
	httpCalls, clCalls = map[int][]c20Call{}, map[int][]c20Call{}
	for _, n := range c.nodes {
		httpCalls[n.idx] = n.httpRec.take()
		clCalls[n.idx] = n.clRec.take()
		leaderEvents += n.drainLeaderEvents()
	}
	return
}

func (c *c20Cluster) stepdown() error {
	old, err := c.leader()
	if err != nil {
		return err
	}
	if err := old.Store.Stepdown(true, ""); err != nil {
		return fmt.Errorf("%w: stepdown: %v", errC20Infra, err)
	}
	deadline := time.Now().Add(c20Poll)
	for {
		if n, err := c.leader(); err == nil && n != old {
			break
		}
		if time.Now().After(deadline) {
			return fmt.Errorf("%w: leadership did not move", errC20Infra)
		}
		time.Sleep(10 * time.Millisecond)
	}
	if err := c.flushLog(); err != nil {
		return err
	}
	if err := c.settle(); err != nil {
		return err
	}
	c.takeAll()
	return nil
}

// ---- requests -------------------------------------------------------------

type c20Step struct {
	Kind     string `json:"kind"`   // exec execfail qstrong qweak qnone reqw reqs reqmix queued
	Target   string `json:"target"` // leader follower nonvoter
	Redirect bool   `json:"redirect"`
	Cred     string `json:"cred"`           // none wrongpw lacking full exact targetonly
	Slow     bool   `json:"slow,omitempty"` // [slow] the statement keeps the leader busy much longer than the caller's timeout
	Mark     int    `json:"mark,omitempty"` // [slow] makes this step's read statement (and so its result) distinct
}

func (s c20Step) String() string {
	rd := ""
	if s.Redirect {
		rd = "+redirect"
	}
	if s.Slow {
		rd += "+slow"
	}
	if s.Mark != 0 {
		rd += fmt.Sprintf("#%d", s.Mark)
	}
	return fmt.Sprintf("%s@%s%s/%s", s.Kind, s.Target, rd, s.Cred)
}

type c20KindInfo struct {
	perms       []string
	needsLeader bool // the store refuses it on a non-leader
	writes      bool
	logged      bool // goes through the leader's raft log
	path        string
}

var c20Kinds = map[string]c20KindInfo{
	"exec":     {[]string{"execute"}, true, true, true, "/db/execute"},
	"execfail": {[]string{"execute"}, true, false, true, "/db/execute"},
	"qstrong":  {[]string{"query"}, true, false, true, "/db/query"},
	"qweak":    {[]string{"query"}, true, false, false, "/db/query"},
	"qnone":    {[]string{"query"}, false, false, false, "/db/query"},
	// linearizable: on the leader either a heartbeat round or (first one of a term) a strong read: not necessarily a log entry
	"qlin":   {[]string{"query"}, true, false, false, "/db/query"},
	"reqlin": {[]string{"query", "execute"}, true, false, false, "/db/request"},
	"reqw":   {[]string{"query", "execute"}, true, true, true, "/db/request"},
	"reqs":   {[]string{"query", "execute"}, true, false, true, "/db/request"},
	"reqmix": {[]string{"query", "execute"}, true, true, true, "/db/request"},
	"queued": {[]string{"execute"}, true, true, true, "/db/execute"},
}

var c20KindOrder = []string{"exec", "execfail", "qstrong", "qweak", "qnone", "qlin", "reqw", "reqs", "reqlin", "reqmix"}

func c20UserPass(s c20Step, target *c20Node) (u, p string, has bool) {
	switch s.Cred {
	case "none":
		return "", "", false
	case "wrongpw":
		return "rw", "bad", true
	case "lacking":
		if len(c20Kinds[s.Kind].perms) == 1 && c20Kinds[s.Kind].perms[0] == "query" {
			return "wo", "pw", true
		}
		return "ro", "pw", true
	case "lacking2": // the other half of the two permissions a unified request needs
		return "wo", "pw", true
	case "exact": // a user holding exactly the permissions the request needs
		if len(c20Kinds[s.Kind].perms) == 2 {
			return "rw", "pw", true
		}
		if c20Kinds[s.Kind].perms[0] == "query" {
			return "ro", "pw", true
		}
		return "wo", "pw", true
	case "targetonly":
		return fmt.Sprintf("only%d", target.idx), "pw", true
	}
	return "rw", "pw", true
}

// send performs the HTTP request of step s against node n. tag is the value a write inserts.
func (c *c20Cluster) send(n *c20Node, s c20Step, tag string) (status int, hdr http.Header, body string, err error) {
	status, hdr, body, _, err = c.send2(n, s, tag)
	return
}

func (c *c20Cluster) send2(n *c20Node, s c20Step, tag string) (status int, hdr http.Header, body string, rawQuery string, err error) {
	ki := c20Kinds[s.Kind]
	q := url.Values{}
	q.Set("raft_index", "")
	if s.Redirect {
		q.Set("redirect", "")
	}
	ins := fmt.Sprintf(`INSERT INTO t(v) VALUES('%s')`, tag)
	c20ReadSQL := c.readSQL(s.Kind)
	if s.Slow {
		// a statement that keeps the leader busy far longer than the caller is prepared to wait
		ins = fmt.Sprintf(`INSERT INTO s(v) SELECT '%s' FROM (%s) WHERE n > 0`, tag, c.slowSQL())
		c20ReadSQL = c.slowSQL()
		q.Set("timeout", c.slowTimeout.String())
	}
	var method, payload string
	switch s.Kind {
	case "exec":
		method, payload = "POST", c20JSON([]string{ins})
	case "execfail":
		method, payload = "POST", c20JSON([]string{`INSERT INTO t(id, v) VALUES(1, 'dup')`})
	case "qstrong", "qweak", "qnone":
		method = "GET"
		q.Set("level", strings.TrimPrefix(s.Kind, "q"))
		q.Set("q", c20ReadSQL)
	case "reqw":
		method, payload = "POST", c20JSON([]string{ins})
	case "reqs":
		method, payload = "POST", c20JSON([]string{c20ReadSQL})
		q.Set("level", "strong")
	case "qlin":
		method = "GET"
		q.Set("level", "linearizable")
		q.Set("linearizable_timeout", "30s")
		q.Set("q", c20ReadSQL)
	case "reqlin":
		method, payload = "POST", c20JSON([]string{c20ReadSQL})
		q.Set("level", "linearizable")
	case "reqmix":
		method, payload = "POST", c20JSON([]string{ins, c20ReadSQL})
	case "queued":
		method, payload = "POST", c20JSON([]string{ins})
		q.Set("queue", "")
		q.Set("wait", "")
		q.Set("timeout", c20QueueTO)
	default:
		panic("harness: unknown kind " + s.Kind)
	}
	u := "http://" + n.APIAddr + ki.path + "?" + q.Encode()
	rawQuery = q.Encode()
	req, err := http.NewRequest(method, u, strings.NewReader(payload))
	if err != nil {
		return 0, nil, "", "", err
	}
	if payload != "" {
		req.Header.Set("Content-Type", "application/json")
	}
	if user, pass, has := c20UserPass(s, n); has {
		req.SetBasicAuth(user, pass)
	}
	resp, err := c.client.Do(req)
	if err != nil {
		return 0, nil, "", "", err
	}
	defer resp.Body.Close()
	b, err := io.ReadAll(resp.Body)
	return resp.StatusCode, resp.Header, string(b), rawQuery, err
}

func c20JSON(v any) string {
	b, _ := json.Marshal(v)
	return string(b)
}

// readSQL is the read statement of a step. Except for a read at level none (which
// the asked node may serve itself) it also returns the row of table r, which was
// written with random() under norwrandom: every node holds its own value there, so
// an answer computed from the asked node's database instead of the leader's differs.
func (c *c20Cluster) readSQL(kind string) string {
	cols := "COUNT(*) AS n, MAX(id) AS m"
	if kind != "qnone" && !c.plainReads {
		cols += ", (SELECT v FROM r WHERE id = 1) AS rv"
	}
	if c.mark != 0 {
		cols += fmt.Sprintf(", %d AS k", c.mark)
	}
	return "SELECT " + cols + " FROM t"
}

func (c *c20Cluster) slowSQL() string {
	return fmt.Sprintf(`WITH RECURSIVE c(x) AS (SELECT 1 UNION ALL SELECT x+1 FROM c WHERE x < %d) SELECT COUNT(*) AS n FROM c`, c.slowN)
}

// calibrate sizes the slow statement on this cluster's leader so that it takes
// about 600 ms there (measured directly, level none), and sets the caller's
// timeout for slow steps to an eighth of what was measured.
func (c *c20Cluster) calibrate() error {
	if c.slowN != 0 {
		return nil
	}
	ldr, err := c.leader()
	if err != nil {
		return err
	}
	measure := func(n int64) (time.Duration, error) {
		c.slowN = n
		qr := &proto.QueryRequest{Request: &proto.Request{Statements: []*proto.Statement{{Sql: c.slowSQL()}}}, Level: proto.ConsistencyLevel_NONE}
		t0 := time.Now()
		rows, _, _, err := ldr.Store.Query(context.Background(), qr)
		if err != nil || len(rows) != 1 || rows[0].Error != "" {
			return 0, fmt.Errorf("%w: calibration statement: %v %v", errC20Infra, err, rows)
		}
		return time.Since(t0), nil
	}
	// the shorter of two runs is the better estimate of what the statement costs when nothing else competes;
	// grow the statement until that estimate reaches 600 ms
	n := int64(200000)
	var d time.Duration
	for i := 0; ; i++ {
		d1, err := measure(n)
		if err != nil {
			return err
		}
		d2, err := measure(n)
		if err != nil {
			return err
		}
		d = min(d1, d2)
		if d >= 600*time.Millisecond {
			break
		}
		if i == 12 {
			return fmt.Errorf("%w: could not size the slow statement (n=%d took %v)", errC20Infra, n, d)
		}
		f := float64(750*time.Millisecond) / float64(d+time.Millisecond)
		f = max(1.3, min(f, 8))
		n = int64(float64(n) * f)
	}
	c.slowN, c.slowTook, c.slowTimeout = n, d, (d / 8).Round(time.Millisecond)
	return nil
}

// leaderRead asks the leader itself, directly, for its answer to the read statement
// (level none: no log entry), through the endpoint family the step used.
func (c *c20Cluster) leaderRead(ldr *c20Node, unified bool, kind string) (any, error) {
	c20ReadSQL := c.readSQL(kind)
	var req *http.Request
	if unified {
		req, _ = http.NewRequest("POST", "http://"+ldr.APIAddr+"/db/request?level=none", strings.NewReader(c20JSON([]string{c20ReadSQL})))
		req.Header.Set("Content-Type", "application/json")
	} else {
		req, _ = http.NewRequest("GET", "http://"+ldr.APIAddr+"/db/query?level=none&q="+url.QueryEscape(c20ReadSQL), nil)
	}
	req.SetBasicAuth("rw", "pw")
	resp, err := c.client.Do(req)
	if err != nil {
		return nil, fmt.Errorf("%w: reference read: %v", errC20Infra, err)
	}
	defer resp.Body.Close()
	b, _ := io.ReadAll(resp.Body)
	var pb map[string]any
	if resp.StatusCode != 200 || json.Unmarshal(b, &pb) != nil {
		return nil, fmt.Errorf("%w: reference read: %d %s", errC20Infra, resp.StatusCode, b)
	}
	rs, _ := pb["results"].([]any)
	if len(rs) != 1 {
		return nil, fmt.Errorf("%w: reference read: %s", errC20Infra, b)
	}
	return rs[0], nil
}

// ---- one step and its oracle ----------------------------------------------

type c20Checker struct {
	r    *kit.Run
	held []c20Held // violations of the step being judged (flushed by flush)
}

type c20Held struct {
	class, what string
	s           c20Step
	ctx         string
	replay      any
}

func (k *c20Checker) vio(class string, s c20Step, ctx, what string, replay any) {
	k.held = append(k.held, c20Held{class, what, s, ctx, replay})
}

// flush reports the violations of one step. A queued write that reached the
// leader without the caller's credentials is reported as that, once: that it
// was then refused, retried and never applied are consequences, not further defects.
func (k *c20Checker) flush() {
	held := k.held
	k.held = nil
	for _, h := range held {
		if h.s.Kind == "queued" && h.class == "forwarded-credentials-not-the-callers" {
			var all []string
			for _, o := range held {
				all = append(all, o.class+": "+o.what)
			}
			k.r.Violation("C20:queued-write-forwarded-without-callers-credentials:"+h.s.Target, fmt.Sprintf("%s %s: %s", h.ctx, h.s, strings.Join(all, " | ")), h.replay)
			return
		}
	}
	for _, h := range held {
		k.r.Violation("C20:"+h.class+":"+h.s.Kind+"@"+c20TargetClass(h.s.Target), fmt.Sprintf("%s %s: %s", h.ctx, h.s, h.what), h.replay)
	}
}

func c20TargetClass(t string) string {
	if t == "leader" {
		return "leader"
	}
	return t
}

// run executes one step and judges it. It returns the outcome label, or an
// infrastructure error (leadership moved by itself, nodes did not converge):
// the caller then discards the cluster and repeats the history.
func (c *c20Cluster) run(k0 *c20Checker, s c20Step, ctx string, replay any) (outcome string, retErr error) {
	k := &c20Checker{r: k0.r}
	defer func() {
		if retErr == nil { // what was seen in a history that has to be repeated does not count
			k.flush()
		}
	}()
	ki := c20Kinds[s.Kind]
	ldr, err := c.leader()
	if err != nil {
		return "", err
	}
	target, err := c.role(s.Target)
	if err != nil {
		return "", err
	}
	if _, _, ev := c.takeAll(); ev > 0 {
		// leadership moved by itself since the last step: the new leader's no-op entry may still be uncommitted
		if err := c.flushLog(); err != nil {
			return "", err
		}
		if err := c.settle(); err != nil {
			return "", err
		}
		c.takeAll()
		if ldr, err = c.leader(); err != nil {
			return "", err
		}
		if target, err = c.role(s.Target); err != nil {
			return "", err
		}
	}
	ciB, _ := ldr.Store.CommitIndex()
	c.seq++
	tag := fmt.Sprintf("w%d", c.seq)
	user, pass, _ := c20UserPass(s, target)

	status, hdr, body, rawQuery, err := c.send2(target, s, tag)
	if err != nil {
		return "", fmt.Errorf("%w: %s: %v", errC20Infra, s, err)
	}
	ciA, _ := ldr.Store.CommitIndex()
	httpCalls, clCalls, ldrEvents := c.takeAll()
	_ = httpCalls
	if ldrEvents > 0 || !ldr.Store.IsLeader() {
		return "", fmt.Errorf("%w: leadership moved during %s", errC20Infra, s)
	}

	// what the statement prescribes
	authOK := func(cs *auth.CredentialsStore) bool {
		for _, p := range ki.perms {
			if !cs.AA(user, pass, p) {
				return false
			}
		}
		return true
	}
	local := target == ldr || !ki.needsLeader
	var want string // refused-by-target | redirected | refused-by-leader | executed-locally | executed-on-leader
	switch {
	case !authOK(target.plain):
		want = "refused-by-target"
	case local:
		want = "executed-locally"
	case s.Redirect && !(s.Kind == "queued" && !c20IsRedirect(status)):
		// (a queued write is accepted into the asked node's own queue; the statement lets it be
		// delivered to the leader instead of redirecting the client)
		want = "redirected"
	case !authOK(ldr.plain):
		want = "refused-by-leader"
	default:
		want = "executed-on-leader"
	}
	executes := want == "executed-locally" || want == "executed-on-leader"

	short := body
	if len(short) > 200 {
		short = short[:200]
	}
	got := fmt.Sprintf("status %d body %s", status, strings.TrimSpace(short))

	// 1. status
	switch want {
	case "refused-by-target", "refused-by-leader":
		// asking for a redirect with credentials the node does not accept may be answered either way
		if status != 401 && !(s.Redirect && c20IsRedirect(status) && target != ldr && ki.needsLeader) {
			k.vio("not-refused:"+s.Cred, s, ctx, fmt.Sprintf("credentials %q must be refused (%s), got %s", user, want, got), replay)
		}
	case "redirected":
		wantLoc := "http://" + ldr.APIAddr + ki.path + "?" + rawQuery
		if !c20IsRedirect(status) {
			k.vio("redirect-asked-but-not-redirected", s, ctx, "expected a redirect to the leader, got "+got, replay)
		} else if loc := hdr.Get("Location"); loc != wantLoc {
			k.vio("redirect-not-to-leader", s, ctx, fmt.Sprintf("Location %q, expected %q", loc, wantLoc), replay)
		}
	default:
		if status != 200 {
			k.vio("not-executed", s, ctx, "expected 200 with the leader's results, got "+got, replay)
		}
	}

	// 2. body of an executed request
	if executes && status == 200 {
		var pb map[string]any
		if err := json.Unmarshal([]byte(body), &pb); err != nil {
			k.vio("body-not-json", s, ctx, got, replay)
		} else {
			var wantRes []any
			nextID := float64(c.maxID + 1)
			wr := map[string]any{"last_insert_id": nextID, "rows_affected": float64(1)}
			if ki.writes {
				// the model first: the reference read below must already see the new row
				c.rows, c.maxID, c.lastV = c.rows+1, c.maxID+1, tag
			}
			switch s.Kind {
			case "exec", "reqw":
				wantRes = []any{wr}
			case "execfail":
				wantRes, _ = c.failErr.([]any)
			case "qstrong", "qweak", "qnone", "qlin", "reqs", "reqlin":
				ref, err := c.leaderRead(ldr, strings.HasPrefix(s.Kind, "req"), s.Kind)
				if err != nil {
					return "", err
				}
				wantRes = []any{ref}
			case "reqmix":
				ref, err := c.leaderRead(ldr, true, s.Kind)
				if err != nil {
					return "", err
				}
				wantRes = []any{wr, ref}
			}
			if s.Kind == "queued" {
				if _, ok := pb["sequence_number"]; !ok {
					k.vio("queued-response-malformed", s, ctx, got, replay)
				}
			} else {
				if !reflect.DeepEqual(pb["results"], any(wantRes)) {
					k.vio("results-differ-from-leader", s, ctx, fmt.Sprintf("results %s, the leader's are %s", c20JSON(pb["results"]), c20JSON(wantRes)), replay)
				}
				ri, _ := pb["raft_index"].(float64)
				if ki.logged {
					if uint64(ri) <= ciB || uint64(ri) > ciA {
						k.vio("raft-index-not-the-leaders", s, ctx, fmt.Sprintf("raft_index %v; the leader's commit index went from %d to %d during the request", pb["raft_index"], ciB, ciA), replay)
					}
				}
			}
		}
	} else if executes && ki.writes {
		// not executed although it had to be: reported above; the model keeps the old state
	}
	if ki.logged && executes && ciA == ciB {
		k.vio("not-through-leaders-log", s, ctx, fmt.Sprintf("the leader's commit index stayed at %d: the request was not executed through the leader (%s)", ciA, got), replay)
	}
	if !executes && ciA != ciB {
		// The only spontaneous log entry is the no-op of a leader elected behind the harness's back (its
		// leadership notifications can arrive late on a loaded machine). A refusal that really executes
		// does so every time: the first sighting in a history only makes the history run again.
		c20LogAdvancedMu.Lock()
		c20LogAdvanced[ctx]++
		first := c20LogAdvanced[ctx] == 1
		c20LogAdvancedMu.Unlock()
		if first {
			return "", fmt.Errorf("%w: leader's commit index moved from %d to %d during a request that must not execute (%s); repeating to tell an election from a defect", errC20Infra, ciB, ciA, s)
		}
		k.vio("refused-but-leader-log-advanced", s, ctx, fmt.Sprintf("outcome must be %s, yet the leader's commit index went from %d to %d (%s)", want, ciB, ciA, got), replay)
	}

	// 3. who was asked to execute, and with whose credentials
	first := ki.perms[0]
	for _, n := range c.nodes {
		calls := clCalls[n.idx]
		cmds := 0
		for _, cl := range calls {
			if cl.Perm == first {
				cmds++
			}
		}
		expectCmds := 0
		if n == ldr && (want == "executed-on-leader" || want == "refused-by-leader") {
			expectCmds = 1
		}
		if cmds != expectCmds {
			who := "the leader"
			if n != ldr {
				who = fmt.Sprintf("node n%d (not the leader)", n.idx)
			}
			k.vio(fmt.Sprintf("forwarded-%d-times-want-%d", c20Cap(cmds), expectCmds), s, ctx, fmt.Sprintf("%s's cluster service was asked %d times to execute (expected %d; outcome must be %s): %+v", who, cmds, expectCmds, want, calls), replay)
		}
		for _, cl := range calls {
			if cl.User != user || cl.Pass != pass {
				k.vio("forwarded-credentials-not-the-callers", s, ctx, fmt.Sprintf("the leader was asked with user %q password %q; the caller sent %q/%q", cl.User, cl.Pass, user, pass), replay)
				break
			}
		}
	}

	// 4. every node's database equals the model (writes applied once, via the log, everywhere)
	if err := c.settle(); err != nil {
		return "", err
	}
	for _, n := range c.nodes {
		st, err := c.localState(n)
		if err != nil {
			return "", err
		}
		if st != c.model() {
			what := "a write that had to be applied exactly once was not"
			if !executes || !ki.writes {
				what = "the request must not change any database"
			}
			k.vio("database-differs-from-model", s, ctx, fmt.Sprintf("node n%d holds (rows %d, max id %d, last %q), expected (rows %d, max id %d, last %q): %s (%s)", n.idx, st.N, st.M, st.V, c.rows, c.maxID, c.lastV, what, got), replay)
			// adopt what is there so that one defect is reported once
			ls, _ := c.localState(ldr)
			c.rows, c.maxID, c.lastV = int(ls.N), ls.M, ls.V
			break
		}
	}
	out := want
	if status != 200 && executes {
		out += fmt.Sprintf("!got-%d", status)
	}
	return out, nil
}

func c20IsRedirect(status int) bool {
	return status == 301 || status == 302 || status == 307 || status == 308
}

func c20Cap(n int) int {
	if n > 2 {
		return 2
	}
	return n
}

// ---- enumeration ----------------------------------------------------------

func c20Steps(kinds, targets, creds []string, redirects []bool) []c20Step {
	var out []c20Step
	for _, k := range kinds {
		for _, t := range targets {
			for _, rd := range redirects {
				for _, cr := range creds {
					if cr == "lacking2" && len(c20Kinds[k].perms) != 2 {
						continue
					}
					if cr == "exact" && len(c20Kinds[k].perms) == 2 {
						continue // the same user as "full"
					}
					out = append(out, c20Step{Kind: k, Target: t, Redirect: rd, Cred: cr})
				}
			}
		}
	}
	return out
}

type c20Hist struct {
	Section   string    `json:"section"`
	Stepdowns int       `json:"stepdowns_first"`     // leadership moved this many times before the first step
	Steps     []c20Step `json:"steps"`               // with a stepdown between consecutive steps
	OffsetMs  int       `json:"offset_ms,omitempty"` // [move] the request starts this long after the transfer (negative: before)
}

func (h c20Hist) String() string {
	var p []string
	for _, s := range h.Steps {
		p = append(p, s.String())
	}
	pre := ""
	if h.Section == "move" {
		return fmt.Sprintf("%s with a leadership transfer started %d ms relative to it", h.Steps[0], -h.OffsetMs)
	}
	if h.Section == "single" {
		pre = fmt.Sprintf("[after %d leadership transfers] ", h.Stepdowns)
	}
	if h.Section == "slow" {
		return strings.Join(p, " ; ")
	}
	return pre + strings.Join(p, " ; transfer ; ")
}

var c20AllTargets = []string{"leader", "follower", "nonvoter"}

func TestVerif_C20(t *testing.T) {
	r := kit.Start(t, "C20", "forward")
	defer r.Finish()
	k := &c20Checker{r: r}
	creds := []string{"none", "wrongpw", "lacking", "full", "exact", "targetonly"}
	if r.Thorough() {
		creds = append(creds, "lacking2")
	}
	r.Rule("requests: kind {execute insert, execute failing insert, query strong|weak|none|linearizable, unified insert, unified strong select, unified linearizable select, unified insert+select} x node asked {leader, voting follower, non-voter} x redirect {off,on} x credentials {none, wrong password, user lacking a needed permission, user with all permissions, user with exactly the permission needed, user only the asked node knows} over HTTP on a live 3-node cluster with credential stores. [single] each request with leadership where it was born and again after one and two leadership transfers. [pairs] histories step1 ; leadership transfer ; step2 with step1 over one request per forwarding channel (execute, query, unified) x node asked and step2 over kind x node asked x redirect (thorough: step1 over kind x node asked, step2 also x credentials {with the permissions, none, only the asked node knows}). [slow] a strong query | unified strong select | execute | unified write whose statement keeps the leader busy ~8x longer than the timeout= the caller allows (statement sized by measuring it on the leader), sent through the follower | the non-voter, followed by three fast, mutually distinct requests of one kind {execute, query strong, unified write, unified strong select, query weak} through the same node, each judged by the usual oracle; the slow write may be applied at most once. [queued] queued writes (queue+wait) x node asked x redirect x credentials, on clusters of their own. [move] a write|strong read|unified write sent to each node while a leadership transfer is started 0/1/5/20 ms earlier or later. distinct = (history, outcome of each step)")
	r.Assume("one client and one request at a time (except [move]); raft's own interleavings are not controlled and no oracle depends on them")
	r.Note("a history during which leadership moved by itself, or after which the nodes did not converge within 30 s, is repeated on a new cluster")

	var hists []c20Hist
	if raw := kit.Replay(); raw != nil {
		var h c20Hist
		if err := json.Unmarshal(raw, &h); err != nil || len(h.Steps) == 0 {
			t.Fatalf("C20: bad replay: %v", err)
		}
		hists = []c20Hist{h}
	} else {
		for sd := 0; sd <= 2; sd++ {
			for _, s := range c20Steps(c20KindOrder, c20AllTargets, creds, []bool{false, true}) {
				hists = append(hists, c20Hist{Section: "single", Stepdowns: sd, Steps: []c20Step{s}})
			}
		}
		k1 := []string{"exec", "qstrong", "reqw"}
		cr2 := []string{"full"}
		if r.Thorough() {
			k1, cr2 = c20KindOrder, []string{"full", "none", "targetonly"}
		}
		for _, s1 := range c20Steps(k1, c20AllTargets, []string{"full"}, []bool{false}) {
			for _, s2 := range c20Steps(c20KindOrder, c20AllTargets, cr2, []bool{false, true}) {
				hists = append(hists, c20Hist{Section: "pairs", Steps: []c20Step{s1, s2}})
			}
		}
		for _, k1 := range []string{"qstrong", "reqs", "exec", "reqw"} {
			for _, k2 := range []string{"exec", "qstrong", "reqw", "reqs", "qweak"} {
				for _, tg := range []string{"follower", "nonvoter"} {
					hists = append(hists, c20Hist{Section: "slow", Steps: []c20Step{
						{Kind: k1, Target: tg, Cred: "full", Slow: true},
						{Kind: k2, Target: tg, Cred: "full", Mark: 1}, {Kind: k2, Target: tg, Cred: "full", Mark: 2}, {Kind: k2, Target: tg, Cred: "full", Mark: 3}}})
				}
			}
		}
		for _, s := range c20Steps([]string{"queued"}, c20AllTargets, []string{"none", "wrongpw", "lacking", "full"}, []bool{false, true}) {
			hists = append(hists, c20Hist{Section: "queued", Steps: []c20Step{s}})
		}
		for _, s := range c20Steps([]string{"exec", "qstrong", "reqw"}, c20AllTargets, []string{"full"}, []bool{false}) {
			for _, off := range []int{-20, -5, -1, 0, 1, 5, 20} {
				hists = append(hists, c20Hist{Section: "move", Steps: []c20Step{s}, OffsetMs: off})
			}
		}
	}

	// Histories are dealt to workers, each with its own cluster; a cluster serves
	// many histories (the model follows the table; leadership is moved as each history asks).
	var wg sync.WaitGroup
	work := make(chan c20Hist)
	var mu sync.Mutex
	outcomes := map[string]int{}
	nw := 8
	if len(hists) < nw {
		nw = len(hists)
	}
	for w := 0; w < nw; w++ {
		wg.Add(1)
		go func() {
			defer wg.Done()
			var c *c20Cluster
			sdDone := 0 // leadership transfers this cluster has seen, modulo nothing: "single" wants an exact count from birth
			defer func() {
				if c != nil {
					c.close()
				}
			}()
			for h := range work {
				done := false
				for try := 0; try < 4 && !done; try++ {
					fresh := h.Section == "single" && sdDone > h.Stepdowns
					if c != nil && (c.dead || fresh) {
						c.close()
						c = nil
					}
					if c == nil {
						var err error
						if c, err = c20NewCluster(t); err != nil {
							fmt.Fprintf(os.Stderr, "C20: %v\n", err)
							c = nil
							continue
						}
						sdDone = 0
					}
					err := func() error {
						if h.Section == "single" {
							for sdDone < h.Stepdowns {
								if err := c.stepdown(); err != nil {
									return err
								}
								sdDone++
							}
						}
						var outs []string
						if h.Section == "slow" {
							so, err := c.runSlow(k, h)
							if err != nil {
								return err
							}
							outs = so
						}
						for i, s := range h.Steps {
							if h.Section == "slow" {
								break
							}
							if i > 0 {
								if err := c.stepdown(); err != nil {
									return err
								}
								sdDone++
							}
							var out string
							var err error
							if h.Section == "move" {
								out, err = c.runMove(k, s, h.OffsetMs, h.String(), h)
								// which way the race went is the run's business, not the evidence's
								fmt.Fprintf(os.Stderr, "C20 move: %s => %s\n", h, out)
								out = "judged"
							} else {
								out, err = c.run(k, s, h.String()+" step "+fmt.Sprint(i+1), h)
							}
							if err != nil {
								return err
							}
							outs = append(outs, out)
						}
						r.Eval(1)
						r.Transition(len(h.Steps))
						r.Distinct(h.String() + "=>" + strings.Join(outs, ","))
						mu.Lock()
						for _, o := range outs {
							outcomes[h.Section+":"+o]++
						}
						if n := outcomes[h.Section+":"+outs[len(outs)-1]]; n == 1 {
							r.Sample(map[string]any{"history": h.String(), "outcomes": outs})
						}
						mu.Unlock()
						if h.Section == "queued" && strings.Contains(outs[0], "!") {
							c.dead = true // a queue that could not deliver keeps retrying for ever
						}
						return nil
					}()
					if err != nil {
						fmt.Fprintf(os.Stderr, "C20: history %s: %v; repeating on a new cluster\n", h, err)
						c.dead = true
						continue
					}
					done = true
				}
				if !done {
					r.Cap("history %s could not be completed in 4 attempts", h)
				}
			}
		}()
	}
	// "single" histories sorted by stepdown count so that a cluster is reused as long as possible
	for i, h := range hists {
		if r.OverBudget() {
			r.Cap("time budget used up after %d of %d histories (order: single, pairs, slow, queued, move)", i, len(hists))
			break
		}
		work <- h
	}
	close(work)
	wg.Wait()
	r.State(len(hists))
	r.Set("step_outcomes", outcomes)
}

// ---- a forwarded request that outlasts the caller's timeout, then more traffic ----

// runSlow: step 1 is forwarded through h.Steps[0].Target with a statement that
// keeps the leader busy ~8 times longer than the timeout the caller allows, so the
// asked node gives up waiting while the leader is still working (the leader finishes
// later). Steps 2.. are ordinary, fast, mutually distinct forwarded requests through
// the same node, judged by the usual oracle: each must come back with the leader's
// results and index for THAT request. Whether step 1 is answered or fails is up to
// the run; if it was a write, it may be there at most once in the end.
func (c *c20Cluster) runSlow(k0 *c20Checker, h c20Hist) (outs []string, retErr error) {
	if err := c.calibrate(); err != nil {
		return nil, err
	}
	k := &c20Checker{r: k0.r}
	defer func() {
		if retErr == nil {
			k.flush()
		}
	}()
	s1 := h.Steps[0]
	s1.Slow = true
	target, err := c.role(s1.Target)
	if err != nil {
		return nil, err
	}
	c.takeAll()
	c.seq++
	tag := fmt.Sprintf("slow%d", c.seq)
	user, pass, _ := c20UserPass(s1, target)
	t0 := time.Now()
	status, _, body, err := c.send(target, s1, tag)
	if err != nil {
		return nil, fmt.Errorf("%w: %s: %v", errC20Infra, s1, err)
	}
	took := time.Since(t0)
	answered := false
	var pb map[string]any
	if status == 200 && json.Unmarshal([]byte(body), &pb) == nil {
		_, hasErr := pb["error"]
		answered = !hasErr
	}
	short := strings.TrimSpace(body)
	if len(short) > 160 {
		short = short[:160]
	}
	fmt.Fprintf(os.Stderr, "C20 slow: %s (statement sized to %v on the leader, caller timeout %v): status %d after %v: %s\n", s1, c.slowTook, c.slowTimeout, status, took.Round(time.Millisecond), short)
	if answered {
		k.r.Add("slow_step_answered_within_timeout", 1)
		outs = append(outs, "slow-step-answered")
	} else {
		outs = append(outs, "slow-step-gave-up")
	}
	_, clCalls, _ := c.takeAll()
	for _, n := range c.nodes {
		for _, cl := range clCalls[n.idx] {
			if cl.User != user || cl.Pass != pass {
				k.vio("slow:forwarded-credentials-not-the-callers", s1, h.String(), fmt.Sprintf("node n%d was asked with user %q password %q; the caller sent %q/%q", n.idx, cl.User, cl.Pass, user, pass), h)
				break
			}
		}
	}
	k.flush()

	for i, s := range h.Steps[1:] {
		c.mark = s.Mark
		out, err := c.run(k0, s, fmt.Sprintf("%s step %d", h, i+2), h)
		c.mark = 0
		if err != nil {
			return nil, err
		}
		outs = append(outs, out)
	}

	// the leader has finished whatever it was still doing (settle ran in the last step); is the slow write there, and how often?
	if err := c.flushLog(); err != nil {
		return nil, err
	}
	if err := c.settle(); err != nil {
		return nil, err
	}
	if c20Kinds[s1.Kind].writes {
		applied := int64(-1)
		for _, n := range c.nodes {
			qr := &proto.QueryRequest{Request: &proto.Request{Statements: []*proto.Statement{{Sql: fmt.Sprintf(`SELECT COUNT(*) FROM s WHERE v='%s'`, tag)}}}, Level: proto.ConsistencyLevel_NONE}
			rows, _, _, err := n.Store.Query(context.Background(), qr)
			if err != nil || len(rows) != 1 || len(rows[0].Values) != 1 {
				return nil, fmt.Errorf("%w: count on n%d: %v", errC20Infra, n.idx, err)
			}
			cnt := rows[0].Values[0].Parameters[0].GetI()
			if applied >= 0 && cnt != applied {
				k.vio("slow:nodes-differ", s1, h.String(), fmt.Sprintf("the slow write is on node n%d %d times, on another %d times", n.idx, cnt, applied), h)
			}
			applied = cnt
		}
		if applied > 1 {
			k.vio("slow:given-up-write-applied-more-than-once", s1, h.String(), fmt.Sprintf("the asked node stopped waiting for the leader after its timeout of %v (it answered the caller after %v with status %d: %s); the leader applied the write %d times", c.slowTimeout, took.Round(time.Millisecond), status, short, applied), h)
		}
		if answered && applied < 1 {
			k.vio("slow:success-reported-but-write-applied-"+fmt.Sprint(c20Cap(int(applied)))+"-times", s1, h.String(), short, h)
		}
		fmt.Fprintf(os.Stderr, "C20 slow: %s: write applied %d times\n", s1, applied)
	}
	return outs, nil
}

// ---- requests racing a leadership transfer ----------------------------------

// runMove sends one request (user with the permissions, no redirect) to the node
// in role s.Target while a leadership transfer is started offsetMs earlier
// (negative) or later (positive) than the request. Whatever the interleaving:
// a success carries the model's results and the write is on every node exactly
// once; a failure leaves the write applied at most once; every command that
// reached any node's cluster service carried the caller's credentials; all
// nodes end up equal.
func (c *c20Cluster) runMove(k0 *c20Checker, s c20Step, offsetMs int, ctx string, replay any) (outcome string, retErr error) {
	k := &c20Checker{r: k0.r}
	defer func() {
		if retErr == nil {
			k.flush()
		}
	}()
	ki := c20Kinds[s.Kind]
	c.plainReads = true
	defer func() { c.plainReads = false }()
	target, err := c.role(s.Target)
	if err != nil {
		return "", err
	}
	old, _ := c.leader()
	c.takeAll()
	c.seq++
	tag := fmt.Sprintf("m%d", c.seq)
	user, pass, _ := c20UserPass(s, target)

	var status int
	var body string
	var sendErr, sdErr error
	var wg sync.WaitGroup
	wg.Add(2)
	start := time.Now()
	go func() {
		defer wg.Done()
		if offsetMs > 0 {
			time.Sleep(time.Until(start.Add(time.Duration(offsetMs) * time.Millisecond)))
		}
		status, _, body, sendErr = c.send(target, s, tag)
	}()
	go func() {
		defer wg.Done()
		if offsetMs < 0 {
			time.Sleep(time.Until(start.Add(time.Duration(-offsetMs) * time.Millisecond)))
		}
		sdErr = old.Store.Stepdown(true, "")
	}()
	wg.Wait()
	if sendErr != nil {
		return "", fmt.Errorf("%w: %s: %v", errC20Infra, s, sendErr)
	}
	_ = sdErr // a transfer that was refused or timed out is one more interleaving
	if err := c.flushLog(); err != nil {
		return "", err
	}
	if err := c.settle(); err != nil {
		return "", err
	}
	_, clCalls, _ := c.takeAll()
	ldr, err := c.leader()
	if err != nil {
		return "", err
	}

	short := body
	if len(short) > 200 {
		short = short[:200]
	}
	got := fmt.Sprintf("status %d body %s", status, strings.TrimSpace(short))
	var pb map[string]any
	success := false
	if status == 200 && json.Unmarshal([]byte(body), &pb) == nil {
		_, hasErr := pb["error"]
		success = !hasErr
		if rs, ok := pb["results"].([]any); ok && success {
			for _, x := range rs {
				if m, ok := x.(map[string]any); ok && m["error"] != nil {
					success = false
				}
			}
		}
	}

	// how often is the write there?
	applied := int64(-1)
	for _, n := range c.nodes {
		qr := &proto.QueryRequest{Request: &proto.Request{Statements: []*proto.Statement{{Sql: fmt.Sprintf(`SELECT COUNT(*), COALESCE(MAX(id),0) FROM t WHERE v='%s'`, tag)}}}, Level: proto.ConsistencyLevel_NONE}
		rows, _, _, err := n.Store.Query(context.Background(), qr)
		if err != nil || len(rows) != 1 || len(rows[0].Values) != 1 {
			return "", fmt.Errorf("%w: count on n%d: %v", errC20Infra, n.idx, err)
		}
		cnt := rows[0].Values[0].Parameters[0].GetI()
		if applied >= 0 && cnt != applied {
			k.vio("move:nodes-differ", s, ctx, fmt.Sprintf("the write is on node n%d %d times, on another %d times (%s)", n.idx, cnt, applied, got), replay)
		}
		applied = cnt
	}
	if applied > 1 {
		k.vio("move:write-applied-more-than-once", s, ctx, fmt.Sprintf("the write is in the table %d times (%s)", applied, got), replay)
	}
	if !ki.writes && applied != 0 {
		k.vio("move:read-wrote", s, ctx, got, replay)
	}
	if ki.writes && success && applied != 1 {
		k.vio("move:success-reported-but-write-applied-"+fmt.Sprint(c20Cap(int(applied)))+"-times", s, ctx, got, replay)
	}
	if applied >= 1 {
		c.rows, c.maxID, c.lastV = c.rows+1, c.maxID+1, tag
	}
	if success {
		wr := map[string]any{"last_insert_id": float64(c.maxID), "rows_affected": float64(1)}
		var wantRes []any
		switch s.Kind {
		case "exec", "reqw":
			wantRes = []any{wr}
		case "qstrong":
			ref, err := c.leaderRead(ldr, false, s.Kind)
			if err != nil {
				return "", err
			}
			wantRes = []any{ref}
		}
		if !reflect.DeepEqual(pb["results"], any(wantRes)) {
			k.vio("move:results-differ-from-leader", s, ctx, fmt.Sprintf("results %s, expected %s", c20JSON(pb["results"]), c20JSON(wantRes)), replay)
		}
	}
	for _, n := range c.nodes {
		for _, cl := range clCalls[n.idx] {
			if cl.User != user || cl.Pass != pass {
				k.vio("move:forwarded-credentials-not-the-callers", s, ctx, fmt.Sprintf("node n%d was asked with user %q password %q; the caller sent %q/%q", n.idx, cl.User, cl.Pass, user, pass), replay)
				break
			}
		}
	}
	for _, n := range c.nodes {
		st, err := c.localState(n)
		if err != nil {
			return "", err
		}
		if st != c.model() {
			k.vio("move:database-differs-from-model", s, ctx, fmt.Sprintf("node n%d holds (rows %d, max id %d, last %q), expected (rows %d, max id %d, last %q) (%s)", n.idx, st.N, st.M, st.V, c.rows, c.maxID, c.lastV, got), replay)
			ls, _ := c.localState(ldr)
			c.rows, c.maxID, c.lastV = int(ls.N), ls.M, ls.V
			break
		}
	}
	moved := "leadership-moved"
	if ldr == old {
		moved = "leadership-stayed"
	}
	if success {
		return "answered:" + moved, nil
	}
	return fmt.Sprintf("failed-%d:applied-%d:%s", status, applied, moved), nil
}
