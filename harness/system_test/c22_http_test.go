package system

import (
	"bytes"
	"context"
	"crypto/sha256"
	"encoding/hex"
	"encoding/json"
	"errors"
	"fmt"
	"io"
	"net"
	"net/http"
	"os"
	"path/filepath"
	"strings"
	"sync"
	"testing"
	"time"

	"github.com/rqlite/rqlite/v10/cluster"
	"github.com/rqlite/rqlite/v10/command/proto"
	sql "github.com/rqlite/rqlite/v10/db"
	httpd "github.com/rqlite/rqlite/v10/http"
	kit "github.com/rqlite/rqlite/v10/internal/verifkit"
	"github.com/rqlite/rqlite/v10/proxy"
	"github.com/rqlite/rqlite/v10/store"
	"github.com/rqlite/rqlite/v10/tcp"
)

// C22, part "http": what the real POST /db/load handler adds to the store-level
// part. Complete in-process nodes (Store + cluster service + proxy + the real
// http.Service, built the way system_test/helpers.go builds them) - one node, or
// a leader plus a read-only node to which the loads are sent (so they are
// forwarded) - and every load goes through the real HTTP endpoint.
//
// Every history up to the explored length, the first operation being a load, over
//
//	V  load SQL text: a valid dump (BEGIN TRANSACTION ... COMMIT, tables dropped first)
//	X  load SQL text: a dump whose third statement after BEGIN fails
//	P  load SQL text without an explicit BEGIN that fails at its second statement
//	G  load garbage text
//	F  load a valid SQLite file            U  load random bytes (not UTF-8)
//	C  load a SQLite file cut in its second page
//	W  write (POST /db/execute)            S  snapshot on every node
//	R  restart every node (the read-only node first)
//
// is followed by a closing sequence that asks whether the node still works: a
// write, a strong read over HTTP, a valid SQL-text load, a snapshot on every node,
// one more write. A reference model (rows of table t) is stepped alongside.
//
// Oracle after every step, on every node: the logical dump equals the model. A
// load that fails (X, P, G, U, C) must be reported as failed and leave every node
// unchanged - for P, whose text is not wrapped in a transaction, the statements
// before the failing one may also have been applied, on all nodes alike. Every
// acknowledged write must be visible on every node, the valid loads and the
// snapshots of the closing sequence must succeed.

const (
	c22hSchema   = "CREATE TABLE t(id INTEGER PRIMARY KEY, v TEXT)"
	c22hConverge = 60 * time.Second
	c22hGrace    = 15 * time.Second
)

var c22hOpName = map[byte]string{'V': "valid-dump", 'X': "dump-failing-inside-transaction", 'P': "plain-text-failing-midway", 'G': "garbage-text",
	'F': "valid-file", 'U': "random-bytes", 'C': "truncated-file", 'W': "write", 'S': "snapshot", 'R': "restart"}

// ---- network: one real listener per node for the whole case ---------------

type c22hPort struct {
	ln  net.Listener
	mu  sync.Mutex
	cur *c22hGen
}

// c22hGen is the listener one incarnation of a node gives to its Mux.
type c22hGen struct {
	port *c22hPort
	ch   chan net.Conn
	done chan struct{}
	once sync.Once
}

func c22hNewPort() *c22hPort {
	ln, err := net.Listen("tcp", "127.0.0.1:0")
	if err != nil {
		panic(fmt.Sprintf("harness: cannot listen: %v", err))
	}
	p := &c22hPort{ln: ln}
	go func() {
		for {
			conn, err := ln.Accept()
			if err != nil {
				return
			}
			p.mu.Lock()
			g := p.cur
			p.mu.Unlock()
			if g == nil {
				conn.Close()
				continue
			}
			select {
			case g.ch <- conn:
			case <-g.done:
				conn.Close()
			}
		}
	}()
	return p
}

func (p *c22hPort) gen() *c22hGen {
	g := &c22hGen{port: p, ch: make(chan net.Conn), done: make(chan struct{})}
	p.mu.Lock()
	p.cur = g
	p.mu.Unlock()
	return g
}

func (g *c22hGen) Accept() (net.Conn, error) {
	select {
	case c := <-g.ch:
		return c, nil
	case <-g.done:
		return nil, net.ErrClosed
	}
}
func (g *c22hGen) Close() error   { g.once.Do(func() { close(g.done) }); return nil }
func (g *c22hGen) Addr() net.Addr { return g.port.ln.Addr() }

// ---- nodes ---------------------------------------------------------------

type c22hNode struct {
	*Node
	role string // "leader" | "read-only-node"
	port *c22hPort
	gen  *c22hGen
}

// start builds one incarnation of the node the way mustNodeEncrypted does.
func (n *c22hNode) start(id, dir string) error {
	n.gen = n.port.gen()
	mux, err := tcp.NewMux(n.gen, nil)
	if err != nil {
		return err
	}
	mux.Logger.SetOutput(io.Discard)
	go mux.Serve()
	raftTn := tcp.NewLayer(mux.Listen(cluster.MuxRaftHeader), tcp.NewDialer(cluster.MuxRaftHeader, nil))
	node := &Node{Dir: dir, Mux: mux, PeersPath: filepath.Join(dir, "raft/peers.json")}
	node.Store = store.New(&store.Config{DBConf: store.NewDBConfig(), Dir: dir, ID: id}, raftTn)
	node.Store.NoSnapshotOnClose = true
	if n.role == "leader" {
		// the only voter: short timeouts only shorten its self-election
		node.Store.HeartbeatTimeout = 100 * time.Millisecond
		node.Store.ElectionTimeout = 100 * time.Millisecond
		node.Store.LeaderLeaseTimeout = 100 * time.Millisecond
	}
	clstr := cluster.New(mux.Listen(cluster.MuxClusterHeader), node.Store, node.Store, mustNewMockCredentialStore())
	if err := clstr.Open(); err != nil {
		return err
	}
	node.Cluster = clstr
	node.Client = cluster.NewClient(tcp.NewDialer(cluster.MuxClusterHeader, nil), 30*time.Second)
	pxy := proxy.New(node.Store, node.Client)
	node.Service = httpd.New("127.0.0.1:0", node.Store, node.Client, pxy, nil)
	if err := node.Service.Start(); err != nil {
		return err
	}
	node.APIAddr = node.Service.Addr().String()
	clstr.SetAPIAddr(node.APIAddr)
	pxy.SetAPIAddr(node.APIAddr)
	if err := node.Store.Open(); err != nil {
		node.Service.Close()
		clstr.Close()
		return err
	}
	node.RaftAddr = node.Store.Addr()
	node.ID = node.Store.ID()
	n.Node = node
	return nil
}

func (n *c22hNode) stop() error {
	err := n.Node.Close(true)
	n.Mux.Close()
	n.gen.Close()
	return err
}

func c22hWaitLeader(s *store.Store) error {
	deadline := time.Now().Add(c22hConverge)
	for !s.IsLeader() {
		if time.Now().After(deadline) {
			return fmt.Errorf("not leader after %v", c22hConverge)
		}
		time.Sleep(5 * time.Millisecond)
	}
	_, err := s.WaitForLeader(c22hConverge)
	return err
}

// ---- dumps ----------------------------------------------------------------

func c22hDump(s *store.Store) (string, error) {
	q := func(stmt string) (*proto.QueryRows, error) {
		qr := &proto.QueryRequest{Request: &proto.Request{Statements: []*proto.Statement{{Sql: stmt}}}, Level: proto.ConsistencyLevel_NONE}
		rows, _, _, err := s.Query(context.Background(), qr)
		if err != nil {
			return nil, err
		}
		if len(rows) != 1 {
			return nil, fmt.Errorf("%d results", len(rows))
		}
		if rows[0].Error != "" {
			return nil, errors.New(rows[0].Error)
		}
		return rows[0], nil
	}
	cell := func(p *proto.Parameter) string {
		switch v := p.GetValue().(type) {
		case *proto.Parameter_I:
			return fmt.Sprintf("%d", v.I)
		case *proto.Parameter_D:
			return fmt.Sprintf("%g", v.D)
		case *proto.Parameter_S:
			return v.S
		case *proto.Parameter_Y:
			return "x" + hex.EncodeToString(v.Y)
		case *proto.Parameter_B:
			return fmt.Sprintf("%v", v.B)
		}
		return "NULL"
	}
	m, err := q("SELECT type, name, tbl_name, sql FROM sqlite_master ORDER BY type, name")
	if err != nil {
		return "", fmt.Errorf("reading schema: %v", err)
	}
	var b strings.Builder
	var tables []string
	for _, r := range m.Values {
		var cs []string
		for _, p := range r.Parameters {
			cs = append(cs, cell(p))
		}
		b.WriteString(strings.Join(cs, "|") + "\n")
		if cs[0] == "table" {
			tables = append(tables, cs[1])
		}
	}
	for _, tn := range tables {
		rows, err := q(fmt.Sprintf("SELECT * FROM %q ORDER BY rowid", tn))
		if err != nil {
			return "", fmt.Errorf("reading table %s: %v", tn, err)
		}
		fmt.Fprintf(&b, "[%s]\n", tn)
		for _, r := range rows.Values {
			var cs []string
			for _, p := range r.Parameters {
				cs = append(cs, cell(p))
			}
			b.WriteString(strings.Join(cs, "|") + "\n")
		}
	}
	return b.String(), nil
}

// c22hModel: rows of t in id order.
type c22hModel struct {
	ids []int
	vs  []string
}

func (m *c22hModel) clone() *c22hModel {
	return &c22hModel{append([]int(nil), m.ids...), append([]string(nil), m.vs...)}
}

func (m *c22hModel) add(v string) {
	id := 1
	if len(m.ids) > 0 {
		id = m.ids[len(m.ids)-1] + 1
	}
	m.ids = append(m.ids, id)
	m.vs = append(m.vs, v)
}

func (m *c22hModel) dump() string {
	var b strings.Builder
	b.WriteString("table|t|t|" + c22hSchema + "\n[t]\n")
	for i := range m.ids {
		fmt.Fprintf(&b, "%d|%s\n", m.ids[i], m.vs[i])
	}
	return b.String()
}

func c22hRows(tag string, n int) *c22hModel {
	m := &c22hModel{}
	for i := 1; i <= n; i++ {
		m.ids = append(m.ids, i)
		m.vs = append(m.vs, fmt.Sprintf("%s%d", tag, i))
	}
	return m
}

// ---- inputs ---------------------------------------------------------------

type c22hInputs struct {
	validDump, badDump, plainFailing, garbage string
	file, truncated, random                 []byte
	dumpM, fileM                            *c22hModel
}

func c22hMakeInputs(dir string) *c22hInputs {
	in := &c22hInputs{dumpM: c22hRows("lt", 4), fileM: c22hRows("lf", 150)}
	var b strings.Builder
	b.WriteString("PRAGMA foreign_keys=OFF;\nBEGIN TRANSACTION;\nDROP TABLE IF EXISTS t;\n" + c22hSchema + ";\n")
	for i := range in.dumpM.ids {
		fmt.Fprintf(&b, "INSERT INTO \"t\" VALUES(%d,'%s');\n", in.dumpM.ids[i], in.dumpM.vs[i])
	}
	b.WriteString("COMMIT;\n")
	in.validDump = b.String()
	in.badDump = "PRAGMA foreign_keys=OFF;\nBEGIN TRANSACTION;\nCREATE TABLE bar (id INTEGER NOT NULL PRIMARY KEY, name TEXT);\nINSERT INTO \"bar\" VALUES(1,'from-bad-load');\nINSERT INTO \"no_such_table\" VALUES(1,'boom');\nINSERT INTO \"bar\" VALUES(2,'never-reached');\nCOMMIT;\n"
	in.plainFailing = "INSERT INTO t(v) VALUES('plain1');\nINSERT INTO no_such_table VALUES(1,'boom');\nINSERT INTO t(v) VALUES('plain2');\n"
	in.garbage = "this is neither SQL nor a database;"

	p := filepath.Join(dir, "file.db")
	d, err := sql.Open(p, false, false)
	if err != nil {
		panic(err)
	}
	qs := []string{c22hSchema}
	for i := range in.fileM.ids {
		qs = append(qs, fmt.Sprintf("INSERT INTO t(id,v) VALUES(%d,'%s')", in.fileM.ids[i], in.fileM.vs[i]))
	}
	// padding rows in a second table would change the dump; pad t's pages instead with a dropped table
	qs = append(qs, "CREATE TABLE pad(x TEXT)", "INSERT INTO pad VALUES(hex(zeroblob(6000)))", "INSERT INTO pad VALUES(hex(zeroblob(6000)))", "DROP TABLE pad")
	for _, q := range qs {
		if r, err := d.ExecuteStringStmt(q); err != nil || r[0].GetError() != "" {
			panic(fmt.Sprintf("harness: %s: %v %v", q, err, r))
		}
	}
	if err := d.Close(); err != nil {
		panic(err)
	}
	if in.file, err = os.ReadFile(p); err != nil {
		panic(err)
	}
	if len(in.file) < 3*4096 {
		panic("harness: database file is not multi-page")
	}
	in.truncated = append([]byte(nil), in.file[:4096+2048]...)
	in.random = make([]byte, 1024)
	x := uint64(0x9E3779B97F4A7C15)
	for i := range in.random {
		x ^= x << 13
		x ^= x >> 7
		x ^= x << 17
		in.random[i] = byte(x >> 32)
	}
	in.random[0] = 0xff // never valid UTF-8, never the SQLite magic
	return in
}

// ---- enumeration ------------------------------------------------------------

type c22hCase struct {
	History string `json:"history"`
	Nodes   int    `json:"nodes"` // 1, or 2 = leader + read-only node that receives the loads
	Target  string `json:"target"` // node the loads are posted to: "leader" | "read-only-node"
}

func c22hHistories(depth int) []string {
	var out []string
	var rec func(h string)
	rec = func(h string) {
		if len(h) == depth {
			out = append(out, h)
			return
		}
		ops := "VXPGFUCWSR"
		if h == "" {
			ops = "VXPGFUC" // the first operation is a load
		}
		for _, op := range ops {
			rec(h + string(op))
		}
	}
	rec("")
	return out
}

func TestVerif_C22_HTTP(t *testing.T) {
	r := kit.Start(t, "C22", "http")
	defer r.Finish()
	depth := r.Pick(2, 3)
	r.Rule(fmt.Sprintf("every history of length %d whose first operation is a load, over {POST /db/load with: a valid dump, a dump failing inside its transaction, plain text failing at its second statement, garbage text, a valid SQLite file, random bytes, a truncated SQLite file; write over HTTP; snapshot on every node; restart of every node} x {one node; leader + read-only node with the loads posted to the read-only node (forwarded)%s}, on complete in-process nodes with the real http.Service, each followed by a closing sequence (write, strong read over HTTP, valid dump load, snapshot on every node, write). After every step the logical dump of every node must equal the reference model; failed loads must be reported as failed and change nothing (plain text without a transaction may keep the statements before the failing one, on all nodes alike); acknowledged writes must be visible everywhere; the closing loads and snapshots must succeed. Shorter histories are prefixes of the leaves. distinct = (case, per-step observation)", depth,
		map[bool]string{true: "; leader + read-only node with the loads posted to the leader", false: ""}[r.Thorough()]))
	r.Assume("the second node is a read-only (non-voting) node, so the first stays a one-voter leader whatever the machine load")
	r.Assume("sequential requests from one client")

	scratch := kit.Scratch(t)
	if os.Getenv("VERIF_NO_SHM") == "" {
		if d, err := os.MkdirTemp("/dev/shm", "verif-c22h-"); err == nil {
			t.Cleanup(func() { os.RemoveAll(d) })
			scratch = d
		}
	}
	in := c22hMakeInputs(scratch)

	var cases []c22hCase
	if rp := kit.Replay(); rp != nil {
		var c c22hCase
		if err := json.Unmarshal(rp, &c); err != nil {
			t.Fatalf("replay: %v", err)
		}
		cases = []c22hCase{c}
	} else {
		for _, h := range c22hHistories(depth) {
			cases = append(cases, c22hCase{h, 1, "leader"}, c22hCase{h, 2, "read-only-node"})
			if r.Thorough() {
				cases = append(cases, c22hCase{h, 2, "leader"})
			}
		}
	}
	prefixes := map[string]bool{}
	for _, c := range cases {
		for i := 1; i <= len(c.History); i++ {
			prefixes[fmt.Sprintf("%s/%d/%s", c.History[:i], c.Nodes, c.Target)] = true
		}
	}
	nStates := len(prefixes)

	workers := 24
	if sh := os.Getenv("VERIF_SHARD"); sh != "" {
		var k, n int
		if _, err := fmt.Sscanf(sh, "%d/%d", &k, &n); err != nil || n <= 0 {
			t.Fatalf("VERIF_SHARD=%q", sh)
		}
		var mine []c22hCase
		for i, c := range cases {
			if i%n == k {
				mine = append(mine, c)
			}
		}
		cases = mine
		workers = max(2, 24/n)
		if k != 0 {
			nStates = 0
		}
	}
	var mu sync.Mutex
	var wg sync.WaitGroup
	sem := make(chan struct{}, workers)
	for i, c := range cases {
		if r.OverBudget() {
			r.Cap("time budget used up after %d of %d cases of this shard", i, len(cases))
			break
		}
		wg.Add(1)
		sem <- struct{}{}
		go func(i int, c c22hCase) {
			defer wg.Done()
			defer func() { <-sem }()
			obs, steps := c22hRun(t, r, c, in, filepath.Join(scratch, fmt.Sprintf("case%d", i)))
			mu.Lock()
			defer mu.Unlock()
			r.Eval(1)
			r.Transition(steps)
			for k, o := range obs {
				r.Distinct(fmt.Sprintf("%s/%d/%s#%d=>%s", c.History, c.Nodes, c.Target, k, o))
			}
			if i%53 == 3 {
				r.Sample(map[string]any{"case": c, "steps": obs})
			}
		}(i, c)
	}
	wg.Wait()
	r.State(nStates)
}

// ---- one case ---------------------------------------------------------------

type c22hExec struct {
	t        *testing.T
	r        *kit.Run
	cs       c22hCase
	in       *c22hInputs
	nodes    []*c22hNode
	model    *c22hModel
	lastLoad string // kind of the most recent load, successful or not
	obs      []string
	steps    int
	pos      int
	dead     bool
}

func (c *c22hExec) must(what string, err error) {
	if err != nil {
		panic(fmt.Sprintf("harness: case %+v step %d: %s: %v", c.cs, c.pos+1, what, err))
	}
}

func (c *c22hExec) where() string {
	h := c.cs.History
	var n []string
	for i := 0; i < len(h); i++ {
		s := c22hOpName[h[i]]
		if i == c.pos {
			s = ">>" + s + "<<"
		}
		n = append(n, s)
	}
	cl := "closing(write, read, valid dump, snapshot, write)"
	if c.pos >= len(h) {
		cl = ">>" + cl + "<<"
	}
	n = append(n, cl)
	return fmt.Sprintf("%d node(s), loads posted to the %s, history %s", c.cs.Nodes, c.cs.Target, strings.Join(n, ", "))
}

func (c *c22hExec) leader() *c22hNode { return c.nodes[0] }

func (c *c22hExec) target() *c22hNode {
	if c.cs.Target == "read-only-node" && len(c.nodes) > 1 {
		return c.nodes[1]
	}
	return c.nodes[0]
}

func (c *c22hExec) violation(key, what string) {
	c.r.Violation(key, c.where()+": "+what, c.cs)
}

// check compares every node with the allowed dumps (usually one).
func (c *c22hExec) check(class string, allowed ...*c22hModel) bool {
	if len(allowed) == 0 {
		allowed = []*c22hModel{c.model}
	}
	if len(c.nodes) > 1 {
		// the read-only node follows the leader: wait for raft, then give its FSM goroutine a moment
		ci, _ := c.leader().Store.CommitIndex()
		for deadline := time.Now().Add(c22hConverge); c.nodes[1].Store.AppliedIndex() < ci && time.Now().Before(deadline); {
			time.Sleep(5 * time.Millisecond)
		}
	}
	var chosen *c22hModel
	ok := true
	for i, n := range c.nodes {
		var got string
		var err error
		match := func() *c22hModel {
			got, err = c22hDump(n.Store)
			if err != nil {
				return nil
			}
			for _, m := range allowed {
				if (chosen == nil || m == chosen) && m.dump() == got {
					return m
				}
			}
			return nil
		}
		m := match()
		if m == nil && i > 0 {
			for deadline := time.Now().Add(c22hGrace); m == nil && time.Now().Before(deadline); {
				time.Sleep(20 * time.Millisecond)
				m = match()
			}
		}
		want := allowed[0]
		if chosen != nil {
			want = chosen
		}
		switch {
		case m != nil:
			chosen = m
		case err != nil:
			ok = false
			c.obs = append(c.obs, n.role+":unreadable")
			c.violation(fmt.Sprintf("C22:http:node-unreadable:%s:after-%s:last-load-%s", n.role, class, c.lastLoad), fmt.Sprintf("(%s) the %s cannot be read: %v", class, n.role, err))
		default:
			ok = false
			c.obs = append(c.obs, n.role+":differs")
			c.violation(fmt.Sprintf("C22:http:node-differs:%s:after-%s:last-load-%s", n.role, class, c.lastLoad), fmt.Sprintf("(%s) the %s differs from what it must hold: %s", class, n.role, c22hDiff(want.dump(), got)))
		}
	}
	if ok {
		c.model = chosen
		h := sha256.Sum256([]byte(chosen.dump()))
		c.obs = append(c.obs, fmt.Sprintf("%s:%d-nodes=%s", class, len(c.nodes), hex.EncodeToString(h[:5])))
	} else {
		c.dead = true
	}
	return ok
}

// post sends body to POST /db/load of the target node and says whether the load was reported as failed.
func (c *c22hExec) post(body []byte) (failed bool, detail string) {
	resp, err := http.Post("http://"+c.target().APIAddr+"/db/load", "application/octet-stream", bytes.NewReader(body))
	if err != nil {
		return true, "transport: " + err.Error()
	}
	defer resp.Body.Close()
	b, _ := io.ReadAll(resp.Body)
	if resp.StatusCode != http.StatusOK {
		return true, fmt.Sprintf("%s %s", resp.Status, strings.TrimSpace(string(b)))
	}
	if strings.Contains(string(b), `"error"`) {
		return true, string(b)
	}
	return false, string(b)
}

func (c *c22hExec) load(op byte) {
	kind := c22hOpName[op]
	var body []byte
	var good *c22hModel
	switch op {
	case 'V':
		body, good = []byte(c.in.validDump), c.in.dumpM
	case 'X':
		body = []byte(c.in.badDump)
	case 'P':
		body = []byte(c.in.plainFailing)
	case 'G':
		body = []byte(c.in.garbage)
	case 'F':
		body, good = c.in.file, c.in.fileM
	case 'U':
		body = c.in.random
	case 'C':
		body = c.in.truncated
	}
	prev := c.lastLoad
	failed, detail := c.post(body)
	c.t.Logf("c22h: %s: load %s: failed=%v: %.200s", c.where(), kind, failed, detail)
	c.lastLoad = kind
	if good != nil {
		if failed {
			c.obs = append(c.obs, kind+":refused")
			c.violation(fmt.Sprintf("C22:http:valid-load-refused:%s:previous-load-%s", kind, prev), fmt.Sprintf("the %s load is refused: %.200s", kind, detail))
			c.dead = true
			return
		}
		c.model = good.clone()
		c.check("load-" + kind)
		return
	}
	if !failed {
		c.obs = append(c.obs, kind+":accepted")
		c.violation("C22:http:failed-load-reported-as-done:"+kind, fmt.Sprintf("the %s load is reported as successful: %.200s", kind, detail))
	}
	allowed := []*c22hModel{c.model}
	if op == 'P' {
		// no transaction around the text: the statement before the failing one may stay
		m := c.model.clone()
		m.add("plain1")
		allowed = append(allowed, m)
	}
	c.check("failed-load-"+kind, allowed...)
}

func (c *c22hExec) write(tag string) {
	stmt := fmt.Sprintf("INSERT INTO t(v) VALUES('%s')", tag)
	var body string
	var err error
	for i := 0; i < 200; i++ {
		body, err = c.leader().Execute(stmt)
		if err == nil || !strings.Contains(err.Error(), "503") {
			break
		}
		time.Sleep(50 * time.Millisecond) // refused before anything is written: no leader known at this instant
	}
	if err != nil || strings.Contains(body, `"error"`) {
		c.obs = append(c.obs, "write-fails")
		c.violation("C22:http:write-fails:last-load-"+c.lastLoad, fmt.Sprintf("a plain write fails: %v %.200s", err, body))
		c.dead = true
		return
	}
	c.model = c.model.clone()
	c.model.add(tag)
	c.check("write")
}

func (c *c22hExec) snapshot() {
	for _, n := range c.nodes {
		err := n.Store.Snapshot(1)
		// Refusals that are not failures: nothing new; the checksum verification after a
		// restart still holds the snapshot gate (asked again until it is over); raft wants
		// a command applied after the last membership entry (asked again for a moment, in
		// case its FSM goroutine is merely behind; it stays refused until the next write).
		start := time.Now()
		for err != nil && ((strings.Contains(err.Error(), "CAS conflict") && time.Since(start) < c22hConverge) ||
			(strings.Contains(err.Error(), "wait until the configuration entry") && time.Since(start) < 2*time.Second)) {
			time.Sleep(10 * time.Millisecond)
			err = n.Store.Snapshot(1)
		}
		if err != nil && err != store.ErrNothingNewToSnapshot && err != store.ErrNoWALToSnapshot &&
			!strings.Contains(err.Error(), "wait until the configuration entry") {
			c.obs = append(c.obs, n.role+":snapshot-fails")
			c.violation(fmt.Sprintf("C22:http:snapshot-fails:%s:last-load-%s", n.role, c.lastLoad), fmt.Sprintf("the snapshot on the %s fails: %v", n.role, err))
			c.dead = true
			return
		}
	}
	c.check("snapshot")
}

func (c *c22hExec) restart() {
	for i := len(c.nodes) - 1; i >= 0 && !c.dead; i-- {
		n := c.nodes[i]
		id, dir := n.ID, n.Dir
		c.must("stop "+n.role, n.stop())
		if err := n.start(id, dir); err != nil {
			c.obs = append(c.obs, n.role+":restart-fails")
			c.violation(fmt.Sprintf("C22:http:restart-fails:%s:last-load-%s", n.role, c.lastLoad), fmt.Sprintf("restarting the %s fails: %v", n.role, err))
			c.dead = true
			return
		}
		if n.role == "leader" {
			c.must("leader after restart", c22hWaitLeader(n.Store))
			c.must("barrier after restart", n.Store.Barrier())
		}
		c.check("restart-of-" + n.role)
	}
}

func c22hRun(t *testing.T, r *kit.Run, cs c22hCase, in *c22hInputs, base string) ([]string, int) {
	defer os.RemoveAll(base)
	c := &c22hExec{t: t, r: r, cs: cs, in: in, model: &c22hModel{}, lastLoad: "none", pos: -1}
	defer func() {
		for _, n := range c.nodes {
			if n.Node != nil {
				n.stop()
			}
			n.port.release()
		}
	}()
	a := &c22hNode{role: "leader", port: c22hNewPort()}
	c.nodes = append(c.nodes, a)
	c.must("mkdir", os.MkdirAll(filepath.Join(base, "n1"), 0o755))
	c.must("start leader", a.start("n1", filepath.Join(base, "n1")))
	c.must("bootstrap", a.Store.Bootstrap(store.NewServer(a.Store.ID(), a.Store.Addr(), true)))
	c.must("leader", c22hWaitLeader(a.Store))
	if body, err := a.Execute(c22hSchema); err != nil || strings.Contains(body, `"error"`) {
		panic(fmt.Sprintf("harness: schema: %v %s", err, body))
	}
	if cs.Nodes > 1 {
		b := &c22hNode{role: "read-only-node", port: c22hNewPort()}
		c.nodes = append(c.nodes, b)
		c.must("mkdir", os.MkdirAll(filepath.Join(base, "n2"), 0o755))
		c.must("start read-only node", b.start("n2", filepath.Join(base, "n2")))
		c.must("join", b.JoinAsNonVoter(a.Node))
		if _, err := b.Store.WaitForLeader(c22hConverge); err != nil {
			c.must("read-only node learns the leader", err)
		}
	}
	if !c.check("set-up") {
		panic(fmt.Sprintf("harness: case %+v: nodes differ after the set-up", cs))
	}

	step := func(op byte, tag string) {
		c.steps++
		switch op {
		case 'W':
			c.write(tag)
		case 'S':
			c.snapshot()
		case 'R':
			c.restart()
		default:
			c.load(op)
		}
	}
	h := cs.History
	for i := 0; i < len(h) && !c.dead; i++ {
		c.pos = i
		step(h[i], fmt.Sprintf("w%d", i))
	}
	// closing sequence: does the cluster still work?
	c.pos = len(h)
	if !c.dead {
		step('W', "closing1")
	}
	if !c.dead {
		c.steps++
		want := fmt.Sprintf(`"values":[[%d]]`, len(c.model.ids))
		got, err := c.leader().QueryStrongConsistency("SELECT COUNT(*) FROM t")
		if err != nil || !strings.Contains(got, want) {
			c.obs = append(c.obs, "strong-read-wrong")
			c.violation("C22:http:strong-read-wrong:last-load-"+c.lastLoad, fmt.Sprintf("strong read over HTTP answers %v %.200s, the table holds %d rows", err, got, len(c.model.ids)))
			c.dead = true
		}
	}
	if !c.dead {
		step('V', "")
	}
	if !c.dead {
		step('S', "")
	}
	if !c.dead {
		step('W', "closing2")
	}
	return c.obs, c.steps
}

func (p *c22hPort) release() { p.ln.Close() }

func c22hDiff(want, got string) string {
	w, g := strings.Split(want, "\n"), strings.Split(got, "\n")
	for i := 0; i < len(w) || i < len(g); i++ {
		var a, b string
		if i < len(w) {
			a = w[i]
		}
		if i < len(g) {
			b = g[i]
		}
		if a != b {
			return fmt.Sprintf("expected %d lines, found %d; first difference at line %d: expected %.50q, found %.50q", len(w), len(g), i+1, a, b)
		}
	}
	return "equal"
}
