package system

import (
	"context"
	"encoding/json"
	"fmt"
	"os"
	"strings"
	"sync"
	"testing"
	"time"

	"github.com/rqlite/rqlite/v10/cluster"
	"github.com/rqlite/rqlite/v10/command/proto"
	kit "github.com/rqlite/rqlite/v10/internal/verifkit"
)

// C32, part "joiner": the network client a node really joins with. One real
// leader node, one real joining node and ONE cluster.Joiner object on which
// every sequence of Do() calls over {voter, non-voter} (same node id, same
// address) is made. After every Do() that returned success the configuration on
// the leader (and, once it has caught up, on the joining node) has unique ids
// and addresses and lists the joining node with the role it asked for LAST.
// The store-level histories (part "members") call Store.Join directly; this
// part covers what cluster/join.go puts in front of it.

type c32jHist struct {
	Roles []bool `json:"joiner_roles"` // true: voter
}

func (h c32jHist) String() string {
	var p []string
	for _, v := range h.Roles {
		if v {
			p = append(p, "Do(voter)")
		} else {
			p = append(p, "Do(nonvoter)")
		}
	}
	return "one Joiner: " + strings.Join(p, ";")
}

func c32jRole(v bool) string {
	if v {
		return "voter"
	}
	return "nonvoter"
}

func TestVerif_C32_joiner(t *testing.T) {
	r := kit.Start(t, "C32", "joiner")
	defer r.Finish()
	depth := r.Pick(2, 3)
	r.Rule(fmt.Sprintf("[joiner] every sequence of 1..%d Do() calls over {voter, non-voter} on ONE cluster.Joiner for one real node (same id, same address) joining a real leader node through the cluster service; after every successful Do() the leader's configuration has unique ids and addresses and lists the node with the role asked for last; the joining node's own view is checked once it has caught up. distinct = (sequence, role listed after each call)", depth))
	r.Assume("raft's interleavings are not controlled; a Do() that fails (the client allows the leader one second per attempt) makes the sequence run again on new nodes")

	var hs []c32jHist
	if raw := kit.Replay(); raw != nil {
		var h c32jHist
		if err := json.Unmarshal(raw, &h); err != nil || len(h.Roles) == 0 {
			t.Fatalf("C32 joiner: bad replay: %v", err)
		}
		hs = []c32jHist{h}
	} else {
		var rec func(p []bool)
		rec = func(p []bool) {
			if len(p) > 0 {
				hs = append(hs, c32jHist{append([]bool(nil), p...)})
			}
			if len(p) == depth {
				return
			}
			rec(append(p, true))
			rec(append(p, false))
		}
		rec(nil)
	}
	var wg sync.WaitGroup
	sem := make(chan struct{}, 8)
	for _, h := range hs {
		wg.Add(1)
		sem <- struct{}{}
		go func(h c32jHist) {
			defer wg.Done()
			defer func() { <-sem }()
			for try := 0; try < 4; try++ {
				out, err := c32jRun(r, h)
				if err != nil {
					fmt.Fprintf(os.Stderr, "C32 joiner: %s: %v; repeating\n", h, err)
					continue
				}
				r.Eval(1)
				r.Transition(len(h.Roles))
				r.Distinct(h.String() + "=>" + out)
				r.Sample(map[string]any{"sequence": h.String(), "listed_as": out})
				return
			}
			r.Cap("joiner sequence %s could not be completed in 4 attempts", h)
		}(h)
	}
	wg.Wait()
	r.State(len(hs))
}

func c32jRun(r *kit.Run, h c32jHist) (out string, err error) {
	defer func() {
		if p := recover(); p != nil {
			err = fmt.Errorf("node set-up: %v", p)
		}
	}()
	leader := mustNewLeaderNode("c32j-leader")
	defer leader.Deprovision()
	node := mustNewNode("c32j-node", false)
	defer node.Deprovision()

	joiner := cluster.NewJoiner(node.Client, 10, time.Second)
	var listed []string
	prev := "absent"
	for i, voter := range h.Roles {
		suf := proto.Suffrage_NON_VOTER
		if voter {
			suf = proto.Suffrage_VOTER
		}
		if _, err := joiner.Do(context.Background(), []string{leader.RaftAddr}, node.Store.ID(), node.RaftAddr, suf); err != nil {
			return "", fmt.Errorf("Do(%s) failed: %v", c32jRole(voter), err)
		}
		if !leader.Store.IsLeader() {
			return "", fmt.Errorf("leadership moved")
		}
		// the leader's configuration
		check := func(who string, n *Node) (string, bool, error) {
			nodes, err := n.Store.Nodes()
			if err != nil {
				return "", false, err
			}
			ids, addrs := map[string]int{}, map[string]int{}
			role, found := "absent", false
			for _, s := range nodes {
				ids[s.ID]++
				addrs[s.Addr]++
				if s.ID == node.Store.ID() {
					found = true
					role = c32jRole(s.Suffrage == proto.Suffrage_VOTER)
					if s.Addr != node.RaftAddr {
						role += "@other-address"
					}
				}
			}
			for id, c := range ids {
				if c > 1 {
					r.Violation("C32:duplicate-id:joiner", fmt.Sprintf("%s, call %d: %s lists id %q twice", h, i+1, who, id), h)
				}
			}
			for a, c := range addrs {
				if c > 1 {
					r.Violation("C32:duplicate-address:joiner", fmt.Sprintf("%s, call %d: %s lists address %q twice", h, i+1, who, a), h)
				}
			}
			return role, found, nil
		}
		role, _, err := check("the leader", leader)
		if err != nil {
			return "", err
		}
		if role != c32jRole(voter) {
			r.Violation(fmt.Sprintf("C32:joiner:role-not-as-asked:%s-asking-%s", prev, c32jRole(voter)),
				fmt.Sprintf("%s: call %d, Do(%s), returned success; the leader's configuration lists the node as %s (before the call: %s)", h, i+1, c32jRole(voter), role, prev), h)
		}
		listed = append(listed, role)
		// the joining node's own view, once it has caught up with the leader's
		deadline := time.Now().Add(30 * time.Second)
		for {
			own, _, err := check("the joining node", node)
			if err != nil {
				return "", err
			}
			if own == role {
				break
			}
			if time.Now().After(deadline) {
				return "", fmt.Errorf("the joining node did not learn the leader's configuration within 30 s (it says %s, the leader %s)", own, role)
			}
			time.Sleep(10 * time.Millisecond)
		}
		prev = role
	}
	return strings.Join(listed, ","), nil
}
