#!/usr/bin/env python3
"""kf_add.py <property> <status known|fixed> <key pattern> <what> [commit]  - append an entry to known_findings.json"""
import json, sys
p, st, key, what = sys.argv[1:5]
k = json.load(open('/verif/known_findings.json'))
e = {"property": p, "key": key, "what": what, "status": st}
if len(sys.argv) > 5:
    e["commit"] = sys.argv[5]
k = [x for x in k if not (x["property"] == p and x["key"] == key)] + [e]
json.dump(k, open('/verif/known_findings.json', 'w'), indent=1)
print(len(k), "entries")
