#!/bin/bash
# runall_alt.sh <tier> <parallelism> <ids...>: side runs (VERIF_ALT=<tier>x: evidence not overwritten), logs in .build/runall/
tier=$1; par=$2; shift 2
mkdir -p .build/runall
printf "%s\n" "$@" | xargs -P $par -I{} sh -c "VERIF_ALT=${tier}x VERIF_SEED=1 ./check {} --tier $tier > .build/runall/{}.$tier.out 2> .build/runall/{}.$tier.err; echo {} rc=\$? >> .build/runall/summary.$tier"
