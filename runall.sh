#!/bin/bash
# runall.sh <tier> <parallelism> <ids...>: run checks, logs in .build/runall/
tier=$1; par=$2; shift 2
mkdir -p .build/runall
printf "%s\n" "$@" | xargs -P $par -I{} sh -c "VERIF_SEED=1 ./check {} --tier $tier > .build/runall/{}.$tier.out 2> .build/runall/{}.$tier.err; echo {} rc=\$? >> .build/runall/summary.$tier"
