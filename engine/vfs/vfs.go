// Package verifvfs is the crash-image side of the /verif machinery (E-CRASH,
// DESIGN.md 1.4). The instrumenter (`instrument -crash`) puts a
// verifvfs.Point("file.go:line") in front of every statement of the files
// under test that contains a call (and at the end of every function body that
// can fall off its end), so a Point sits between any two file-system
// mutations the code under test performs. A harness installs a Recorder
// around one operation of a history; at each Point the recorder looks at the
// watched directory and, when its content differs from the last image taken,
// copies the whole tree to a numbered image directory. An image is what a
// killed process leaves behind under the process-crash model: every completed
// write is there, the operation in flight is cut, no defers have run.
//
// With no recorder installed Point is two atomic loads.
//
// Two ways of installing a recorder:
//
//   - Install(r): process-global. Every Point reached by ANY goroutine that has
//     no goroutine-local recorder goes to r. Use it when the recorded operation
//     runs (partly) on goroutines the harness does not own (e.g. a store's
//     background reaper). Only one such recording at a time per process.
//   - InstallLocal(r): bound to the calling goroutine. Only Points reached by
//     that goroutine go to r, so several workers can each record their own
//     operation (and recover images without recording) in parallel in one
//     process. A goroutine-local recorder takes precedence over the global one.
//     InstallLocal(nil) makes the calling goroutine's Points invisible to a
//     global recorder as well (a "mute" scope).
package verifvfs

import (
	"crypto/sha256"
	"encoding/hex"
	"fmt"
	"io"
	"os"
	"path/filepath"
	"runtime"
	"sort"
	"sync"
	"sync/atomic"
	"syscall"
	"time"
)

// Image is one crash image.
type Image struct {
	N     int    // ordinal within the recorder
	Label string // the Point that produced it ("sink.go:212"), or a harness label
	Dir   string // directory holding the copy of the watched tree
	Hash  string // content hash of the tree
	Hits  int    // how many times this label had been reached when the image was taken
}

// Recorder takes crash images of Root.
type Recorder struct {
	Root   string // watched directory
	ImgDir string // images are created as ImgDir/img-<n>
	// Skip, if set, is consulted with the path relative to Root; returning
	// true leaves the file or directory out of hashes and images.
	Skip func(rel string) bool
	// HashNameOnly, if set, names files (path relative to Root) whose CONTENT
	// is left out of the tree hash (their name still counts and they are still
	// copied into images). For volatile caches whose bytes differ from run to
	// run without meaning, e.g. SQLite's "-shm" wal-index, which the first
	// connection after a crash resets.
	HashNameOnly func(rel string) bool
	// NoStatCache disables the per-file digest cache of the tree hash (see
	// fileDigest): every Point then re-reads every file.
	NoStatCache bool
	// Only, if set, restricts image taking to labels it accepts (points are
	// still counted).
	Only func(label string) bool
	// MaxImages caps the number of images (0 = no cap); Capped reports a hit.
	MaxImages int

	mu       sync.Mutex
	images   []Image
	seen     map[string]bool
	last     string
	points   int64
	labels   map[string]int
	capped   bool
	copyErrs []string
	fcache   map[string]fileEntry
}

// fileEntry caches the digest of one file of the watched tree. It is reused at
// a later Point only if the file's (size, mtime, inode) are unchanged AND the
// digest was computed more than statCacheGuard after that mtime. The second
// condition makes the cache sound on file systems with coarse timestamps: a
// write that happens after the digest was taken receives an mtime no older
// than (its real time - one clock tick), which is then later than the cached
// mtime, so the tuple differs. A file modified "recently" is simply re-read at
// every Point until the guard interval has passed.
type fileEntry struct {
	size     int64
	mtime    time.Time
	ino      uint64
	hashedAt time.Time
	sum      [sha256.Size]byte
}

const statCacheGuard = 200 * time.Millisecond

var cur atomic.Pointer[Recorder]

// Install makes r the active recorder (nil uninstalls) and returns the previous one.
func Install(r *Recorder) *Recorder {
	if r != nil {
		r.mu.Lock()
		if r.seen == nil {
			r.seen = map[string]bool{}
			r.labels = map[string]int{}
		}
		r.mu.Unlock()
	}
	return cur.Swap(r)
}

// goroutine-local recorders: goroutine id -> *Recorder (nil value = muted)
var (
	locals sync.Map
	nLocal atomic.Int64
)

// goid returns the id of the calling goroutine (parsed from the stack header
// "goroutine N [running]:"; about a microsecond, only paid while some
// goroutine-local recorder is installed).
func goid() uint64 {
	var buf [64]byte
	n := runtime.Stack(buf[:], false)
	var id uint64
	for _, c := range buf[len("goroutine "):n] {
		if c < '0' || c > '9' {
			break
		}
		id = id*10 + uint64(c-'0')
	}
	return id
}

// InstallLocal binds r to the calling goroutine: Points reached by this
// goroutine go to r (and not to a global recorder) until the returned function
// is called (from the same goroutine). r == nil mutes the goroutine. Nested
// use restores the previous binding.
func InstallLocal(r *Recorder) (uninstall func()) {
	if r != nil {
		r.mu.Lock()
		if r.seen == nil {
			r.seen = map[string]bool{}
			r.labels = map[string]int{}
		}
		r.mu.Unlock()
	}
	id := goid()
	prev, had := locals.Load(id)
	locals.Store(id, r)
	if !had {
		nLocal.Add(1)
	}
	return func() {
		if had {
			locals.Store(id, prev)
			return
		}
		locals.Delete(id)
		nLocal.Add(-1)
	}
}

// Point is called by instrumented code.
func Point(label string) {
	if nLocal.Load() > 0 {
		if v, ok := locals.Load(goid()); ok {
			if r := v.(*Recorder); r != nil {
				r.Snap(label)
			}
			return
		}
	}
	r := cur.Load()
	if r == nil {
		return
	}
	r.Snap(label)
}

// Active reports whether a recorder is installed (globally or for the calling goroutine).
func Active() bool {
	if nLocal.Load() > 0 {
		if v, ok := locals.Load(goid()); ok {
			return v.(*Recorder) != nil
		}
	}
	return cur.Load() != nil
}

// Snap takes an image labelled label if the tree changed since the last image.
// Harnesses call it directly for "after the acknowledgement" style points.
func (r *Recorder) Snap(label string) *Image {
	r.mu.Lock()
	defer r.mu.Unlock()
	if r.seen == nil {
		r.seen = map[string]bool{}
		r.labels = map[string]int{}
	}
	r.points++
	r.labels[label]++
	if r.Only != nil && !r.Only(label) {
		return nil
	}
	h, err := r.hashTree()
	if err != nil {
		// the tree is changing under us (another goroutine): try once more
		h, err = r.hashTree()
		if err != nil {
			r.copyErrs = append(r.copyErrs, label+": "+err.Error())
			return nil
		}
	}
	if h == r.last || r.seen[h] {
		r.last = h
		return nil
	}
	if r.MaxImages > 0 && len(r.images) >= r.MaxImages {
		r.capped = true
		return nil
	}
	n := len(r.images)
	dst := filepath.Join(r.ImgDir, fmt.Sprintf("img-%04d", n))
	if err := r.copyTree(r.Root, dst); err != nil {
		r.copyErrs = append(r.copyErrs, label+": "+err.Error())
		os.RemoveAll(dst)
		return nil
	}
	r.seen[h] = true
	r.last = h
	r.images = append(r.images, Image{N: n, Label: label, Dir: dst, Hash: h, Hits: r.labels[label]})
	return &r.images[n]
}

// Images returns the images taken so far.
func (r *Recorder) Images() []Image {
	r.mu.Lock()
	defer r.mu.Unlock()
	return append([]Image(nil), r.images...)
}

// Points returns the number of Point calls seen and the distinct labels reached.
func (r *Recorder) Points() (int64, []string) {
	r.mu.Lock()
	defer r.mu.Unlock()
	var ls []string
	for l := range r.labels {
		ls = append(ls, l)
	}
	sort.Strings(ls)
	return r.points, ls
}

// LabelCounts returns how often each label was reached.
func (r *Recorder) LabelCounts() map[string]int {
	r.mu.Lock()
	defer r.mu.Unlock()
	out := make(map[string]int, len(r.labels))
	for l, n := range r.labels {
		out[l] = n
	}
	return out
}

// Capped reports whether MaxImages stopped an image from being taken.
func (r *Recorder) Capped() bool { r.mu.Lock(); defer r.mu.Unlock(); return r.capped }

// Errors returns image-taking errors (a harness should treat any as a set-up fault).
func (r *Recorder) Errors() []string {
	r.mu.Lock()
	defer r.mu.Unlock()
	return append([]string(nil), r.copyErrs...)
}

// HashTree returns the content hash of dir (names, modes of directories, file contents).
func HashTree(dir string) (string, error) {
	r := &Recorder{Root: dir}
	return r.hashTree()
}

// HashOf returns the content hash of dir computed with r's Skip and
// HashNameOnly rules (so that it is comparable with Image.Hash of r's images);
// r itself is not touched. For harness-made variants of an image.
func (r *Recorder) HashOf(dir string) (string, error) {
	h := &Recorder{Root: dir, Skip: r.Skip, HashNameOnly: r.HashNameOnly, NoStatCache: true}
	return h.hashTree()
}

var bufPool = sync.Pool{New: func() any { b := make([]byte, 64<<10); return &b }}

func (r *Recorder) hashTree() (string, error) {
	h := sha256.New()
	bp := bufPool.Get().(*[]byte)
	defer bufPool.Put(bp)
	err := filepath.Walk(r.Root, func(p string, fi os.FileInfo, err error) error {
		if err != nil {
			if os.IsNotExist(err) {
				return nil
			}
			return err
		}
		rel, _ := filepath.Rel(r.Root, p)
		if rel != "." && r.Skip != nil && r.Skip(rel) {
			if fi.IsDir() {
				return filepath.SkipDir
			}
			return nil
		}
		switch {
		case fi.IsDir():
			fmt.Fprintf(h, "D %s\n", rel)
		case fi.Mode()&os.ModeSymlink != 0:
			t, _ := os.Readlink(p)
			fmt.Fprintf(h, "L %s -> %s\n", rel, t)
		case fi.Mode().IsRegular():
			if r.HashNameOnly != nil && r.HashNameOnly(rel) {
				fmt.Fprintf(h, "f %s\n", rel)
				return nil
			}
			var ino uint64
			if st, ok := fi.Sys().(*syscall.Stat_t); ok {
				ino = uint64(st.Ino)
			}
			if ce, ok := r.fcache[rel]; ok && !r.NoStatCache && ino != 0 && ce.ino == ino && ce.size == fi.Size() &&
				ce.mtime.Equal(fi.ModTime()) && ce.hashedAt.Sub(ce.mtime) > statCacheGuard {
				fmt.Fprintf(h, "F %s %d\n", rel, fi.Size())
				h.Write(ce.sum[:])
				return nil
			}
			f, err := os.Open(p)
			if err != nil {
				if os.IsNotExist(err) {
					return nil
				}
				return err
			}
			fmt.Fprintf(h, "F %s %d\n", rel, fi.Size())
			// plain read loop into a pooled buffer (io.Copy would allocate 32 KB per file)
			fh := sha256.New()
			for {
				n, rerr := f.Read(*bp)
				fh.Write((*bp)[:n])
				if rerr == io.EOF {
					break
				}
				if rerr != nil {
					err = rerr
					break
				}
			}
			f.Close()
			if err != nil {
				return err
			}
			// keyed by the stat taken BEFORE reading
			ce := fileEntry{size: fi.Size(), mtime: fi.ModTime(), ino: ino, hashedAt: time.Now()}
			fh.Sum(ce.sum[:0])
			h.Write(ce.sum[:])
			if r.fcache == nil {
				r.fcache = map[string]fileEntry{}
			}
			r.fcache[rel] = ce
		}
		return nil
	})
	if err != nil {
		return "", err
	}
	return hex.EncodeToString(h.Sum(nil)), nil
}

// CopyTree copies src to dst (regular files, directories, symlinks).
func CopyTree(src, dst string) error {
	r := &Recorder{}
	return r.copyTree(src, dst)
}

func (r *Recorder) copyTree(src, dst string) error {
	return filepath.Walk(src, func(p string, fi os.FileInfo, err error) error {
		if err != nil {
			if os.IsNotExist(err) {
				return nil
			}
			return err
		}
		rel, _ := filepath.Rel(src, p)
		if rel != "." && r.Skip != nil && r.Skip(rel) {
			if fi.IsDir() {
				return filepath.SkipDir
			}
			return nil
		}
		t := filepath.Join(dst, rel)
		switch {
		case fi.IsDir():
			return os.MkdirAll(t, 0o755)
		case fi.Mode()&os.ModeSymlink != 0:
			l, err := os.Readlink(p)
			if err != nil {
				return nil
			}
			return os.Symlink(l, t)
		case fi.Mode().IsRegular():
			in, err := os.Open(p)
			if err != nil {
				if os.IsNotExist(err) {
					return nil
				}
				return err
			}
			defer in.Close()
			out, err := os.OpenFile(t, os.O_CREATE|os.O_WRONLY|os.O_TRUNC, 0o644)
			if err != nil {
				return err
			}
			_, err = io.Copy(out, in)
			if cerr := out.Close(); err == nil {
				err = cerr
			}
			if err == nil {
				// the restart fast path fingerprints the database file by mtime
				os.Chtimes(t, fi.ModTime(), fi.ModTime())
			}
			return err
		}
		return nil
	})
}
