// Package verifvfs is the crash-image side of the /verif machinery (E-CRASH,
// DESIGN.md 1.4). The instrumenter (`instrument -crash`) puts a
// verifvfs.Point("file.go:line") in front of every statement of the files
// under test that contains a call (and at the end of every function body that
// can fall off its end), so a Point sits between any two file-system
// mutations the code under test performs. A harness installs a Recorder
// around one operation of a history; at each Point the recorder looks at the
// watched directory and, when its content differs from the last image taken,
// copies the whole tree to a numbered image directory. An image is what a
// killed process leaves behind under the process-crash model: every completed
// write is there, the operation in flight is cut, no defers have run.
//
// With no recorder installed Point is two atomic loads.
//
// Two ways of installing a recorder:
//
//   - Install(r): process-global. Every Point reached by ANY goroutine that has
//     no goroutine-local recorder goes to r. Use it when the recorded operation
//     runs (partly) on goroutines the harness does not own (e.g. a store's
//     background reaper). Only one such recording at a time per process.
//   - InstallLocal(r): bound to the calling goroutine. Only Points reached by
//     that goroutine go to r, so several workers can each record their own
//     operation (and recover images without recording) in parallel in one
//     process. A goroutine-local recorder takes precedence over the global one.
//     InstallLocal(nil) makes the calling goroutine's Points invisible to a
//     global recorder as well (a "mute" scope).
package verifvfs

import (
	"crypto/sha256"
	"encoding/hex"
	"fmt"
	"io"
	"os"
	"path/filepath"
	"runtime"
	"sort"
	"sync"
	"sync/atomic"
	"syscall"
	"time"
)

// Image is one crash image.
type Image struct {
	N     int    // ordinal within the recorder
	Label string // the Point that produced it ("sink.go:212"), or a harness label
	Dir   string // directory holding the copy of the watched tree
	Hash  string // content hash of the tree
	Hits  int    // how many times this label had been reached when the image was taken
	// PrevHash is the hash of the state the tree was in immediately before it
	// reached this one ("" for the first image). The predecessor is an image of
	// the same recorder (every state is imaged the first time it is seen).
	PrevHash string
	// Torn describes a derived image (TornVariants): which call was cut and how; "" for recorded images.
	Torn string
}

// Recorder takes crash images of Root.
type Recorder struct {
	Root   string // watched directory
	ImgDir string // images are created as ImgDir/img-<n>
	// Skip, if set, is consulted with the path relative to Root; returning
	// true leaves the file or directory out of hashes and images.
	Skip func(rel string) bool
	// HashNameOnly, if set, names files (path relative to Root) whose CONTENT
	// is left out of the tree hash (their name still counts and they are still
	// copied into images). For volatile caches whose bytes differ from run to
	// run without meaning, e.g. SQLite's "-shm" wal-index, which the first
	// connection after a crash resets.
	HashNameOnly func(rel string) bool
	// NoStatCache disables the per-file digest cache of the tree hash (see
	// fileDigest): every Point then re-reads every file.
	NoStatCache bool
	// Only, if set, restricts image taking to labels it accepts (points are
	// still counted).
	Only func(label string) bool
	// MaxImages caps the number of images (0 = no cap); Capped reports a hit.
	MaxImages int

	mu       sync.Mutex
	images   []Image
	seen     map[string]bool
	last     string
	points   int64
	labels   map[string]int
	capped   bool
	copyErrs []string
	fcache   map[string]fileEntry
	nTorn    int
}

// fileEntry caches the digest of one file of the watched tree. It is reused at
// a later Point only if the file's (size, mtime, inode) are unchanged AND the
// digest was computed more than statCacheGuard after that mtime. The second
// condition makes the cache sound on file systems with coarse timestamps: a
// write that happens after the digest was taken receives an mtime no older
// than (its real time - one clock tick), which is then later than the cached
// mtime, so the tuple differs. A file modified "recently" is simply re-read at
// every Point until the guard interval has passed.
type fileEntry struct {
	size     int64
	mtime    time.Time
	ino      uint64
	hashedAt time.Time
	sum      [sha256.Size]byte
}

const statCacheGuard = 200 * time.Millisecond

var cur atomic.Pointer[Recorder]

// Install makes r the active recorder (nil uninstalls) and returns the previous one.
func Install(r *Recorder) *Recorder {
	if r != nil {
		r.mu.Lock()
		if r.seen == nil {
			r.seen = map[string]bool{}
			r.labels = map[string]int{}
		}
		r.mu.Unlock()
	}
	return cur.Swap(r)
}

// goroutine-local recorders: goroutine id -> *Recorder (nil value = muted)
var (
	locals sync.Map
	nLocal atomic.Int64
)

// goid returns the id of the calling goroutine (parsed from the stack header
// "goroutine N [running]:"; about a microsecond, only paid while some
// goroutine-local recorder is installed).
func goid() uint64 {
	var buf [64]byte
	n := runtime.Stack(buf[:], false)
	var id uint64
	for _, c := range buf[len("goroutine "):n] {
		if c < '0' || c > '9' {
			break
		}
		id = id*10 + uint64(c-'0')
	}
	return id
}

// InstallLocal binds r to the calling goroutine: Points reached by this
// goroutine go to r (and not to a global recorder) until the returned function
// is called (from the same goroutine). r == nil mutes the goroutine. Nested
// use restores the previous binding.
func InstallLocal(r *Recorder) (uninstall func()) {
	if r != nil {
		r.mu.Lock()
		if r.seen == nil {
			r.seen = map[string]bool{}
			r.labels = map[string]int{}
		}
		r.mu.Unlock()
	}
	id := goid()
	prev, had := locals.Load(id)
	locals.Store(id, r)
	if !had {
		nLocal.Add(1)
	}
	return func() {
		if had {
			locals.Store(id, prev)
			return
		}
		locals.Delete(id)
		nLocal.Add(-1)
	}
}

// Point is called by instrumented code.
func Point(label string) {
	if nLocal.Load() > 0 {
		if v, ok := locals.Load(goid()); ok {
			if r := v.(*Recorder); r != nil {
				r.Snap(label)
			}
			return
		}
	}
	r := cur.Load()
	if r == nil {
		return
	}
	r.Snap(label)
}

// Active reports whether a recorder is installed (globally or for the calling goroutine).
func Active() bool {
	if nLocal.Load() > 0 {
		if v, ok := locals.Load(goid()); ok {
			return v.(*Recorder) != nil
		}
	}
	return cur.Load() != nil
}

// Snap takes an image labelled label if the tree changed since the last image.
// Harnesses call it directly for "after the acknowledgement" style points.
func (r *Recorder) Snap(label string) *Image {
	r.mu.Lock()
	defer r.mu.Unlock()
	if r.seen == nil {
		r.seen = map[string]bool{}
		r.labels = map[string]int{}
	}
	r.points++
	r.labels[label]++
	if r.Only != nil && !r.Only(label) {
		return nil
	}
	h, err := r.hashTree()
	if err != nil {
		// the tree is changing under us (another goroutine): try once more
		h, err = r.hashTree()
		if err != nil {
			r.copyErrs = append(r.copyErrs, label+": "+err.Error())
			return nil
		}
	}
	if h == r.last || r.seen[h] {
		r.last = h
		return nil
	}
	if r.MaxImages > 0 && len(r.images) >= r.MaxImages {
		r.capped = true
		return nil
	}
	n := len(r.images)
	dst := filepath.Join(r.ImgDir, fmt.Sprintf("img-%04d", n))
	if err := r.copyTree(r.Root, dst); err != nil {
		r.copyErrs = append(r.copyErrs, label+": "+err.Error())
		os.RemoveAll(dst)
		return nil
	}
	r.seen[h] = true
	r.images = append(r.images, Image{N: n, Label: label, Dir: dst, Hash: h, Hits: r.labels[label], PrevHash: r.last})
	r.last = h
	return &r.images[n]
}

// Images returns the images taken so far.
func (r *Recorder) Images() []Image {
	r.mu.Lock()
	defer r.mu.Unlock()
	return append([]Image(nil), r.images...)
}

// Points returns the number of Point calls seen and the distinct labels reached.
func (r *Recorder) Points() (int64, []string) {
	r.mu.Lock()
	defer r.mu.Unlock()
	var ls []string
	for l := range r.labels {
		ls = append(ls, l)
	}
	sort.Strings(ls)
	return r.points, ls
}

// LabelCounts returns how often each label was reached.
func (r *Recorder) LabelCounts() map[string]int {
	r.mu.Lock()
	defer r.mu.Unlock()
	out := make(map[string]int, len(r.labels))
	for l, n := range r.labels {
		out[l] = n
	}
	return out
}

// Capped reports whether MaxImages stopped an image from being taken.
func (r *Recorder) Capped() bool { r.mu.Lock(); defer r.mu.Unlock(); return r.capped }

// Errors returns image-taking errors (a harness should treat any as a set-up fault).
func (r *Recorder) Errors() []string {
	r.mu.Lock()
	defer r.mu.Unlock()
	return append([]string(nil), r.copyErrs...)
}

// HashTree returns the content hash of dir (names, modes of directories, file contents).
func HashTree(dir string) (string, error) {
	r := &Recorder{Root: dir}
	return r.hashTree()
}

// HashOf returns the content hash of dir computed with r's Skip and
// HashNameOnly rules (so that it is comparable with Image.Hash of r's images);
// r itself is not touched. For harness-made variants of an image.
func (r *Recorder) HashOf(dir string) (string, error) {
	h := &Recorder{Root: dir, Skip: r.Skip, HashNameOnly: r.HashNameOnly, NoStatCache: true}
	return h.hashTree()
}

var bufPool = sync.Pool{New: func() any { b := make([]byte, 64<<10); return &b }}

func (r *Recorder) hashTree() (string, error) {
	h := sha256.New()
	bp := bufPool.Get().(*[]byte)
	defer bufPool.Put(bp)
	err := filepath.Walk(r.Root, func(p string, fi os.FileInfo, err error) error {
		if err != nil {
			if os.IsNotExist(err) {
				return nil
			}
			return err
		}
		rel, _ := filepath.Rel(r.Root, p)
		if rel != "." && r.Skip != nil && r.Skip(rel) {
			if fi.IsDir() {
				return filepath.SkipDir
			}
			return nil
		}
		switch {
		case fi.IsDir():
			fmt.Fprintf(h, "D %s\n", rel)
		case fi.Mode()&os.ModeSymlink != 0:
			t, _ := os.Readlink(p)
			fmt.Fprintf(h, "L %s -> %s\n", rel, t)
		case fi.Mode().IsRegular():
			if r.HashNameOnly != nil && r.HashNameOnly(rel) {
				fmt.Fprintf(h, "f %s\n", rel)
				return nil
			}
			var ino uint64
			if st, ok := fi.Sys().(*syscall.Stat_t); ok {
				ino = uint64(st.Ino)
			}
			if ce, ok := r.fcache[rel]; ok && !r.NoStatCache && ino != 0 && ce.ino == ino && ce.size == fi.Size() &&
				ce.mtime.Equal(fi.ModTime()) && ce.hashedAt.Sub(ce.mtime) > statCacheGuard {
				fmt.Fprintf(h, "F %s %d\n", rel, fi.Size())
				h.Write(ce.sum[:])
				return nil
			}
			f, err := os.Open(p)
			if err != nil {
				if os.IsNotExist(err) {
					return nil
				}
				return err
			}
			fmt.Fprintf(h, "F %s %d\n", rel, fi.Size())
			// plain read loop into a pooled buffer (io.Copy would allocate 32 KB per file)
			fh := sha256.New()
			for {
				n, rerr := f.Read(*bp)
				fh.Write((*bp)[:n])
				if rerr == io.EOF {
					break
				}
				if rerr != nil {
					err = rerr
					break
				}
			}
			f.Close()
			if err != nil {
				return err
			}
			// keyed by the stat taken BEFORE reading
			ce := fileEntry{size: fi.Size(), mtime: fi.ModTime(), ino: ino, hashedAt: time.Now()}
			fh.Sum(ce.sum[:0])
			h.Write(ce.sum[:])
			if r.fcache == nil {
				r.fcache = map[string]fileEntry{}
			}
			r.fcache[rel] = ce
		}
		return nil
	})
	if err != nil {
		return "", err
	}
	return hex.EncodeToString(h.Sum(nil)), nil
}

// CopyTree copies src to dst (regular files, directories, symlinks).
func CopyTree(src, dst string) error {
	r := &Recorder{}
	return r.copyTree(src, dst)
}

func (r *Recorder) copyTree(src, dst string) error {
	return filepath.Walk(src, func(p string, fi os.FileInfo, err error) error {
		if err != nil {
			if os.IsNotExist(err) {
				return nil
			}
			return err
		}
		rel, _ := filepath.Rel(src, p)
		if rel != "." && r.Skip != nil && r.Skip(rel) {
			if fi.IsDir() {
				return filepath.SkipDir
			}
			return nil
		}
		t := filepath.Join(dst, rel)
		switch {
		case fi.IsDir():
			return os.MkdirAll(t, 0o755)
		case fi.Mode()&os.ModeSymlink != 0:
			l, err := os.Readlink(p)
			if err != nil {
				return nil
			}
			return os.Symlink(l, t)
		case fi.Mode().IsRegular():
			in, err := os.Open(p)
			if err != nil {
				if os.IsNotExist(err) {
					return nil
				}
				return err
			}
			defer in.Close()
			out, err := os.OpenFile(t, os.O_CREATE|os.O_WRONLY|os.O_TRUNC, 0o644)
			if err != nil {
				return err
			}
			_, err = io.Copy(out, in)
			if cerr := out.Close(); err == nil {
				err = cerr
			}
			if err == nil {
				// the restart fast path fingerprints the database file by mtime
				os.Chtimes(t, fi.ModTime(), fi.ModTime())
			}
			return err
		}
		return nil
	})
}

// ---------------------------------------------------------------------------
// torn variants: the process-crash model applied INSIDE one call

// TornOptions selects the kinds of derived images.
type TornOptions struct {
	// Overlay additionally derives, for a file rewritten with different content,
	// the states a NON-truncating writer leaves (a prefix of the new content
	// laid over the old bytes). The truncating-writer states (prefixes of the
	// new content) are always derived.
	Overlay bool
	// Removals additionally derives partial states of a step that only removed
	// several entries (os.RemoveAll of a directory): the first half of the
	// removed files (name order) gone, and all removed files gone with the
	// directories still present.
	Removals bool
}

type tornEntry struct {
	dir  bool
	data []byte
}

func (r *Recorder) readTree(root string) (map[string]tornEntry, error) {
	out := map[string]tornEntry{}
	err := filepath.Walk(root, func(p string, fi os.FileInfo, err error) error {
		if err != nil {
			return err
		}
		rel, _ := filepath.Rel(root, p)
		if rel == "." {
			return nil
		}
		if r.Skip != nil && r.Skip(rel) {
			if fi.IsDir() {
				return filepath.SkipDir
			}
			return nil
		}
		switch {
		case fi.IsDir():
			out[rel] = tornEntry{dir: true}
		case fi.Mode().IsRegular():
			if r.HashNameOnly != nil && r.HashNameOnly(rel) {
				out[rel] = tornEntry{} // presence only
				return nil
			}
			b, err := os.ReadFile(p)
			if err != nil {
				return err
			}
			out[rel] = tornEntry{data: b}
		}
		return nil
	})
	return out, err
}

// TornVariants derives, for the step that led from next's predecessor state
// (next.PrevHash) to next, the directory states a process killed INSIDE that
// step can leave behind, as additional images (Label = next.Label, Torn set,
// Dir under ImgDir/torn-*; they are not added to Images()). A write(2) of a
// buffer can be cut anywhere, so when the step changed exactly ONE regular
// file (created it, extended it, or rewrote it) and nothing else, the
// variants are the predecessor state with that file holding
//
//   - created / rewritten: the first 0, len/2 and len-1 bytes of its new content
//     (what a create-or-truncate writer leaves); with Overlay also the first
//     len/2 and len-1 bytes of the new content laid over the old bytes;
//   - extended: the old content plus the first half / all but the last byte of
//     the appended bytes.
//
// A step that only moved a file or a directory (same content under a new
// name; rename is atomic) has no variants. A step that changed several things
// at once happened inside code that carries no crash points (SQLite's own
// checkpoint, a library); it cannot be attributed to one call and yields no
// variants: kind reports it as "multi:<changed entries>" so a harness can list
// what was not decomposed. With Removals, a step that only removed several
// entries yields the partial removals described in TornOptions.
//
// kind is "write:<rel>", "rename", "removal", "multi:...", "none" (nothing
// attributable changed) or "first" (no predecessor).
func (r *Recorder) TornVariants(next Image, opt TornOptions) (variants []Image, kind string, err error) {
	if next.PrevHash == "" {
		return nil, "first", nil
	}
	var prev *Image
	r.mu.Lock()
	for i := range r.images {
		if r.images[i].Hash == next.PrevHash {
			prev = &r.images[i]
			break
		}
	}
	nvar := r.nTorn
	r.mu.Unlock()
	if prev == nil {
		return nil, "none", nil
	}
	a, err := r.readTree(prev.Dir)
	if err != nil {
		return nil, "", err
	}
	b, err := r.readTree(next.Dir)
	if err != nil {
		return nil, "", err
	}
	var added, removed, modified, addedDirs, removedDirs []string
	for rel, eb := range b {
		ea, ok := a[rel]
		switch {
		case !ok && eb.dir:
			addedDirs = append(addedDirs, rel)
		case !ok:
			added = append(added, rel)
		case ea.dir != eb.dir:
			modified = append(modified, rel)
		case !eb.dir && string(ea.data) != string(eb.data):
			modified = append(modified, rel)
		}
	}
	for rel, ea := range a {
		if _, ok := b[rel]; !ok {
			if ea.dir {
				removedDirs = append(removedDirs, rel)
			} else {
				removed = append(removed, rel)
			}
		}
	}
	sort.Strings(added)
	sort.Strings(removed)
	sort.Strings(modified)
	// pair off renames: an added file whose content equals a removed file's
	usedRemoved := map[string]bool{}
	var realAdded []string
	renames := 0
	for _, ad := range added {
		matched := false
		for _, rm := range removed {
			if !usedRemoved[rm] && string(a[rm].data) == string(b[ad].data) && (filepath.Base(rm) == filepath.Base(ad) || len(added) == 1) {
				usedRemoved[rm] = true
				matched = true
				renames++
				break
			}
		}
		if !matched {
			realAdded = append(realAdded, ad)
		}
	}
	var realRemoved []string
	for _, rm := range removed {
		if !usedRemoved[rm] {
			realRemoved = append(realRemoved, rm)
		}
	}
	mk := func(desc string, apply func(dir string) error) error {
		nvar++
		dst := filepath.Join(r.ImgDir, fmt.Sprintf("torn-%04d", nvar))
		os.RemoveAll(dst)
		if err := r.copyTree(prev.Dir, dst); err != nil {
			return err
		}
		if err := apply(dst); err != nil {
			return err
		}
		h, err := r.HashOf(dst)
		if err != nil {
			return err
		}
		variants = append(variants, Image{N: -nvar, Label: next.Label, Dir: dst, Hash: h, Hits: next.Hits, PrevHash: prev.Hash, Torn: desc})
		return nil
	}
	defer func() {
		r.mu.Lock()
		r.nTorn = nvar
		r.mu.Unlock()
	}()
	cuts := func(n int) []int {
		set := map[int]bool{}
		var out []int
		for _, c := range []int{0, n / 2, n - 1} {
			if c >= 0 && c < n && !set[c] {
				set[c] = true
				out = append(out, c)
			}
		}
		return out
	}
	switch {
	case len(realAdded)+len(modified) == 1 && len(realRemoved) == 0 && len(removedDirs) == 0 && renames == 0 && len(addedDirs) == 0:
		rel := ""
		var old, nw []byte
		existed := false
		if len(realAdded) == 1 {
			rel, nw = realAdded[0], b[realAdded[0]].data
		} else {
			rel, old, nw, existed = modified[0], a[modified[0]].data, b[modified[0]].data, true
			if a[rel].dir || b[rel].dir {
				return nil, "multi:" + rel, nil
			}
		}
		kind = "write:" + rel
		write := func(content []byte) func(string) error {
			return func(dir string) error { return os.WriteFile(filepath.Join(dir, rel), content, 0o644) }
		}
		if existed && len(nw) > len(old) && string(nw[:len(old)]) == string(old) {
			// extended
			d := len(nw) - len(old)
			for _, c := range cuts(d) {
				if c == 0 {
					continue // the predecessor itself
				}
				if err := mk(fmt.Sprintf("%s extended by %d of %d bytes", rel, c, d), write(nw[:len(old)+c])); err != nil {
					return variants, kind, err
				}
			}
			return variants, kind, nil
		}
		what := "created"
		if existed {
			what = "rewritten (truncate+write)"
		}
		for _, c := range cuts(len(nw)) {
			if err := mk(fmt.Sprintf("%s %s, %d of %d bytes written", rel, what, c, len(nw)), write(nw[:c])); err != nil {
				return variants, kind, err
			}
		}
		if existed && opt.Overlay {
			for _, c := range cuts(len(nw)) {
				if c == 0 {
					continue
				}
				ov := append([]byte{}, nw[:c]...)
				if len(old) > c {
					ov = append(ov, old[c:]...)
				}
				if err := mk(fmt.Sprintf("%s rewritten in place, %d of %d new bytes over the old %d", rel, c, len(nw), len(old)), write(ov)); err != nil {
					return variants, kind, err
				}
			}
		}
		return variants, kind, nil

	case len(realAdded) == 0 && len(modified) == 0 && len(addedDirs) <= 1 && renames > 0 && len(realRemoved) == 0:
		return nil, "rename", nil

	case len(realAdded) == 0 && len(modified) == 0 && len(addedDirs) == 0 && renames == 0 && len(realRemoved)+len(removedDirs) > 0:
		kind = "removal"
		if !opt.Removals || len(realRemoved) < 1 || len(realRemoved)+len(removedDirs) < 2 {
			return nil, kind, nil
		}
		half := realRemoved[:(len(realRemoved)+1)/2]
		if len(half) < len(realRemoved) {
			if err := mk(fmt.Sprintf("removal cut after %d of %d files", len(half), len(realRemoved)), func(dir string) error {
				for _, f := range half {
					if err := os.Remove(filepath.Join(dir, f)); err != nil {
						return err
					}
				}
				return nil
			}); err != nil {
				return variants, kind, err
			}
		}
		if len(removedDirs) > 0 {
			if err := mk(fmt.Sprintf("removal cut after all %d files, %d directories still present", len(realRemoved), len(removedDirs)), func(dir string) error {
				for _, f := range realRemoved {
					if err := os.Remove(filepath.Join(dir, f)); err != nil {
						return err
					}
				}
				return nil
			}); err != nil {
				return variants, kind, err
			}
		}
		return variants, kind, nil

	case len(realAdded)+len(modified)+len(realRemoved)+len(removedDirs)+len(addedDirs)+renames == 0:
		return nil, "none", nil
	}
	var all []string
	for _, x := range realAdded {
		all = append(all, "+"+x)
	}
	for _, x := range modified {
		all = append(all, "~"+x)
	}
	for _, x := range realRemoved {
		all = append(all, "-"+x)
	}
	if renames > 0 {
		all = append(all, fmt.Sprintf("%d renamed", renames))
	}
	sort.Strings(all)
	return nil, "multi:" + fmt.Sprint(all), nil
}
