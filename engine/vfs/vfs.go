// Package verifvfs is the crash-image side of the /verif machinery (E-CRASH,
// DESIGN.md 1.4). The instrumenter (`instrument -crash`) puts a
// verifvfs.Point("file.go:line") in front of every statement of the files
// under test that contains a call (and at the end of every function body that
// can fall off its end), so a Point sits between any two file-system
// mutations the code under test performs. A harness installs a Recorder
// around one operation of a history; at each Point the recorder looks at the
// watched directory and, when its content differs from the last image taken,
// copies the whole tree to a numbered image directory. An image is what a
// killed process leaves behind under the process-crash model: every completed
// write is there, the operation in flight is cut, no defers have run.
//
// With no recorder installed Point is one atomic load.
package verifvfs

import (
	"crypto/sha256"
	"encoding/hex"
	"fmt"
	"io"
	"os"
	"path/filepath"
	"sort"
	"sync"
	"sync/atomic"
)

// Image is one crash image.
type Image struct {
	N     int    // ordinal within the recorder
	Label string // the Point that produced it ("sink.go:212"), or a harness label
	Dir   string // directory holding the copy of the watched tree
	Hash  string // content hash of the tree
	Hits  int    // how many times this label had been reached when the image was taken
}

// Recorder takes crash images of Root.
type Recorder struct {
	Root   string // watched directory
	ImgDir string // images are created as ImgDir/img-<n>
	// Skip, if set, is consulted with the path relative to Root; returning
	// true leaves the file or directory out of hashes and images.
	Skip func(rel string) bool
	// Only, if set, restricts image taking to labels it accepts (points are
	// still counted).
	Only func(label string) bool
	// MaxImages caps the number of images (0 = no cap); Capped reports a hit.
	MaxImages int

	mu       sync.Mutex
	images   []Image
	seen     map[string]bool
	last     string
	points   int64
	labels   map[string]int
	capped   bool
	copyErrs []string
}

var cur atomic.Pointer[Recorder]

// Install makes r the active recorder (nil uninstalls) and returns the previous one.
func Install(r *Recorder) *Recorder {
	if r != nil {
		r.mu.Lock()
		if r.seen == nil {
			r.seen = map[string]bool{}
			r.labels = map[string]int{}
		}
		r.mu.Unlock()
	}
	return cur.Swap(r)
}

// Point is called by instrumented code.
func Point(label string) {
	r := cur.Load()
	if r == nil {
		return
	}
	r.Snap(label)
}

// Active reports whether a recorder is installed.
func Active() bool { return cur.Load() != nil }

// Snap takes an image labelled label if the tree changed since the last image.
// Harnesses call it directly for "after the acknowledgement" style points.
func (r *Recorder) Snap(label string) *Image {
	r.mu.Lock()
	defer r.mu.Unlock()
	if r.seen == nil {
		r.seen = map[string]bool{}
		r.labels = map[string]int{}
	}
	r.points++
	r.labels[label]++
	if r.Only != nil && !r.Only(label) {
		return nil
	}
	h, err := r.hashTree()
	if err != nil {
		// the tree is changing under us (another goroutine): try once more
		h, err = r.hashTree()
		if err != nil {
			r.copyErrs = append(r.copyErrs, label+": "+err.Error())
			return nil
		}
	}
	if h == r.last || r.seen[h] {
		r.last = h
		return nil
	}
	if r.MaxImages > 0 && len(r.images) >= r.MaxImages {
		r.capped = true
		return nil
	}
	n := len(r.images)
	dst := filepath.Join(r.ImgDir, fmt.Sprintf("img-%04d", n))
	if err := r.copyTree(r.Root, dst); err != nil {
		r.copyErrs = append(r.copyErrs, label+": "+err.Error())
		os.RemoveAll(dst)
		return nil
	}
	r.seen[h] = true
	r.last = h
	r.images = append(r.images, Image{N: n, Label: label, Dir: dst, Hash: h, Hits: r.labels[label]})
	return &r.images[n]
}

// Images returns the images taken so far.
func (r *Recorder) Images() []Image {
	r.mu.Lock()
	defer r.mu.Unlock()
	return append([]Image(nil), r.images...)
}

// Points returns the number of Point calls seen and the distinct labels reached.
func (r *Recorder) Points() (int64, []string) {
	r.mu.Lock()
	defer r.mu.Unlock()
	var ls []string
	for l := range r.labels {
		ls = append(ls, l)
	}
	sort.Strings(ls)
	return r.points, ls
}

// Capped reports whether MaxImages stopped an image from being taken.
func (r *Recorder) Capped() bool { r.mu.Lock(); defer r.mu.Unlock(); return r.capped }

// Errors returns image-taking errors (a harness should treat any as a set-up fault).
func (r *Recorder) Errors() []string {
	r.mu.Lock()
	defer r.mu.Unlock()
	return append([]string(nil), r.copyErrs...)
}

// HashTree returns the content hash of dir (names, modes of directories, file contents).
func HashTree(dir string) (string, error) {
	r := &Recorder{Root: dir}
	return r.hashTree()
}

func (r *Recorder) hashTree() (string, error) {
	h := sha256.New()
	err := filepath.Walk(r.Root, func(p string, fi os.FileInfo, err error) error {
		if err != nil {
			if os.IsNotExist(err) {
				return nil
			}
			return err
		}
		rel, _ := filepath.Rel(r.Root, p)
		if rel != "." && r.Skip != nil && r.Skip(rel) {
			if fi.IsDir() {
				return filepath.SkipDir
			}
			return nil
		}
		switch {
		case fi.IsDir():
			fmt.Fprintf(h, "D %s\n", rel)
		case fi.Mode()&os.ModeSymlink != 0:
			t, _ := os.Readlink(p)
			fmt.Fprintf(h, "L %s -> %s\n", rel, t)
		case fi.Mode().IsRegular():
			f, err := os.Open(p)
			if err != nil {
				if os.IsNotExist(err) {
					return nil
				}
				return err
			}
			fmt.Fprintf(h, "F %s %d\n", rel, fi.Size())
			_, err = io.Copy(h, f)
			f.Close()
			if err != nil {
				return err
			}
		}
		return nil
	})
	if err != nil {
		return "", err
	}
	return hex.EncodeToString(h.Sum(nil)), nil
}

// CopyTree copies src to dst (regular files, directories, symlinks).
func CopyTree(src, dst string) error {
	r := &Recorder{}
	return r.copyTree(src, dst)
}

func (r *Recorder) copyTree(src, dst string) error {
	return filepath.Walk(src, func(p string, fi os.FileInfo, err error) error {
		if err != nil {
			if os.IsNotExist(err) {
				return nil
			}
			return err
		}
		rel, _ := filepath.Rel(src, p)
		if rel != "." && r.Skip != nil && r.Skip(rel) {
			if fi.IsDir() {
				return filepath.SkipDir
			}
			return nil
		}
		t := filepath.Join(dst, rel)
		switch {
		case fi.IsDir():
			return os.MkdirAll(t, 0o755)
		case fi.Mode()&os.ModeSymlink != 0:
			l, err := os.Readlink(p)
			if err != nil {
				return nil
			}
			return os.Symlink(l, t)
		case fi.Mode().IsRegular():
			in, err := os.Open(p)
			if err != nil {
				if os.IsNotExist(err) {
					return nil
				}
				return err
			}
			defer in.Close()
			out, err := os.OpenFile(t, os.O_CREATE|os.O_WRONLY|os.O_TRUNC, 0o644)
			if err != nil {
				return err
			}
			_, err = io.Copy(out, in)
			if cerr := out.Close(); err == nil {
				err = cerr
			}
			if err == nil {
				// the restart fast path fingerprints the database file by mtime
				os.Chtimes(t, fi.ModTime(), fi.ModTime())
			}
			return err
		}
		return nil
	})
}
