// Package verifvsync provides drop-in replacements for the sync primitives
// that cooperate with the E-SCHED scheduler: a contended Lock, a Cond.Wait or a
// WaitGroup.Wait is a *disabled thread* the scheduler knows about, never an
// OS-level block. When the calling goroutine is not a scheduled thread every
// primitive behaves exactly like its sync counterpart.
//
// The instrumenter rewrites `import "sync"` to this package in the files under
// test, so the names and method sets mirror package sync.
package verifvsync

import (
	"sync"

	vs "github.com/rqlite/rqlite/v10/internal/verifvsched"
)

// Pass-through types that need no scheduling.
type (
	Map    = sync.Map
	Pool   = sync.Pool
	Locker = sync.Locker
)

// OnceFunc mirrors sync.OnceFunc.
func OnceFunc(f func()) func() { return sync.OnceFunc(f) }

// OnceValue mirrors sync.OnceValue.
func OnceValue[T any](f func() T) func() T { return sync.OnceValue(f) }

// Mutex mirrors sync.Mutex.
type Mutex struct {
	real sync.Mutex
	held bool // scheduled mode only; guarded by the scheduler's state lock
}

// Lock locks m.
func (m *Mutex) Lock() {
	if vs.Block("Mutex.Lock", func() bool { return !m.held }, m) {
		vs.Locked(func() { m.held = true }, m)
		return
	}
	m.real.Lock()
}

// TryLock tries to lock m.
func (m *Mutex) TryLock() bool {
	if vs.Active() {
		vs.Point("Mutex.TryLock", m)
		ok := false
		vs.Locked(func() {
			if !m.held {
				m.held = true
				ok = true
			}
		})
		return ok
	}
	return m.real.TryLock()
}

// Unlock unlocks m.
func (m *Mutex) Unlock() {
	if vs.Locked(func() { m.held = false }, m) {
		return
	}
	m.real.Unlock()
}

// RWMutex mirrors sync.RWMutex (no writer preference is modelled: any enabled acquirer may go next).
type RWMutex struct {
	real    sync.RWMutex
	writer  bool
	readers int
}

func (m *RWMutex) Lock() {
	if vs.Block("RWMutex.Lock", func() bool { return !m.writer && m.readers == 0 }, m) {
		vs.Locked(func() { m.writer = true })
		return
	}
	m.real.Lock()
}

func (m *RWMutex) Unlock() {
	if vs.Locked(func() { m.writer = false }, m) {
		return
	}
	m.real.Unlock()
}

func (m *RWMutex) RLock() {
	if vs.Block("RWMutex.RLock", func() bool { return !m.writer }, m) {
		vs.Locked(func() { m.readers++ })
		return
	}
	m.real.RLock()
}

func (m *RWMutex) RUnlock() {
	if vs.Locked(func() { m.readers-- }, m) {
		return
	}
	m.real.RUnlock()
}

func (m *RWMutex) TryLock() bool {
	if vs.Active() {
		vs.Point("RWMutex.TryLock", m)
		ok := false
		vs.Locked(func() {
			if !m.writer && m.readers == 0 {
				m.writer, ok = true, true
			}
		})
		return ok
	}
	return m.real.TryLock()
}

func (m *RWMutex) TryRLock() bool {
	if vs.Active() {
		vs.Point("RWMutex.TryRLock", m)
		ok := false
		vs.Locked(func() {
			if !m.writer {
				m.readers++
				ok = true
			}
		})
		return ok
	}
	return m.real.TryRLock()
}

// RLocker mirrors (*sync.RWMutex).RLocker.
func (m *RWMutex) RLocker() sync.Locker { return (*rlocker)(m) }

type rlocker RWMutex

func (r *rlocker) Lock()   { (*RWMutex)(r).RLock() }
func (r *rlocker) Unlock() { (*RWMutex)(r).RUnlock() }

// Cond mirrors sync.Cond. Under the scheduler waiters are woken in FIFO order
// by Signal (as the runtime's notify list does) and all at once by Broadcast.
type Cond struct {
	L       sync.Locker
	real    *sync.Cond
	waiters []*waiter
}

type waiter struct{ woken bool }

// NewCond mirrors sync.NewCond.
func NewCond(l sync.Locker) *Cond { return &Cond{L: l, real: sync.NewCond(l)} }

func (c *Cond) Wait() {
	if vs.Active() {
		w := &waiter{}
		vs.Locked(func() { c.waiters = append(c.waiters, w) }, c)
		c.L.Unlock()
		vs.Block("Cond.Wait", func() bool { return w.woken }, c)
		c.L.Lock()
		return
	}
	c.real.Wait()
}

func (c *Cond) Signal() {
	if vs.Locked(func() {
		if len(c.waiters) > 0 {
			c.waiters[0].woken = true
			c.waiters = c.waiters[1:]
		}
	}, c) {
		return
	}
	c.real.Signal()
}

func (c *Cond) Broadcast() {
	if vs.Locked(func() {
		for _, w := range c.waiters {
			w.woken = true
		}
		c.waiters = nil
	}, c) {
		return
	}
	c.real.Broadcast()
}

// WaitGroup mirrors sync.WaitGroup.
type WaitGroup struct {
	real sync.WaitGroup
	n    int
}

func (wg *WaitGroup) Add(d int) {
	if vs.Locked(func() {
		wg.n += d
		if wg.n < 0 {
			panic("sync: negative WaitGroup counter")
		}
	}, wg) {
		return
	}
	wg.real.Add(d)
}

func (wg *WaitGroup) Done() { wg.Add(-1) }

func (wg *WaitGroup) Wait() {
	if vs.Block("WaitGroup.Wait", func() bool { return wg.n == 0 }, wg) {
		return
	}
	wg.real.Wait()
}

// Go mirrors (*sync.WaitGroup).Go.
func (wg *WaitGroup) Go(f func()) {
	if vs.Active() {
		wg.Add(1)
		vs.Go("WaitGroup.Go", func() {
			defer wg.Done()
			f()
		})
		return
	}
	wg.real.Go(f)
}

// Once mirrors sync.Once.
type Once struct {
	real sync.Once
	m    Mutex
	done bool
}

func (o *Once) Do(f func()) {
	if vs.Active() {
		o.m.Lock()
		defer o.m.Unlock()
		if !o.done {
			defer func() { o.done = true }()
			f()
		}
		return
	}
	o.real.Do(f)
}
