// Package verifkit is the result-recording side of the /verif machinery. It is
// injected into the rqlite module through a build overlay (never committed to
// /repo) and used by the harness test files. A harness records what it
// explored and any violations; the ./check driver turns that into evidence
// JSON, VIOLATION / KNOWN-FINDING lines and replay files.
package verifkit

import (
	"crypto/sha256"
	"encoding/hex"
	"encoding/json"
	"fmt"
	"os"
	"path/filepath"
	"runtime/debug"
	"sort"
	"strconv"
	"strings"
	"sync"
	"testing"
	"time"
)

// Violation is one property violation found by a harness.
type Violation struct {
	// Key classifies the violation (input class / call site / history shape). It
	// is what known_findings.json entries are matched against.
	Key string `json:"key"`
	// What is a one-line human description.
	What string `json:"what"`
	// Replay is whatever is needed to reproduce: the input, op list or schedule.
	Replay any `json:"replay"`
}

// Run accumulates coverage for one part of one check.
type Run struct {
	ID   string `json:"property_id"`
	Part string `json:"part"`
	Tier string `json:"tier"`
	Seed int64  `json:"seed"`

	mu          sync.Mutex
	start       time.Time
	evaluations int64
	states      int64
	transitions int64
	validated   int64
	distinct    map[string]struct{}
	samples     []any
	maxSamples  int
	violations  []Violation
	vioKeys     map[string]int
	exhaustive  bool
	caps        []string
	rule        string
	assumptions []string
	notes       []string
	extra       map[string]any
	t           testing.TB
	out         string
	deadline    time.Time
}

// Start begins a part. Environment: VERIF_TIER (quick|thorough), VERIF_SEED,
// VERIF_OUT (directory for the raw result), VERIF_BUDGET_S (soft time budget).
func Start(t testing.TB, id, part string) *Run {
	tier := os.Getenv("VERIF_TIER")
	if tier == "" {
		tier = "quick"
	}
	seed, _ := strconv.ParseInt(os.Getenv("VERIF_SEED"), 10, 64)
	r := &Run{ID: id, Part: part, Tier: tier, Seed: seed, start: time.Now(),
		distinct: map[string]struct{}{}, vioKeys: map[string]int{}, maxSamples: 5,
		exhaustive: true, extra: map[string]any{}, t: t, out: os.Getenv("VERIF_OUT")}
	if b, err := strconv.Atoi(os.Getenv("VERIF_BUDGET_S")); err == nil && b > 0 {
		r.deadline = r.start.Add(time.Duration(b) * time.Second)
	}
	return r
}

// Thorough reports whether the thorough tier was requested.
func (r *Run) Thorough() bool { return r.Tier == "thorough" }

// Pick returns q for the quick tier and th for the thorough tier.
func (r *Run) Pick(q, th int) int {
	if r.Thorough() {
		return th
	}
	return q
}

// OverBudget reports whether the soft time budget is used up. A harness that
// stops because of it must call Cap so the run is not reported as exhaustive.
func (r *Run) OverBudget() bool {
	return !r.deadline.IsZero() && time.Now().After(r.deadline)
}

// SliceDeadline splits the soft time budget evenly over n consecutive pieces of
// work and returns the instant by which piece i (0-based) has to stop; the zero
// time when no budget is set. A harness that stops because of it must call Cap.
func (r *Run) SliceDeadline(i, n int) time.Time {
	if r.deadline.IsZero() || n <= 0 {
		return time.Time{}
	}
	total := r.deadline.Sub(r.start)
	return r.start.Add(total * time.Duration(i+1) / time.Duration(n))
}

// Eval counts n evaluated cases / executions.
func (r *Run) Eval(n int) { r.mu.Lock(); r.evaluations += int64(n); r.mu.Unlock() }

// State counts n distinct states visited (explicit-state searches).
func (r *Run) State(n int) { r.mu.Lock(); r.states += int64(n); r.mu.Unlock() }

// Transition counts n transitions / steps executed on the real code.
func (r *Run) Transition(n int) { r.mu.Lock(); r.transitions += int64(n); r.mu.Unlock() }

// Validated counts n traces / cases replayed against the implementation and
// compared with a reference (model trace validation, determinism replays).
func (r *Run) Validated(n int) { r.mu.Lock(); r.validated += int64(n); r.mu.Unlock() }

// Distinct records a non-trivial observation/outcome key; the number of
// different keys is reported as distinct_nontrivial.
func (r *Run) Distinct(key string) {
	h := sha256.Sum256([]byte(key))
	k := hex.EncodeToString(h[:8])
	r.mu.Lock()
	r.distinct[k] = struct{}{}
	r.mu.Unlock()
}

// Sample keeps up to maxSamples literal cases for the evidence file.
func (r *Run) Sample(v any) {
	r.mu.Lock()
	if len(r.samples) < r.maxSamples {
		r.samples = append(r.samples, v)
	}
	r.mu.Unlock()
}

// SampleEvery keeps case v if i is one of a few spread-out indexes.
func (r *Run) SampleEvery(i int, v any) {
	if i == 0 || i == 7 || i == 101 || i == 1009 || i == 10007 {
		r.Sample(v)
	}
}

// Rule sets the description of how cases are enumerated and what is counted as distinct.
func (r *Run) Rule(s string) { r.mu.Lock(); r.rule = s; r.mu.Unlock() }

// Assume records an assumption / trusted-base statement.
func (r *Run) Assume(s string) { r.mu.Lock(); r.assumptions = append(r.assumptions, s); r.mu.Unlock() }

// Note records a free-text remark for the evidence explanation.
func (r *Run) Note(f string, a ...any) {
	r.mu.Lock()
	r.notes = append(r.notes, fmt.Sprintf(f, a...))
	r.mu.Unlock()
}

// Cap records that a bound, cap or deadline stopped enumeration early.
func (r *Run) Cap(f string, a ...any) {
	r.mu.Lock()
	r.exhaustive = false
	r.caps = append(r.caps, fmt.Sprintf(f, a...))
	r.mu.Unlock()
}

// Set stores an extra coverage key.
func (r *Run) Set(k string, v any) { r.mu.Lock(); r.extra[k] = v; r.mu.Unlock() }

// Add increments an extra integer coverage key.
func (r *Run) Add(k string, n int64) {
	r.mu.Lock()
	c, _ := r.extra[k].(int64)
	r.extra[k] = c + n
	r.mu.Unlock()
}

// Violation records a violation. At most 3 replays are kept per key, but all are counted.
func (r *Run) Violation(key, what string, replay any) {
	r.mu.Lock()
	defer r.mu.Unlock()
	r.vioKeys[key]++
	if r.vioKeys[key] <= 3 {
		r.violations = append(r.violations, Violation{Key: key, What: what, Replay: replay})
	}
}

// NViolations returns the number of violations recorded so far.
func (r *Run) NViolations() int {
	r.mu.Lock()
	defer r.mu.Unlock()
	n := 0
	for _, c := range r.vioKeys {
		n += c
	}
	return n
}

// Guard runs f and converts a panic into a violation with the given key.
func (r *Run) Guard(key string, replay any, f func()) {
	defer func() {
		if p := recover(); p != nil {
			r.Violation(key, fmt.Sprintf("panic: %v\n%s", p, firstLines(string(debug.Stack()), 30)), replay)
		}
	}()
	f()
}

func firstLines(s string, n int) string {
	c := 0
	for i, ch := range s {
		if ch == '\n' {
			c++
			if c == n {
				return s[:i]
			}
		}
	}
	return s
}

type rawResult struct {
	ID          string         `json:"property_id"`
	Part        string         `json:"part"`
	Tier        string         `json:"tier"`
	Seed        int64          `json:"seed"`
	Evaluations int64          `json:"evaluations"`
	States      int64          `json:"states"`
	Transitions int64          `json:"transitions"`
	Validated   int64          `json:"traces_validated_against_impl"`
	Distinct    []string       `json:"distinct_keys"`
	Samples     []any          `json:"samples"`
	Violations  []Violation    `json:"violations"`
	VioCounts   map[string]int `json:"violation_counts"`
	Exhaustive  bool           `json:"exhaustive"`
	Caps        []string       `json:"caps"`
	Rule        string         `json:"rule"`
	Assumptions []string       `json:"assumptions"`
	Notes       []string       `json:"notes"`
	Extra       map[string]any `json:"extra"`
	WallS       float64        `json:"wall_s"`
	Complete    bool           `json:"complete"`
}

// Finish writes the raw result for the driver. It never fails the test because
// of violations: the driver decides the verdict (known findings are matched there).
func (r *Run) Finish() {
	r.mu.Lock()
	defer r.mu.Unlock()
	keys := make([]string, 0, len(r.distinct))
	for k := range r.distinct {
		keys = append(keys, k)
	}
	sort.Strings(keys)
	res := rawResult{ID: r.ID, Part: r.Part, Tier: r.Tier, Seed: r.Seed, Evaluations: r.evaluations,
		States: r.states, Transitions: r.transitions, Validated: r.validated, Distinct: keys,
		Samples: r.samples, Violations: r.violations, VioCounts: r.vioKeys, Exhaustive: r.exhaustive,
		Caps: r.caps, Rule: r.rule, Assumptions: r.assumptions, Notes: r.notes, Extra: r.extra,
		WallS: time.Since(r.start).Seconds(), Complete: true}
	b, err := json.MarshalIndent(res, "", " ")
	if err != nil {
		// A sample or replay that does not marshal is a harness bug; degrade to strings.
		for i := range res.Samples {
			res.Samples[i] = fmt.Sprintf("%+v", res.Samples[i])
		}
		for i := range res.Violations {
			res.Violations[i].Replay = fmt.Sprintf("%+v", res.Violations[i].Replay)
		}
		b, err = json.MarshalIndent(res, "", " ")
		if err != nil {
			r.t.Fatalf("verifkit: cannot marshal result: %v", err)
		}
	}
	if r.out == "" {
		r.t.Logf("verifkit result (VERIF_OUT unset):\n%s", b)
		return
	}
	name := r.ID + "." + r.Part
	if sh := os.Getenv("VERIF_SHARD"); sh != "" {
		name += ".shard" + strings.ReplaceAll(sh, "/", "of")
	}
	p := filepath.Join(r.out, name+".json")
	if err := os.WriteFile(p, b, 0o644); err != nil {
		r.t.Fatalf("verifkit: %v", err)
	}
	r.t.Logf("verifkit: %s part %s: evaluations=%d states=%d transitions=%d distinct=%d violations=%d exhaustive=%v wall=%.1fs",
		r.ID, r.Part, r.evaluations, r.states, r.transitions, len(keys), len(r.violations), r.exhaustive, res.WallS)
}

// Replay returns the replay object given to the driver with --replay, or nil.
// A harness that supports replay runs only that case when this is non-nil.
func Replay() json.RawMessage {
	p := os.Getenv("VERIF_REPLAY")
	if p == "" {
		return nil
	}
	b, err := os.ReadFile(p)
	if err != nil {
		panic(err)
	}
	var f struct {
		Replay json.RawMessage `json:"replay"`
	}
	if err := json.Unmarshal(b, &f); err != nil {
		panic(err)
	}
	return f.Replay
}

// Scratch returns a fresh directory under VERIF_SCRATCH (or the test temp dir).
func Scratch(t testing.TB) string {
	base := os.Getenv("VERIF_SCRATCH")
	if base == "" {
		return t.TempDir()
	}
	d, err := os.MkdirTemp(base, "s")
	if err != nil {
		t.Fatal(err)
	}
	t.Cleanup(func() { os.RemoveAll(d) })
	return d
}
