// Package verifvsched is a controlled cooperative scheduler for real goroutines
// (engine E-SCHED). Every execution runs inside a testing/synctest bubble, so
// time is fake and synctest.Wait tells the scheduler when every goroutine is
// durably blocked. Instrumented code (see engine/instrument) and the vsync
// primitives call Point/Block before every synchronisation operation; the
// scheduler then decides which parked thread continues. Explore enumerates all
// schedules below a deviation bound (preemptions, select-order deviations and
// early timer firings) with a depth-first search over choice prefixes.
package verifvsched

import (
	"bytes"
	"fmt"
	"hash/fnv"
	"reflect"
	"runtime"
	"runtime/debug"
	"strconv"
	"sync"
	"testing/synctest"
	"time"
)

// ---- goroutine identity ----

func goid() int64 {
	var buf [64]byte
	n := runtime.Stack(buf[:], false)
	// "goroutine 123 [running]:..."
	b := buf[10:n]
	i := bytes.IndexByte(b, ' ')
	id, _ := strconv.ParseInt(string(b[:i]), 10, 64)
	return id
}

var threads sync.Map // goid -> *Thread

func self() *Thread {
	if v, ok := threads.Load(goid()); ok {
		return v.(*Thread)
	}
	return nil
}

// Active reports whether the calling goroutine runs under a scheduler.
func Active() bool { return self() != nil }

// ---- threads ----

// Thread is one scheduled goroutine.
type Thread struct {
	ID     int
	Name   string
	s      *Sched
	park   chan struct{}
	at     string      // label of the point the thread is parked at ("" = running or blocked in code)
	pred   func() bool // enabled predicate while parked (nil = enabled)
	done   bool
	daemon bool
	steps  int

	// happens-before tracking (state-key pruning)
	key        string // schedule-independent name: parent key + "." + child index
	nkids      int    // children spawned so far
	vc         []int  // vector clock, indexed by thread ID
	evLabel    string // label of the event in progress ("" = none)
	evIdx      int    // index of the event in progress
	touched    []uintptr
	pendingEnd bool      // event finished, clock not yet settled (see flushEvents)
	nextObj    []uintptr // objects named at the point the thread is parked at
}

// Sched schedules the threads of one execution.
type Sched struct {
	mu      sync.Mutex
	threads []*Thread
	abort   bool
	wake    chan struct{}

	prefix []Choice
	pos    int
	trace  []ChoicePoint
	cur    *Thread
	opts   Options

	steps        int
	timeAdvances int
	redundant    bool // last prefix choice turned out equivalent to the parent's
	diverged     string
	events       []string // optional event log (for replay files)
	logEvents    bool

	objVC     map[uintptr][]int // last-access clock per object
	barrier   []int             // clock every later event is ordered after (time advances)
	epoch     int
	rootKids  int
	stateHash uint64   // order-independent hash of all finished events with their clocks
	keys      []uint64 // state key before each recorded thread choice point (parallel to trace)

	panics     []string // panics of scheduled threads (recovered so that they are attributed to a schedule)
	panicsRead bool     // the body asked for them (Panics); otherwise the explorer reports them itself
}

// Choice is one element of a schedule prefix.
type Choice struct {
	C     int `json:"c"`
	Avoid int `json:"a,omitempty"` // select points: the case index the parent took, +1 (0 = none)
}

// Kind of a choice point.
const (
	KThread = 0
	KSelect = 1
)

// ChoicePoint records one point where more than one continuation existed.
type ChoicePoint struct {
	Kind       int
	N          int  // number of alternatives
	Chosen     int  // index taken
	CurEnabled bool // thread points: the running thread was still enabled (so alt != 0 is a preemption)
	TimeAlt    int  // thread points: index of the "let time pass" alternative, or -1
	Taken      int  // select points: the case that actually proceeded (-1 = blocked, then whichever fired)
}

// Status of a finished execution.
type Status int

const (
	Done      Status = iota // all non-daemon threads finished
	Stuck                   // no thread enabled, time cannot help: deadlock (if non-daemon threads remain)
	Horizon                 // step or time-advance horizon reached
	Redundant               // pruned: the deviating select choice was equivalent to the parent's
)

func (s Status) String() string {
	return [...]string{"done", "stuck", "horizon", "redundant"}[s]
}

// Options bound one exploration.
type Options struct {
	Deviations     int           // max total deviations (preemptions + select + time) per execution (-1 = unbounded)
	Preemptions    int           // max preemptive thread switches per execution (-1 = unbounded)
	SelectDevs     int           // max non-default select orders per execution (-1 = unbounded)
	TimeDevs       int           // max "let time pass although a thread is enabled" choices per execution
	MaxSteps       int           // scheduling steps horizon per execution (default 5000)
	MaxTimeAdv     int           // idle time advances horizon (default 200)
	TimeStep       time.Duration // how far an idle scheduler lets fake time run before declaring Stuck (default 1h)
	Workers        int           // parallel explorers (default 16)
	MaxExecs       int64         // cap on executions (0 = none); hitting it makes the exploration non-exhaustive
	NoStatePruning bool          // disable happens-before state-key pruning (plain bounded DFS)
	Deadline       time.Time     // stop expanding after this wall-clock instant (zero = none); like MaxExecs, hitting it makes the exploration non-exhaustive
	ReplayEvery    int           // replay 1 in N executions (same outcome, same choice points, same state keys) to prove determinism (default 16; 0 = default, -1 = never)
}

func (o *Options) defaults() {
	if o.MaxSteps == 0 {
		o.MaxSteps = 5000
	}
	if o.MaxTimeAdv == 0 {
		o.MaxTimeAdv = 200
	}
	if o.TimeStep == 0 {
		o.TimeStep = time.Hour
	}
	if o.Workers == 0 {
		o.Workers = 16
	}
	if o.ReplayEvery == 0 {
		o.ReplayEvery = 16
	}
}

type abortSentinel struct{}

// Go starts fn as a scheduled, non-daemon thread (harness threads).
func (s *Sched) Go(name string, fn func()) *Thread { return s.spawn(name, false, fn) }

// GoDaemon starts fn as a daemon thread: the execution may end while it is still alive.
func (s *Sched) GoDaemon(name string, fn func()) *Thread { return s.spawn(name, true, fn) }

func (s *Sched) spawn(name string, daemon bool, fn func()) *Thread {
	parent := self()
	s.mu.Lock()
	t := &Thread{ID: len(s.threads), Name: name, s: s, park: make(chan struct{}), daemon: daemon}
	if parent != nil && parent.s == s {
		t.key = fmt.Sprintf("%s.%d", parent.key, parent.nkids)
		parent.nkids++
		t.vc = append([]int(nil), parent.vc...) // spawn edge
	} else {
		t.key = fmt.Sprintf("r%d", s.rootKids)
		s.rootKids++
	}
	s.threads = append(s.threads, t)
	// The thread counts as parked at "start" from the moment it exists, so the
	// scheduler never sees a half-started thread as "blocked in code".
	t.at = "start"
	s.mu.Unlock()
	go func() {
		id := goid()
		threads.Store(id, t)
		defer threads.Delete(id)
		defer func() {
			// A panic of a scheduled thread (harness thread, instrumented `go`
			// statement or timer callback) would kill the whole process and lose
			// the schedule: record it instead and let the thread end. Deferred
			// calls of the panicking code (unlocks) have already run.
			if p := recover(); p != nil {
				msg := fmt.Sprintf("T%d:%s: %v\n%s", t.ID, t.Name, p, trimStack(debug.Stack()))
				s.mu.Lock()
				s.panics = append(s.panics, msg)
				s.mu.Unlock()
			}
			s.mu.Lock()
			s.endEvent(t)
			t.done = true
			t.at = ""
			s.mu.Unlock()
			s.poke()
		}()
		<-t.park
		s.mu.Lock()
		ab := s.abort
		t.at = ""
		s.beginEvent(t, "start")
		s.mu.Unlock()
		if ab {
			return
		}
		fn()
	}()
	return t
}

func (s *Sched) poke() {
	select {
	case s.wake <- struct{}{}:
	default:
	}
}

// block parks the calling thread at a scheduling point until the scheduler
// resumes it; pred (evaluated by the scheduler at quiescence, under s.mu) says
// whether the thread is enabled.
func (t *Thread) block(label string, pred func() bool, objs ...any) {
	s := t.s
	s.mu.Lock()
	if s.abort {
		s.mu.Unlock()
		runtime.Goexit()
	}
	s.endEvent(t)
	t.at = label
	t.pred = pred
	t.steps++
	t.nextObj = t.nextObj[:0]
	for _, o := range objs {
		t.nextObj = append(t.nextObj, objID(o))
	}
	s.mu.Unlock()
	s.poke()
	<-t.park
	s.mu.Lock()
	ab := s.abort
	t.at = ""
	t.pred = nil
	s.beginEvent(t, label)
	s.mu.Unlock()
	if ab {
		runtime.Goexit()
	}
}

// ---- happens-before bookkeeping (all under s.mu) ----

func objID(o any) uintptr {
	switch x := o.(type) {
	case nil:
		return 0
	case string:
		h := fnv.New64a()
		h.Write([]byte(x))
		return uintptr(h.Sum64() | 1)
	case uintptr:
		return x
	}
	v := reflect.ValueOf(o)
	switch v.Kind() {
	case reflect.Chan, reflect.Pointer, reflect.Map, reflect.Func, reflect.Slice, reflect.UnsafePointer:
		return v.Pointer()
	}
	h := fnv.New64a()
	fmt.Fprintf(h, "%T:%v", o, o)
	return uintptr(h.Sum64() | 1)
}

func joinVC(a, b []int) []int {
	for len(a) < len(b) {
		a = append(a, 0)
	}
	for i, x := range b {
		if x > a[i] {
			a[i] = x
		}
	}
	return a
}

func (s *Sched) beginEvent(t *Thread, label string) {
	t.evIdx++
	t.evLabel = label
	t.vc = joinVC(t.vc, s.barrier)
	for len(t.vc) <= t.ID {
		t.vc = append(t.vc, 0)
	}
	t.vc[t.ID] = t.evIdx
	t.touched = append(t.touched[:0], t.nextObj...)
	for _, o := range t.touched {
		if o != 0 {
			t.vc = joinVC(t.vc, s.objVC[o])
		}
	}
}

// touch adds an object to the event in progress (release-type operations in the
// middle of a segment: Unlock, Signal, Done ...).
func (s *Sched) touch(t *Thread, o uintptr) {
	if o == 0 || t.evLabel == "" {
		return
	}
	// The clock join and publication happen in flushEvents at the next quiescent
	// point: a goroutine woken out of a real blocking channel operation runs
	// concurrently with its waker until both park, and doing the bookkeeping in
	// arrival order would make the state keys depend on that race.
	t.touched = append(t.touched, o)
}

// endEvent marks the thread's event in progress as finished; its clock is
// settled by flushEvents once every goroutine is parked again.
func (s *Sched) endEvent(t *Thread) {
	if t.evLabel == "" {
		return
	}
	t.pendingEnd = true
}

// flushEvents settles the events that finished since the last quiescent point,
// in a schedule-determined order: the thread the scheduler resumed first (what
// the others did after waking was caused by it), then ascending thread ids.
// Called at quiescence under s.mu.
func (s *Sched) flushEvents() {
	if s.cur != nil && s.cur.pendingEnd {
		s.settle(s.cur)
	}
	for _, t := range s.threads {
		if t.pendingEnd {
			s.settle(t)
		}
	}
}

func (s *Sched) settle(t *Thread) {
	t.pendingEnd = false
	for _, o := range t.touched {
		if o != 0 {
			t.vc = joinVC(t.vc, s.objVC[o])
		}
	}
	for _, o := range t.touched {
		if o != 0 {
			s.objVC[o] = append(s.objVC[o][:0], t.vc...)
		}
	}
	s.stateHash += s.eventHash(t, false)
	t.evLabel = ""
}

func (s *Sched) eventHash(t *Thread, open bool) uint64 {
	h := fnv.New64a()
	fmt.Fprintf(h, "%s#%d@%s/%d/%v;", t.key, t.evIdx, t.evLabel, s.epochOf(t), open)
	if !open {
		for id, c := range t.vc {
			if c != 0 && id < len(s.threads) {
				fmt.Fprintf(h, "%s=%d,", s.threads[id].key, c)
			}
		}
	}
	return h.Sum64()
}

func (s *Sched) epochOf(t *Thread) int { return 0 }

// stateKey identifies the state at a quiescent scheduling decision: the
// Mazurkiewicz-equivalence class of what has executed (finished events with
// their vector clocks), the events in progress (threads blocked inside code),
// where every parked thread stands, and the running thread (it determines what
// counts as a preemption).
func (s *Sched) stateKey() uint64 {
	k := s.stateHash
	for _, t := range s.threads {
		if t.done {
			continue
		}
		if t.at == "" {
			k += s.eventHash(t, true)
		} else {
			h := fnv.New64a()
			fmt.Fprintf(h, "%s parked %s %d", t.key, t.at, t.evIdx)
			k += h.Sum64()
		}
	}
	h := fnv.New64a()
	cur := ""
	if s.cur != nil {
		cur = s.cur.key
	}
	fmt.Fprintf(h, "cur=%s epoch=%d", cur, s.epoch)
	return k + h.Sum64()
}

// Touch records that the calling thread's current step also operates on objs.
func Touch(objs ...any) {
	t := self()
	if t == nil {
		return
	}
	t.s.mu.Lock()
	for _, o := range objs {
		t.s.touch(t, objID(o))
	}
	t.s.mu.Unlock()
}

// Point is a scheduling point: instrumented code calls it before every
// synchronisation operation. Outside a scheduled thread it does nothing.
func Point(label string, objs ...any) {
	if t := self(); t != nil {
		t.block(label, nil, objs...)
	}
}

// Block parks the calling thread until pred holds (evaluated at quiescence).
// It returns false when the caller is not a scheduled thread, in which case the
// caller must fall back to real blocking.
func Block(label string, pred func() bool, objs ...any) bool {
	t := self()
	if t == nil {
		return false
	}
	t.block(label, pred, objs...)
	return true
}

// Locked runs f under the scheduler's state lock (vsync state mutations) and
// records objs as touched by the calling thread's current step.
// It returns false if the caller is not a scheduled thread.
func Locked(f func(), objs ...any) bool {
	t := self()
	if t == nil {
		return false
	}
	t.s.mu.Lock()
	f()
	for _, o := range objs {
		t.s.touch(t, objID(o))
	}
	t.s.mu.Unlock()
	return true
}

// Go is what an instrumented `go f()` statement becomes: inside a scheduled
// thread the new goroutine is a scheduled daemon thread; otherwise a plain goroutine.
func Go(label string, fn func()) {
	t := self()
	if t == nil {
		go fn()
		return
	}
	t.s.spawn(label, true, fn)
}

// AfterFunc is what an instrumented time.AfterFunc becomes: the callback runs
// as a scheduled daemon thread when the (fake) timer fires.
func AfterFunc(d time.Duration, label string, fn func()) *time.Timer {
	t := self()
	if t == nil {
		return time.AfterFunc(d, fn)
	}
	s := t.s
	return time.AfterFunc(d, func() {
		s.mu.Lock()
		ab := s.abort
		s.mu.Unlock()
		if ab {
			return
		}
		// Runs in a fresh goroutine of the bubble: make it a scheduled thread that
		// is parked at its start point, then run the callback when resumed.
		th := s.spawn("timer:"+label, true, fn)
		_ = th
		// The new thread is parked at its start point: tell a scheduler that is
		// letting time pass (advanceTime) that something became runnable, else
		// time would run on to the next timer or the TimeStep horizon.
		s.poke()
	})
}

// Log appends an event to the execution's event log (kept for replay files).
func Log(f string, a ...any) {
	if t := self(); t != nil && t.s.logEvents {
		t.s.mu.Lock()
		t.s.events = append(t.s.events, fmt.Sprintf("T%d:%s ", t.ID, t.Name)+fmt.Sprintf(f, a...))
		t.s.mu.Unlock()
	}
}

// ---- select ----

// Case is one case of an instrumented select statement.
type Case struct {
	Dir  reflect.SelectDir
	Chan reflect.Value
	Send reflect.Value
}

// RecvCase builds a receive case.
func RecvCase(ch any) Case { return Case{Dir: reflect.SelectRecv, Chan: reflect.ValueOf(ch)} }

// SendCase builds a send case.
func SendCase(ch any, v any) Case {
	c := reflect.ValueOf(ch)
	var sv reflect.Value
	if v == nil {
		sv = reflect.Zero(c.Type().Elem())
	} else {
		sv = reflect.ValueOf(v)
		if sv.Type() != c.Type().Elem() {
			sv = sv.Convert(c.Type().Elem())
		}
	}
	return Case{Dir: reflect.SelectSend, Chan: c, Send: sv}
}

// RecvVal converts the value received by Select to the channel's element type.
func RecvVal[T any](_ <-chan T, r reflect.Value) (v T) {
	if !r.IsValid() {
		return v
	}
	if x, ok := r.Interface().(T); ok {
		return x
	}
	return v
}

// Select performs an instrumented select. Under the scheduler the order in
// which ready cases are tried is a choice point (rotation start); a case that
// is not ready is never taken, and a select with no ready case blocks for real
// (durably, inside the bubble) unless it has a default.
func Select(label string, hasDefault bool, cases ...Case) (int, reflect.Value, bool) {
	t := self()
	if t == nil || len(cases) == 0 {
		return nativeSelect(hasDefault, cases)
	}
	objs := make([]any, 0, len(cases))
	for _, c := range cases {
		if c.Chan.IsValid() && !c.Chan.IsNil() {
			objs = append(objs, c.Chan.Pointer())
		}
	}
	t.block(label, nil, objs...)
	s := t.s
	n := len(cases)
	start := 0
	var cpIdx = -1
	avoid := -1
	if n >= 2 {
		s.mu.Lock()
		if s.pos < len(s.prefix) {
			start = s.prefix[s.pos].C
			if s.prefix[s.pos].Avoid > 0 && s.pos == len(s.prefix)-1 {
				avoid = s.prefix[s.pos].Avoid - 1
			}
			if start >= n {
				s.diverged = fmt.Sprintf("select %s: prefix choice %d out of range %d", label, start, n)
				start = 0
			}
		}
		s.pos++
		s.trace = append(s.trace, ChoicePoint{Kind: KSelect, N: n, Chosen: start, Taken: -1, TimeAlt: -1})
		s.keys = append(s.keys, 0)
		cpIdx = len(s.trace) - 1
		s.mu.Unlock()
	}
	for k := 0; k < n; k++ {
		i := (start + k) % n
		c := cases[i]
		if !c.Chan.IsValid() || c.Chan.IsNil() {
			continue
		}
		if c.Dir == reflect.SelectRecv {
			if v, ok := c.Chan.TryRecv(); ok || v.IsValid() {
				// ok=false with a valid zero value means the channel is closed
				s.took(cpIdx, i, avoid)
				return i, v, ok
			}
		} else {
			if c.Chan.TrySend(c.Send) {
				s.took(cpIdx, i, avoid)
				return i, reflect.Value{}, false
			}
		}
	}
	if avoid >= 0 {
		// Nothing was ready under the deviating order either: same as the parent.
		s.markRedundant()
	}
	if hasDefault {
		return -1, reflect.Value{}, false
	}
	i, v, ok := nativeSelect(false, cases)
	if cpIdx >= 0 {
		s.mu.Lock()
		s.trace[cpIdx].Taken = -1
		s.mu.Unlock()
	}
	return i, v, ok
}

func (s *Sched) took(cpIdx, i, avoid int) {
	if cpIdx < 0 {
		return
	}
	s.mu.Lock()
	s.trace[cpIdx].Taken = i
	s.mu.Unlock()
	if avoid >= 0 && i == avoid {
		s.markRedundant()
	}
}

func (s *Sched) markRedundant() {
	s.mu.Lock()
	s.redundant = true
	s.abort = true
	s.mu.Unlock()
	s.poke()
	runtime.Goexit()
}

func nativeSelect(hasDefault bool, cases []Case) (int, reflect.Value, bool) {
	sc := make([]reflect.SelectCase, 0, len(cases)+1)
	for _, c := range cases {
		sc = append(sc, reflect.SelectCase{Dir: c.Dir, Chan: c.Chan, Send: c.Send})
	}
	if hasDefault {
		sc = append(sc, reflect.SelectCase{Dir: reflect.SelectDefault})
	}
	i, v, ok := reflect.Select(sc)
	if hasDefault && i == len(cases) {
		return -1, v, ok
	}
	return i, v, ok
}

// ---- the scheduling loop ----

// Run schedules the threads until all non-daemon threads are done, nothing can
// run any more, or a horizon is reached. It must be called from the bubble's
// root goroutine (the one that created the Sched).
func (s *Sched) Run() Status {
	for {
		synctest.Wait()
		// drain stale wake tokens: everything is quiescent now
		select {
		case <-s.wake:
		default:
		}
		s.mu.Lock()
		s.flushEvents()
		if s.redundant {
			s.mu.Unlock()
			return Redundant
		}
		var enabled []*Thread
		live, inCode, predBlocked := 0, 0, 0
		for _, t := range s.threads {
			if t.done {
				continue
			}
			if !t.daemon {
				live++
			}
			if t.at != "" {
				if t.pred == nil || t.pred() {
					enabled = append(enabled, t)
				} else {
					predBlocked++
				}
			} else {
				inCode++
			}
		}
		if live == 0 {
			s.mu.Unlock()
			return Done
		}
		s.steps++
		if s.steps > s.opts.MaxSteps {
			s.mu.Unlock()
			return Horizon
		}
		if len(enabled) == 0 {
			s.mu.Unlock()
			if inCode == 0 && predBlocked == 0 {
				return Stuck
			}
			if !s.advanceTime() {
				return Stuck
			}
			if s.timeAdvances > s.opts.MaxTimeAdv {
				return Horizon
			}
			continue
		}
		// canonical order: the running thread first if still enabled, then ascending ids
		curEnabled := false
		if s.cur != nil {
			for i, t := range enabled {
				if t == s.cur {
					copy(enabled[1:i+1], enabled[:i])
					enabled[0] = s.cur
					curEnabled = true
					break
				}
			}
		}
		n := len(enabled)
		timeAlt := -1
		if s.opts.TimeDevs != 0 {
			timeAlt = n
			n++
		}
		c := 0
		if n >= 2 {
			if s.pos < len(s.prefix) {
				c = s.prefix[s.pos].C
				if c >= n {
					s.diverged = fmt.Sprintf("thread point: prefix choice %d out of range %d", c, n)
					c = 0
				}
			}
			s.pos++
			s.trace = append(s.trace, ChoicePoint{Kind: KThread, N: n, Chosen: c, CurEnabled: curEnabled, TimeAlt: timeAlt, Taken: -1})
			s.keys = append(s.keys, s.stateKey())
		}
		if c == timeAlt {
			s.mu.Unlock()
			s.advanceTime()
			continue
		}
		t := enabled[c]
		s.cur = t
		if s.logEvents {
			s.events = append(s.events, fmt.Sprintf("run T%d:%s at %s", t.ID, t.Name, t.at))
		}
		s.mu.Unlock()
		t.park <- struct{}{}
	}
}

// advanceTime lets fake time run until some thread reaches a point (true) or
// TimeStep passes with nothing happening (false).
func (s *Sched) advanceTime() bool {
	s.timeAdvances++
	s.mu.Lock()
	s.epoch++
	for _, t := range s.threads {
		s.barrier = joinVC(s.barrier, t.vc)
	}
	s.mu.Unlock()
	tm := time.NewTimer(s.opts.TimeStep)
	defer tm.Stop()
	select {
	case <-s.wake:
		return true
	case <-tm.C:
		return false
	}
}

// Abort releases every parked thread with Goexit so the bubble can end. Threads
// blocked inside real code must be unblocked by the harness (close channels,
// Close the object) before or after calling Abort.
func (s *Sched) Abort() {
	s.mu.Lock()
	s.abort = true
	var parked []*Thread
	for _, t := range s.threads {
		if !t.done && t.at != "" {
			parked = append(parked, t)
		}
	}
	s.mu.Unlock()
	for _, t := range parked {
		select {
		case t.park <- struct{}{}:
		case <-time.After(time.Second):
		}
	}
}

// Blocked lists the threads that are not done, with where they are.
func (s *Sched) Blocked() []string {
	s.mu.Lock()
	defer s.mu.Unlock()
	var out []string
	for _, t := range s.threads {
		if t.done {
			continue
		}
		where := t.at
		if where == "" {
			where = "(blocked in code)"
		}
		d := ""
		if t.daemon {
			d = " daemon"
		}
		out = append(out, fmt.Sprintf("T%d:%s%s at %s", t.ID, t.Name, d, where))
	}
	return out
}

// Choices returns the choices taken so far (a replayable schedule).
func (s *Sched) Choices() []Choice {
	s.mu.Lock()
	defer s.mu.Unlock()
	out := make([]Choice, len(s.trace))
	for i, cp := range s.trace {
		out[i] = Choice{C: cp.Chosen}
	}
	return out
}

// Events returns the event log (only recorded in replay/validation runs).
func (s *Sched) Events() []string {
	s.mu.Lock()
	defer s.mu.Unlock()
	return append([]string(nil), s.events...)
}

// Panics returns the panics of scheduled threads recovered so far in this
// execution ("T<id>:<name>: <value>" followed by the top of the stack). A body
// that calls it takes over reporting them; otherwise the explorer reports the
// first one under the key "panic" like a panic of the body itself.
func (s *Sched) Panics() []string {
	s.mu.Lock()
	defer s.mu.Unlock()
	s.panicsRead = true
	return append([]string(nil), s.panics...)
}

func trimStack(b []byte) string {
	lines := bytes.Split(b, []byte("\n"))
	// drop "goroutine N [running]:" and the frames of debug.Stack / this deferred function / panic
	var out [][]byte
	skip := true
	for _, l := range lines {
		if skip {
			if bytes.HasPrefix(l, []byte("panic(")) {
				skip = false
			}
			continue
		}
		out = append(out, l)
		if len(out) >= 13 {
			break
		}
	}
	if len(out) == 0 {
		if len(lines) > 14 {
			lines = lines[:14]
		}
		out = lines
	}
	return string(bytes.Join(out, []byte("\n")))
}

// Quiesce waits until every goroutine in the bubble is durably blocked.
func (s *Sched) Quiesce() { synctest.Wait() }
