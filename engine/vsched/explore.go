package verifvsched

import (
	"fmt"
	"os"
	"sync"
	"sync/atomic"
	"testing"
	"testing/synctest"
	"time"
)

// Outcome is what a harness body reports for one execution.
type Outcome struct {
	Obs        string // observation vector (for distinct-outcome counting and determinism checks)
	Violations []Vio
}

// Vio is a violation seen in one execution.
type Vio struct {
	Key, What string
}

// Body runs one execution: it builds fresh objects, starts threads with s.Go,
// calls s.Run(), evaluates the oracle, and tears everything down so that no
// goroutine of the bubble is left blocked. It runs in the bubble's root goroutine.
type Body func(s *Sched) Outcome

// Stats summarises an exploration.
type Stats struct {
	Executions  int64
	Redundant   int64
	Replays     int64
	ChoicePts   int64
	MaxDepth    int
	Outcomes    map[string]int64
	ByStatus    map[string]int64
	Capped      bool
	Pruned      int64 // expansions cut because the state had been expanded with at least the same budget
	StatesSeen  int64 // distinct state keys (happens-before classes at scheduling decisions)
	Divergences []string
	Violations  []FoundVio
	KeyNoise    int64 // replays whose choice points matched but whose happens-before state keys did not
}

// FoundVio is a violation with its replayable schedule.
type FoundVio struct {
	Vio
	Schedule []Choice
	Events   []string
	Repro    int // how many of the re-runs reproduced it
}

type execResult struct {
	trace  []ChoicePoint
	keys   []uint64
	out    Outcome
	status Status
	div    string
	events []string
	panicV any
}

func runOne(t *testing.T, opts Options, prefix []Choice, body Body, logEvents bool) (res execResult) {
	defer func() {
		if p := recover(); p != nil {
			res.panicV = p
		}
	}()
	synctest.Test(t, func(t *testing.T) {
		s := &Sched{prefix: prefix, opts: opts, wake: make(chan struct{}, 1), logEvents: logEvents, objVC: map[uintptr][]int{}}
		defer func() {
			s.Abort()
			s.mu.Lock()
			res.trace = append([]ChoicePoint(nil), s.trace...)
			res.keys = append([]uint64(nil), s.keys...)
			res.div = s.diverged
			if s.pos < len(s.prefix) && !s.redundant && res.div == "" {
				res.div = fmt.Sprintf("execution ended after %d choice points but the prefix has %d", s.pos, len(s.prefix))
			}
			res.events = s.events
			if len(s.panics) > 0 && !s.panicsRead && res.panicV == nil {
				res.panicV = "scheduled thread panicked: " + s.panics[0]
			}
			if s.redundant {
				res.status = Redundant
			}
			s.mu.Unlock()
		}()
		res.out = body(s)
	})
	return res
}

// LastStatus lets a body pass the status of s.Run() on; bodies normally encode it in Obs.

// Explore enumerates every schedule of body within opts' deviation bounds.
func Explore(t *testing.T, opts Options, body Body) *Stats {
	opts.defaults()
	st := &Stats{Outcomes: map[string]int64{}, ByStatus: map[string]int64{}}
	var mu sync.Mutex
	var stack [][]Choice
	stack = append(stack, nil)
	cond := sync.NewCond(&mu)
	var execs atomic.Int64
	vioSeen := map[string]int{}
	var vis *visited
	if !opts.NoStatePruning {
		vis = &visited{m: map[uint64]budget{}}
	}
	defer func() {
		if vis != nil {
			st.Pruned = vis.pruned
			st.StatesSeen = int64(len(vis.m))
		}
	}()
	// Sharding across processes (VERIF_SHARD=i/N): every shard computes the same
	// breadth-first frontier (executions are deterministic), shard 0 accounts for
	// the frontier executions, and the subtrees below it are dealt out round-robin.
	shardI, shardN := 0, 1
	if sh := os.Getenv("VERIF_SHARD"); sh != "" {
		fmt.Sscanf(sh, "%d/%d", &shardI, &shardN)
	}
	if shardN > 1 {
		opts.Workers = 1
		var frontier [][]Choice
		frontier = append(frontier, nil)
		for len(frontier) > 0 && len(frontier) < 8*shardN && (opts.Deadline.IsZero() || time.Now().Before(opts.Deadline)) {
			prefix := frontier[0]
			frontier = frontier[1:]
			res := runOne(t, opts, prefix, body, false)
			if shardI == 0 {
				st.Executions++
				if res.status == Redundant {
					st.Redundant++
				} else {
					st.ChoicePts += int64(len(res.trace))
					st.Outcomes[res.out.Obs]++
					if len(res.trace) > st.MaxDepth {
						st.MaxDepth = len(res.trace)
					}
				}
				if res.panicV != nil {
					st.Violations = append(st.Violations, FoundVio{Vio: Vio{Key: "panic", What: fmt.Sprintf("panic during execution: %v", res.panicV)}, Schedule: prefix})
				}
				for _, v := range res.out.Violations {
					if vioSeen[v.Key] < 3 {
						fv := FoundVio{Vio: v}
						for _, cp := range res.trace {
							fv.Schedule = append(fv.Schedule, Choice{C: cp.Chosen})
						}
						st.Violations = append(st.Violations, fv)
					}
					vioSeen[v.Key]++
				}
			}
			if res.panicV == nil && res.div == "" && res.status != Redundant {
				frontier = append(frontier, expand(opts, prefix, res.trace, res.keys, vis)...)
			}
		}
		stack = nil
		for i, p := range frontier {
			if i%shardN == shardI {
				stack = append(stack, p)
			}
		}
		if opts.MaxExecs > 0 {
			opts.MaxExecs = opts.MaxExecs/4 + 1 // shards are unbalanced: a loose per-shard cap
		}
	}
	pending := len(stack)

	worker := func() {
		for {
			mu.Lock()
			for len(stack) == 0 && pending > 0 {
				cond.Wait()
			}
			if pending == 0 {
				mu.Unlock()
				cond.Broadcast()
				return
			}
			prefix := stack[len(stack)-1]
			stack = stack[:len(stack)-1]
			mu.Unlock()

			n := execs.Add(1)
			res := runOne(t, opts, prefix, body, false)
			var children [][]Choice
			doReplay := opts.ReplayEvery > 0 && (n%int64(opts.ReplayEvery) == 1 || len(res.out.Violations) > 0)
			var rep execResult
			if doReplay && res.panicV == nil && res.status != Redundant {
				full := make([]Choice, len(res.trace))
				for i, cp := range res.trace {
					full[i] = Choice{C: cp.Chosen}
				}
				rep = runOne(t, opts, full, body, true)
			}

			mu.Lock()
			if res.panicV == nil && res.div == "" && res.status != Redundant {
				children = expand(opts, prefix, res.trace, res.keys, vis)
			}
			st.Executions++
			if res.status == Redundant {
				st.Redundant++
			} else {
				st.ChoicePts += int64(len(res.trace))
				if len(res.trace) > st.MaxDepth {
					st.MaxDepth = len(res.trace)
				}
				st.Outcomes[res.out.Obs]++
			}
			if res.panicV != nil {
				key := "panic"
				if vioSeen[key] < 3 {
					st.Violations = append(st.Violations, FoundVio{Vio: Vio{Key: key, What: fmt.Sprintf("panic during execution: %v", res.panicV)}, Schedule: prefix})
				}
				vioSeen[key]++
			}
			if res.div != "" {
				st.Divergences = append(st.Divergences, fmt.Sprintf("prefix %v: %s", prefix, res.div))
			}
			if doReplay && res.panicV == nil && res.status != Redundant {
				st.Replays++
				if rep.out.Obs != res.out.Obs || rep.div != "" || rep.panicV != nil {
					st.Divergences = append(st.Divergences, fmt.Sprintf("replay of %v gave obs %q (div %q panic %v), first run %q", prefix, rep.out.Obs, rep.div, rep.panicV, res.out.Obs))
				} else if d := traceDiff(res.trace, rep.trace); d != "" {
					st.Divergences = append(st.Divergences, fmt.Sprintf("replay of %v: %s", prefix, d))
				}
				if len(rep.keys) == len(res.keys) {
					for i := range rep.keys {
						if rep.keys[i] != res.keys[i] {
							st.KeyNoise++
							break
						}
					}
				}
			}
			for _, v := range res.out.Violations {
				if vioSeen[v.Key] < 3 {
					fv := FoundVio{Vio: v, Events: rep.events}
					for _, cp := range res.trace {
						fv.Schedule = append(fv.Schedule, Choice{C: cp.Chosen})
					}
					for _, rv := range rep.out.Violations {
						if rv.Key == v.Key {
							fv.Repro++
							break
						}
					}
					st.Violations = append(st.Violations, fv)
				}
				vioSeen[v.Key]++
			}
			if (opts.MaxExecs > 0 && st.Executions >= opts.MaxExecs) || (!opts.Deadline.IsZero() && time.Now().After(opts.Deadline)) {
				if len(children) > 0 || len(stack) > 0 {
					st.Capped = true
				}
				children = nil
				pending -= len(stack)
				stack = nil
			}
			stack = append(stack, children...)
			pending += len(children) - 1
			mu.Unlock()
			cond.Broadcast()
		}
	}
	var wg sync.WaitGroup
	for i := 0; i < opts.Workers; i++ {
		wg.Add(1)
		go func() { defer wg.Done(); worker() }()
	}
	wg.Wait()
	return st
}

// expand lists the child prefixes of an execution: for every choice point at or
// after the prefix, every alternative that stays within the deviation bounds.
func expand(opts Options, prefix []Choice, trace []ChoicePoint, keys []uint64, vis *visited) [][]Choice {
	var out [][]Choice
	pre, sel, tim := 0, 0, 0
	inf := 1 << 30
	rem := func(bound, used int) int {
		if bound < 0 {
			return inf
		}
		return bound - used
	}
	within := func(p, s, t int) bool {
		if opts.Deviations >= 0 && p+s+t > opts.Deviations {
			return false
		}
		return (opts.Preemptions < 0 || p <= opts.Preemptions) && (opts.SelectDevs < 0 || s <= opts.SelectDevs) && (opts.TimeDevs < 0 || t <= opts.TimeDevs)
	}
	for i, cp := range trace {
		if i >= len(prefix) && vis != nil && cp.Kind == KThread && i < len(keys) && keys[i] != 0 {
			b := budget{rem(opts.Deviations, pre+sel+tim), rem(opts.Preemptions, pre), rem(opts.SelectDevs, sel), rem(opts.TimeDevs, tim)}
			if vis.covered(keys[i], b) {
				vis.pruned++
				return out // this state and everything after it was already explored with at least this budget
			}
		}
		if i >= len(prefix) {
			base := make([]Choice, i)
			for j := 0; j < i; j++ {
				base[j] = Choice{C: trace[j].Chosen}
			}
			switch cp.Kind {
			case KThread:
				for alt := 1; alt < cp.N; alt++ {
					if alt == cp.TimeAlt {
						if !within(pre, sel, tim+1) {
							continue
						}
					} else if cp.CurEnabled {
						if !within(pre+1, sel, tim) {
							continue
						}
					}
					out = append(out, append(append([]Choice{}, base...), Choice{C: alt}))
				}
			case KSelect:
				if !within(pre, sel+1, tim) {
					break
				}
				// Only orders that start after the case that was taken can give a different result.
				from := cp.Taken + 1
				if cp.Taken < 0 {
					break // blocked: nothing was ready under any order
				}
				for alt := from; alt < cp.N; alt++ {
					out = append(out, append(append([]Choice{}, base...), Choice{C: alt, Avoid: cp.Taken + 1}))
				}
			}
		}
		// account for the deviation actually taken at this point
		switch cp.Kind {
		case KThread:
			if cp.Chosen != 0 {
				if cp.Chosen == cp.TimeAlt {
					tim++
				} else if cp.CurEnabled {
					pre++
				}
			}
		case KSelect:
			if cp.Chosen != 0 {
				sel++
			}
		}
	}
	return out
}

type budget struct{ total, pre, sel, tim int }

func (a budget) dominates(b budget) bool {
	return a.total >= b.total && a.pre >= b.pre && a.sel >= b.sel && a.tim >= b.tim
}

// visited remembers, per state key, the largest remaining deviation budget the
// state has been expanded with. Callers hold the explorer's lock.
type visited struct {
	m      map[uint64]budget
	pruned int64
}

func (v *visited) covered(k uint64, b budget) bool {
	old, ok := v.m[k]
	if ok && old.dominates(b) {
		return true
	}
	if !ok || b.dominates(old) {
		v.m[k] = b
	}
	return false
}

// Replay runs one schedule with the event log on and returns the outcome.
func Replay(t *testing.T, opts Options, schedule []Choice, body Body) (Outcome, []string, string) {
	opts.defaults()
	res := runOne(t, opts, schedule, body, true)
	div := res.div
	if res.panicV != nil {
		div = fmt.Sprintf("panic: %v", res.panicV)
	}
	return res.out, res.events, div
}

// traceDiff compares the choice points of an execution and of its replay: the
// same schedule must meet the same choice points with the same alternatives.
func traceDiff(a, b []ChoicePoint) string {
	if len(a) != len(b) {
		return fmt.Sprintf("replay met %d choice points, first run %d", len(b), len(a))
	}
	for i := range a {
		if a[i] != b[i] {
			return fmt.Sprintf("choice point %d differs: first run %+v, replay %+v", i, a[i], b[i])
		}
	}
	return ""
}
