// Command instrument rewrites one Go source file of rqlite for the E-SCHED
// scheduler (see /verif/DESIGN.md 1.1/1.2). It is run by ./check on the
// *current* /repo tree, and its output replaces the file through a build
// overlay; /repo is never written. The rewrite is purely syntactic (go/ast):
//
//   - import "sync"           -> the scheduler-aware vsync package (same names)
//   - go f(x)                 -> verifvsched.Go(label, func(){ f(x') })   (args bound first)
//   - time.AfterFunc(d, f)    -> verifvsched.AfterFunc(d, label, f)
//   - select { ... }          -> verifvsched.Select(...) + switch (case order becomes a choice)
//   - a verifvsched.Point(label) before every statement that sends/receives on
//     a channel, closes a channel, calls time.Sleep, or calls a method named in -methods
//     (atomic loads/stores and similar).
//
// With -crash (E-CRASH, DESIGN.md 1.4) none of the above is done; instead a
// verifvfs.Point("file.go:line") is put before every statement that contains a
// call, and at the closing brace ("file.go:<line of }>") of every function
// without results that can fall off its end.
package main

import (
	"bytes"
	"flag"
	"fmt"
	"go/ast"
	"go/format"
	"go/parser"
	"go/printer"
	"go/token"
	"os"
	"path/filepath"
	"strconv"
	"strings"
)

const (
	vschedPath = "github.com/rqlite/rqlite/v10/internal/verifvsched"
	vsyncPath  = "github.com/rqlite/rqlite/v10/internal/verifvsync"
	vfsPath    = "github.com/rqlite/rqlite/v10/internal/verifvfs"
)

var (
	fset     = token.NewFileSet()
	base     string
	methods  = map[string]bool{}
	usedSch  bool
	tmpCount int
	noSync   bool
	noSelect bool
	crash    bool // E-CRASH mode: only verifvfs.Point before every statement that contains a call
	usedVfs  bool
	done     = map[ast.Node]bool{} // statement lists already rewritten (including synthesized ones)
	isPoint  = map[ast.Stmt]bool{} // synthesized crash points (never get a point of their own)
)

func main() {
	in := flag.String("in", "", "input file")
	out := flag.String("out", "", "output file")
	ms := flag.String("methods", "", "comma-separated method names whose calls get a scheduling point (e.g. Load,Store,Is,Set)")
	flag.BoolVar(&noSync, "nosync", false, "do not replace import sync")
	flag.BoolVar(&noSelect, "noselect", false, "do not rewrite select statements (only put a point before them)")
	flag.BoolVar(&crash, "crash", false, "crash-image mode: put verifvfs.Point(label) before every statement containing a call; nothing else is rewritten")
	name := flag.String("name", "", "label prefix to use instead of the input file's base name (e.g. store/store.go, to tell equally named files apart)")
	flag.Parse()
	if crash {
		noSync, noSelect = true, true
	}
	for _, m := range strings.Split(*ms, ",") {
		if m != "" {
			methods[m] = true
		}
	}
	base = filepath.Base(*in)
	if *name != "" {
		base = *name
	}
	src, err := os.ReadFile(*in)
	if err != nil {
		die(err)
	}
	f, err := parser.ParseFile(fset, *in, src, parser.ParseComments)
	if err != nil {
		die(err)
	}
	// keep only a leading build constraint
	var header string
	for _, cg := range f.Comments {
		if cg.End() < f.Package {
			for _, c := range cg.List {
				if strings.HasPrefix(c.Text, "//go:build") {
					header += c.Text + "\n\n"
				}
			}
		}
	}
	f.Comments = nil
	f.Doc = nil
	ast.Inspect(f, func(n ast.Node) bool {
		switch x := n.(type) {
		case *ast.FuncDecl:
			x.Doc = nil
		case *ast.GenDecl:
			x.Doc = nil
		case *ast.Field:
			x.Doc, x.Comment = nil, nil
		case *ast.ValueSpec:
			x.Doc, x.Comment = nil, nil
		case *ast.TypeSpec:
			x.Doc, x.Comment = nil, nil
		case *ast.ImportSpec:
			x.Doc, x.Comment = nil, nil
		}
		return true
	})

	if !noSync {
		for _, im := range f.Imports {
			if im.Path.Value == `"sync"` {
				im.Path.Value = strconv.Quote(vsyncPath)
				if im.Name == nil {
					im.Name = ast.NewIdent("sync")
				}
			}
		}
	}
	// expression-level rewrites first (AfterFunc), then statement lists
	ast.Inspect(f, func(n ast.Node) bool {
		if crash {
			return false
		}
		if c, ok := n.(*ast.CallExpr); ok && isSel(c.Fun, "time", "AfterFunc") && len(c.Args) == 2 {
			usedSch = true
			c.Fun = sel("verifvsched", "AfterFunc")
			c.Args = []ast.Expr{c.Args[0], lit(label(c.Pos())), c.Args[1]}
		}
		return true
	})
	// crash mode: a function without results that can fall off its end gets a
	// point at its closing brace, so the state after its last statement is
	// imaged even when the caller is not instrumented.
	if crash {
		ast.Inspect(f, func(n ast.Node) bool {
			var ft *ast.FuncType
			var body *ast.BlockStmt
			switch x := n.(type) {
			case *ast.FuncDecl:
				ft, body = x.Type, x.Body
			case *ast.FuncLit:
				ft, body = x.Type, x.Body
			}
			if body == nil || (ft.Results != nil && len(ft.Results.List) > 0) {
				return true
			}
			if k := len(body.List); k > 0 {
				if _, isRet := body.List[k-1].(*ast.ReturnStmt); isRet {
					return true
				}
			} else {
				return true // empty body: nothing happened
			}
			pt := crashPoint(body.Rbrace)
			isPoint[pt] = true
			body.List = append(body.List, pt)
			return true
		})
	}
	ast.Inspect(f, func(n ast.Node) bool {
		if n == nil || done[n] {
			return true
		}
		switch x := n.(type) {
		case *ast.BlockStmt:
			done[n] = true
			x.List = rewriteList(x.List)
		case *ast.CaseClause:
			done[n] = true
			x.Body = rewriteList(x.Body)
		case *ast.CommClause:
			done[n] = true
			x.Body = rewriteList(x.Body)
		}
		return true
	})
	if usedSch {
		addImport(f, "verifvsched", vschedPath)
	}
	if usedVfs {
		addImport(f, "verifvfs", vfsPath)
	}
	var buf bytes.Buffer
	buf.WriteString(header)
	if err := format.Node(&buf, fset, f); err != nil {
		var raw bytes.Buffer
		printer.Fprint(&raw, fset, f)
		os.WriteFile(*out+".raw", raw.Bytes(), 0o644)
		die(err)
	}
	if err := os.WriteFile(*out, buf.Bytes(), 0o644); err != nil {
		die(err)
	}
}

func die(err error) { fmt.Fprintln(os.Stderr, "instrument:", err); os.Exit(1) }

func label(p token.Pos) string { return fmt.Sprintf("%s:%d", base, fset.Position(p).Line) }
func lit(s string) *ast.BasicLit { return &ast.BasicLit{Kind: token.STRING, Value: strconv.Quote(s)} }
func sel(x, s string) *ast.SelectorExpr {
	return &ast.SelectorExpr{X: ast.NewIdent(x), Sel: ast.NewIdent(s)}
}
func isSel(e ast.Expr, x, s string) bool {
	se, ok := e.(*ast.SelectorExpr)
	if !ok {
		return false
	}
	id, ok := se.X.(*ast.Ident)
	return ok && id.Name == x && se.Sel.Name == s
}
func call(fun ast.Expr, args ...ast.Expr) *ast.CallExpr { return &ast.CallExpr{Fun: fun, Args: args} }
func tmp(p string) *ast.Ident                          { tmpCount++; return ast.NewIdent(fmt.Sprintf("_v%s%d", p, tmpCount)) }

func addImport(f *ast.File, name, path string) {
	spec := &ast.ImportSpec{Name: ast.NewIdent(name), Path: lit(path)}
	for _, d := range f.Decls {
		if g, ok := d.(*ast.GenDecl); ok && g.Tok == token.IMPORT {
			g.Specs = append(g.Specs, spec)
			if !g.Lparen.IsValid() {
				g.Lparen = g.Pos()
				g.Rparen = g.End()
			}
			return
		}
	}
	f.Decls = append([]ast.Decl{&ast.GenDecl{Tok: token.IMPORT, Specs: []ast.Spec{spec}}}, f.Decls...)
}

func point(p token.Pos, objs ...ast.Expr) ast.Stmt {
	usedSch = true
	return &ast.ExprStmt{X: call(sel("verifvsched", "Point"), append([]ast.Expr{lit(label(p))}, objs...)...)}
}

// pointObjs lists the objects the statement's synchronisation operations act on:
// channel expressions that are plain identifiers/selectors (safe to evaluate
// twice); anything else is attributed to the catch-all object "*", which
// orders the step with every other step that names "*".
func pointObjs(s ast.Stmt) []ast.Expr {
	var objs []ast.Expr
	any := false
	add := func(e ast.Expr) {
		if simpleExpr(e) {
			objs = append(objs, e)
		} else {
			any = true
		}
	}
	ast.Inspect(s, func(n ast.Node) bool {
		switch x := n.(type) {
		case *ast.FuncLit, *ast.BlockStmt, *ast.SelectStmt, *ast.GoStmt, *ast.DeferStmt:
			if n != ast.Node(s) {
				return false
			}
		case *ast.SendStmt:
			add(x.Chan)
		case *ast.UnaryExpr:
			if x.Op == token.ARROW {
				add(x.X)
			}
		case *ast.CallExpr:
			if id, ok := x.Fun.(*ast.Ident); ok && id.Name == "close" && len(x.Args) == 1 {
				add(x.Args[0])
			}
			if isSel(x.Fun, "time", "Sleep") {
				any = true
			}
			if se, ok := x.Fun.(*ast.SelectorExpr); ok && methods[se.Sel.Name] {
				any = true
			}
		}
		return true
	})
	if any || len(objs) == 0 {
		objs = append(objs, lit("*"))
	}
	return objs
}

func simpleExpr(e ast.Expr) bool {
	switch x := e.(type) {
	case *ast.Ident:
		return true
	case *ast.SelectorExpr:
		return simpleExpr(x.X)
	}
	return false
}

// needsPoint reports whether stmt itself (not nested blocks or function
// literals) performs a synchronisation operation.
func needsPoint(s ast.Stmt) bool {
	found := false
	var visit func(n ast.Node) bool
	visit = func(n ast.Node) bool {
		if found || n == nil {
			return false
		}
		switch x := n.(type) {
		case *ast.FuncLit, *ast.BlockStmt, *ast.SelectStmt, *ast.GoStmt, *ast.DeferStmt:
			return false
		case *ast.SendStmt:
			found = true
		case *ast.UnaryExpr:
			if x.Op == token.ARROW {
				found = true
			}
		case *ast.CallExpr:
			if id, ok := x.Fun.(*ast.Ident); ok && id.Name == "close" {
				found = true
			}
			if isSel(x.Fun, "time", "Sleep") {
				found = true
			}
			if se, ok := x.Fun.(*ast.SelectorExpr); ok && methods[se.Sel.Name] {
				found = true
			}
		}
		return !found
	}
	switch x := s.(type) {
	case *ast.CommClause, *ast.CaseClause:
		// clauses of a select/switch body: their own statement lists are rewritten separately
		return false
	case *ast.IfStmt:
		if x.Init != nil {
			ast.Inspect(x.Init, visit)
		}
		ast.Inspect(x.Cond, visit)
	case *ast.ForStmt, *ast.RangeStmt, *ast.SwitchStmt, *ast.TypeSwitchStmt, *ast.LabeledStmt, *ast.BlockStmt:
		if r, ok := s.(*ast.RangeStmt); ok {
			ast.Inspect(r.X, visit)
		}
		if sw, ok := s.(*ast.SwitchStmt); ok {
			if sw.Init != nil {
				ast.Inspect(sw.Init, visit)
			}
			if sw.Tag != nil {
				ast.Inspect(sw.Tag, visit)
			}
		}
	default:
		ast.Inspect(s, visit)
	}
	return found
}

// hasCall reports whether stmt itself (its own expressions, not nested blocks
// or function literals) contains a call other than a conversion-looking
// builtin; used by crash mode, where every call may reach the file system.
func hasCall(s ast.Stmt) bool {
	found := false
	visit := func(n ast.Node) bool {
		if found || n == nil {
			return false
		}
		switch x := n.(type) {
		case *ast.FuncLit, *ast.BlockStmt:
			return false
		case *ast.CallExpr:
			if id, ok := x.Fun.(*ast.Ident); ok {
				switch id.Name {
				case "len", "cap", "append", "make", "new", "string", "int", "int64", "uint64", "uint32", "int32", "byte", "float64", "copy", "min", "max", "panic", "recover", "delete":
					return true
				}
			}
			found = true
		}
		return !found
	}
	switch x := s.(type) {
	case *ast.IfStmt:
		if x.Init != nil {
			ast.Inspect(x.Init, visit)
		}
		ast.Inspect(x.Cond, visit)
	case *ast.ForStmt:
		if x.Init != nil {
			ast.Inspect(x.Init, visit)
		}
	case *ast.RangeStmt:
		ast.Inspect(x.X, visit)
	case *ast.SwitchStmt:
		if x.Init != nil {
			ast.Inspect(x.Init, visit)
		}
		if x.Tag != nil {
			ast.Inspect(x.Tag, visit)
		}
	case *ast.TypeSwitchStmt, *ast.LabeledStmt, *ast.BlockStmt, *ast.SelectStmt, *ast.CaseClause, *ast.CommClause:
	default:
		ast.Inspect(s, visit)
	}
	return found
}

func crashPoint(p token.Pos) *ast.ExprStmt {
	usedVfs = true
	return &ast.ExprStmt{X: call(sel("verifvfs", "Point"), lit(label(p)))}
}

func rewriteList(list []ast.Stmt) []ast.Stmt {
	var out []ast.Stmt
	if crash {
		for _, s := range list {
			if hasCall(s) && !isPoint[s] {
				out = append(out, crashPoint(s.Pos()))
			}
			out = append(out, s)
		}
		return out
	}
	for _, s := range list {
		switch x := s.(type) {
		case *ast.GoStmt:
			out = append(out, rewriteGo(x))
			continue
		case *ast.SelectStmt:
			if noSelect {
				out = append(out, point(x.Pos()), x)
			} else {
				out = append(out, rewriteSelect(x, nil))
			}
			continue
		case *ast.LabeledStmt:
			if ss, ok := x.Stmt.(*ast.SelectStmt); ok && !noSelect {
				out = append(out, rewriteSelect(ss, x.Label))
				continue
			}
		}
		if needsPoint(s) {
			out = append(out, point(s.Pos(), pointObjs(s)...))
		}
		out = append(out, s)
	}
	return out
}

func rewriteGo(g *ast.GoStmt) ast.Stmt {
	usedSch = true
	lb := lit(label(g.Pos()))
	if fl, ok := g.Call.Fun.(*ast.FuncLit); ok && len(g.Call.Args) == 0 {
		return &ast.ExprStmt{X: call(sel("verifvsched", "Go"), lb, fl)}
	}
	blk := &ast.BlockStmt{}
	done[blk] = true
	var args []ast.Expr
	for _, a := range g.Call.Args {
		t := tmp("a")
		blk.List = append(blk.List, &ast.AssignStmt{Lhs: []ast.Expr{t}, Tok: token.DEFINE, Rhs: []ast.Expr{a}})
		args = append(args, t)
	}
	inner := &ast.CallExpr{Fun: g.Call.Fun, Args: args, Ellipsis: g.Call.Ellipsis}
	fl := &ast.FuncLit{Type: &ast.FuncType{Params: &ast.FieldList{}}, Body: &ast.BlockStmt{List: []ast.Stmt{&ast.ExprStmt{X: inner}}}}
	blk.List = append(blk.List, &ast.ExprStmt{X: call(sel("verifvsched", "Go"), lb, fl)})
	return blk
}

func rewriteSelect(s *ast.SelectStmt, lbl *ast.Ident) ast.Stmt {
	usedSch = true
	blk := &ast.BlockStmt{}
	done[blk] = true
	vi, vr, vok := tmp("i"), tmp("r"), tmp("ok")
	hasDefault := "false"
	var cases []ast.Expr
	sw := &ast.SwitchStmt{Tag: vi, Body: &ast.BlockStmt{}}
	done[sw.Body] = true
	idx := 0
	for _, c := range s.Body.List {
		cc := c.(*ast.CommClause)
		body := rewriteList(cc.Body)
		if cc.Comm == nil {
			hasDefault = "true"
			dc := &ast.CaseClause{List: []ast.Expr{&ast.UnaryExpr{Op: token.SUB, X: &ast.BasicLit{Kind: token.INT, Value: "1"}}}, Body: body}
			done[dc] = true
			sw.Body.List = append(sw.Body.List, dc)
			continue
		}
		var pre []ast.Stmt
		switch cm := cc.Comm.(type) {
		case *ast.SendStmt:
			tc, tv := tmp("c"), tmp("s")
			blk.List = append(blk.List, &ast.AssignStmt{Lhs: []ast.Expr{tc}, Tok: token.DEFINE, Rhs: []ast.Expr{cm.Chan}})
			// keep the value's static type: declare it as the channel's element via a helper closure is not possible
			// syntactically, so pass it as any and let SendCase convert.
			blk.List = append(blk.List, &ast.DeclStmt{Decl: &ast.GenDecl{Tok: token.VAR, Specs: []ast.Spec{&ast.ValueSpec{Names: []*ast.Ident{tv}, Type: ast.NewIdent("any"), Values: []ast.Expr{cm.Value}}}}})
			cases = append(cases, call(sel("verifvsched", "SendCase"), tc, tv))
		case *ast.ExprStmt: // <-ch
			ue := cm.X.(*ast.UnaryExpr)
			tc := tmp("c")
			blk.List = append(blk.List, &ast.AssignStmt{Lhs: []ast.Expr{tc}, Tok: token.DEFINE, Rhs: []ast.Expr{ue.X}})
			cases = append(cases, call(sel("verifvsched", "RecvCase"), tc))
		case *ast.AssignStmt: // v := <-ch ; v, ok := <-ch ; v = <-ch
			ue := unparen(cm.Rhs[0]).(*ast.UnaryExpr)
			tc := tmp("c")
			blk.List = append(blk.List, &ast.AssignStmt{Lhs: []ast.Expr{tc}, Tok: token.DEFINE, Rhs: []ast.Expr{ue.X}})
			cases = append(cases, call(sel("verifvsched", "RecvCase"), tc))
			rhs := []ast.Expr{call(sel("verifvsched", "RecvVal"), tc, vr)}
			if len(cm.Lhs) == 2 {
				rhs = append(rhs, vok)
			}
			pre = append(pre, &ast.AssignStmt{Lhs: cm.Lhs, Tok: cm.Tok, Rhs: rhs})
			if cm.Tok == token.DEFINE {
				// avoid "declared and not used" if the original body ignored a variable (it could not, but blank is fine)
				for _, l := range cm.Lhs {
					if id, ok := l.(*ast.Ident); ok && id.Name != "_" {
						pre = append(pre, &ast.AssignStmt{Lhs: []ast.Expr{ast.NewIdent("_")}, Tok: token.ASSIGN, Rhs: []ast.Expr{ast.NewIdent(id.Name)}})
					}
				}
			}
		default:
			die(fmt.Errorf("%s: unsupported select comm %T", label(cc.Pos()), cc.Comm))
		}
		nc := &ast.CaseClause{List: []ast.Expr{&ast.BasicLit{Kind: token.INT, Value: strconv.Itoa(idx)}}, Body: append(pre, body...)}
		done[nc] = true
		sw.Body.List = append(sw.Body.List, nc)
		idx++
	}
	args := append([]ast.Expr{lit(label(s.Pos())), ast.NewIdent(hasDefault)}, cases...)
	blk.List = append(blk.List,
		&ast.AssignStmt{Lhs: []ast.Expr{vi, vr, vok}, Tok: token.DEFINE, Rhs: []ast.Expr{call(sel("verifvsched", "Select"), args...)}},
		&ast.AssignStmt{Lhs: []ast.Expr{ast.NewIdent("_"), ast.NewIdent("_")}, Tok: token.ASSIGN, Rhs: []ast.Expr{vr, vok}})
	if lbl != nil {
		blk.List = append(blk.List, &ast.LabeledStmt{Label: lbl, Stmt: sw})
	} else {
		blk.List = append(blk.List, sw)
	}
	return blk
}

func unparen(e ast.Expr) ast.Expr {
	for {
		p, ok := e.(*ast.ParenExpr)
		if !ok {
			return e
		}
		e = p.X
	}
}
