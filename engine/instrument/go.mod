module verif/instrument

go 1.26
