CHECK = {"level": "model_checking", "engine": "E-SCHED",
         "technique": "stateless model checking of the real queue.Queue under a controlled scheduler (synctest fake clock), preemption/deviation-bounded DFS over all schedules",
         "text": "The real Queue (queue.go instrumented by go/ast from the current tree: sync->vsync, scheduling points before channel operations, select order as a choice) is driven by 2-3 writer threads, a flusher, a consumer and its own goroutine and batch timer; every schedule within the deviation bounds is executed and the statement's invariants are checked on each.",
         "note": "Bounds: preemptions<=2 (3 thorough), select-order deviations<=1 (2), early timer firings<=1 (2), 6 scenarios. Sequentially consistent memory; unsynchronised accesses are outside this check.",
         "instrument": [{"file": "queue/queue.go"}],
         "parts": [part("sched", "queue", "^TestVerif_C24$", shards=16, timeout_quick=600, timeout_thorough=3000, budget_thorough=1200)]}
