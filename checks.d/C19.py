CHECK = {"level": "model_checking", "engine": "E-ENUM",
         "technique": "exhaustive small-scope enumeration of credential files x queries on the real CredentialsStore vs reference rule",
         "text": "Every credentials file of up to 3 entries over a 5x4x5 field alphabet (including omitted fields and duplicate users) is loaded by the real store and asked all 60 (user,password,perm) queries; each decision is compared with the rule in the statement. Exhaustive within that scope (1,010,101 files, 60.6M decisions at thorough).",
         "note": "Scope bound: <=3 entries, 3 user names, 2 passwords, perms {x,y,all}. JSON decoding by encoding/json is trusted.",
         "parts": [part("enum", "auth", "^TestVerif_C19$", timeout_quick=300, timeout_thorough=1800)]}
