#!/bin/bash
# Offline setup: build the instrumenter and warm the Go build cache for the
# packages the harnesses compile (cgo sqlite is the slow one). Idempotent.
set -u
cd "$(dirname "$0")"
export GOPROXY=off GOTOOLCHAIN=local GOSUMDB=off
mkdir -p .build evidence replays
cp /repo/go.mod /repo/go.sum .build/
if [ -d engine/instrument ]; then
  (cd engine/instrument && GOFLAGS=-mod=mod go1.26 build -o ../../.build/instrument . ) || echo "setup: instrument build failed" >&2
fi
# warm caches: compile (not run) every harness package with its overlay
python3 - <<'P'
import json, os, subprocess, sys
sys.path.insert(0, os.getcwd())
from checks_config import CHECKS
import importlib.machinery, importlib.util
loader = importlib.machinery.SourceFileLoader("checkdrv", os.path.join(os.getcwd(), "check"))
spec = importlib.util.spec_from_loader("checkdrv", loader)
drv = importlib.util.module_from_spec(spec); loader.exec_module(drv)
procs = []
for pid, cfg in CHECKS.items():
    bdir = os.path.join(drv.VERIF, ".build", pid)
    os.makedirs(bdir, exist_ok=True)
    for f in ("go.mod", "go.sum"):
        import shutil; shutil.copy(os.path.join(drv.REPO, f), os.path.join(bdir, f))
    ov = drv.build_overlay(pid, cfg, bdir)
    for part in cfg["parts"]:
        cmd = [drv.GO, "test", "-tags", "verif", "-modfile=" + os.path.join(bdir, "go.mod"), "-overlay=" + ov,
               "-vet=off", "-count=1", "-run", "^$"] + (["-race"] if part.get("race") else []) + part.get("goflags", []) + ["./" + part["pkg"]]
        r = subprocess.run(cmd, cwd=drv.REPO, env=drv.go_env("/var/tmp"), capture_output=True, text=True)
        if r.returncode != 0:
            print("setup: warm build failed for", pid, part["name"], r.stdout[-2000:], r.stderr[-2000:], file=sys.stderr)
P
echo "setup done"
