"""Per-property check configuration for ./check. Each part is one `go test`
invocation of an overlay-injected harness inside the rqlite module."""

def part(name, pkg, run, **kw):
    d = {"name": name, "pkg": pkg, "run": run}
    d.update(kw)
    return d

CHECKS = {
    "C19": {"level": "model_checking",
            "parts": [part("enum", "auth", "^TestVerif_C19$", timeout_quick=300, timeout_thorough=1800)]},
}
