"""Check configuration for ./check and gen_manifest.py: one file per property in
checks.d/<id>.py, each defining CHECK = {...}. Each part is one `go test`
invocation of an overlay-injected harness inside the rqlite module."""
import glob, os

def part(name, pkg, run, **kw):
    d = {"name": name, "pkg": pkg, "run": run}
    d.update(kw)
    return d

ENGINES = [
    {"name": "E-ENUM", "path": "/verif/harness", "kind_free_text": "bounded-exhaustive enumeration of inputs/programs/configurations, executed on the real code against a reference model or a differential SQLite oracle"},
    {"name": "E-SEQ", "path": "/verif/harness", "kind_free_text": "explicit-state breadth-first search over operation sequences on fresh real objects (replay prefix + 1 op), canonical state keys, reference model stepped alongside"},
    {"name": "E-SCHED", "path": "/verif/engine/vsched", "kind_free_text": "controlled cooperative scheduler over real goroutines in a testing/synctest bubble (fake clock) + preemption-bounded DFS over schedules; sync primitives rewritten by go/ast instrumentation of the current tree"},
    {"name": "E-CRASH", "path": "/verif/engine/vfs", "kind_free_text": "crash-image enumeration: directory image taken at every file-system mutation point of a history run on the real code, each image recovered by the real start-up path"},
    {"name": "E-CLUSTER", "path": "/verif/harness/store", "kind_free_text": "exhaustive operation/fault histories on live in-process nodes (fresh real Store per history) with schedule-independent oracles"},
]

NOT_APPLICABLE = {}

CHECKS = {}
_here = os.path.dirname(os.path.abspath(__file__))
for _f in sorted(glob.glob(os.path.join(_here, "checks.d", "C*.py"))):
    _ns = {"part": part}
    exec(compile(open(_f).read(), _f, "exec"), _ns)
    CHECKS[os.path.basename(_f)[:-3]] = _ns["CHECK"]

for _e in ENGINES:
    _e["serves_properties"] = sorted(p for p, c in CHECKS.items() if c.get("engine") == _e["name"])
