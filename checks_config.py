"""Per-property check configuration for ./check and gen_manifest.py. Each part
is one `go test` invocation of an overlay-injected harness inside the rqlite module."""

def part(name, pkg, run, **kw):
    d = {"name": name, "pkg": pkg, "run": run}
    d.update(kw)
    return d

ENGINES = [
    {"name": "E-ENUM", "path": "/verif/harness", "kind_free_text": "bounded-exhaustive enumeration of inputs/programs/configurations, executed on the real code against a reference model or a differential SQLite oracle", "serves_properties": []},
]

NOT_APPLICABLE = {}

CHECKS = {
    "C19": {"level": "model_checking", "engine": "E-ENUM",
            "technique": "exhaustive small-scope enumeration of credential files x queries on the real CredentialsStore vs reference rule",
            "text": "Every credentials file of up to 3 entries over a 5x4x5 field alphabet (including omitted fields and duplicate users) is loaded by the real store and asked all 60 (user,password,perm) queries; each decision is compared with the rule in the statement. Exhaustive within that scope (1,010,101 files, 60.6M decisions at thorough).",
            "note": "Scope bound: <=3 entries, 3 user names, 2 passwords, perms {x,y,all}. JSON decoding by encoding/json is trusted.",
            "parts": [part("enum", "auth", "^TestVerif_C19$", timeout_quick=300, timeout_thorough=1800)]},
}

for _e in ENGINES:
    _e["serves_properties"] = sorted(p for p, c in CHECKS.items() if c.get("engine") == _e["name"])
