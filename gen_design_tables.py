#!/usr/bin/env python3
"""Rewrites the generated regions of DESIGN.md (between <!-- BEGIN:x --> and <!-- END:x -->):
   asbuilt = one row per claimed check from checks.d + evidence/*.json; seeds = seeded/*/result.json."""
import glob, json, os, re, sys
sys.path.insert(0, os.path.dirname(os.path.abspath(__file__)))
from checks_config import CHECKS
ready = set(open('ready.txt').read().split())
rows = ['| Prop | Engine | Level | Parts | Quick: evaluations / states / transitions / distinct | Exhaustive | Known findings seen | Quick wall (s) |', '|---|---|---|---|---|---|---|---|']
for pid in sorted(CHECKS):
    if pid not in ready:
        continue
    c = CHECKS[pid]
    try:
        e = json.load(open('evidence/%s.json' % pid)); cv = e['coverage']
        nums = '%d / %d / %d / %d' % (cv['evaluations'], cv['states'], cv['transitions'], cv['distinct_nontrivial'])
        ex = 'yes' if cv.get('exhaustive') else 'no: ' + '; '.join(cv.get('caps_hit', []))[:80]
        kf = str(len(cv.get('known_findings_seen', [])))
        wall = '%.0f' % e['wall_s']
    except Exception as x:
        nums, ex, kf, wall = '(no evidence)', '', '', ''
    rows.append('| %s | %s | %s | %s | %s | %s | %s | %s |' % (pid, c.get('engine', 'E-ENUM'), c['level'], ', '.join(p['name'] for p in c['parts']), nums, ex, kf, wall))
asbuilt = '\n'.join(rows)

srows = ['| Seed | Changed file(s) | What it needs to manifest | Repository tests | Result |', '|---|---|---|---|---|']
caught = missed = 0
for rj in sorted(glob.glob('seeded/*/result.json')):
    r = json.load(open(rj)); m = json.load(open(os.path.join(os.path.dirname(rj), 'meta.json')))
    keys = []
    for c, v in r.get('checks', {}).items():
        if v.get('exit') == 1:
            k = (v.get('keys') or ['?'])[0].split(': ')[0].replace('key=', '')
            keys.append('%s `%s`' % (c, k))
    needs = re.sub(r'\s+', ' ', str(m.get('needs', '')))[:230]
    res = ('caught by ' + '; '.join(keys)) if r.get('detected') else '**not caught**'
    if r.get('history'):
        res += ' (missed by the check as first built; see 7.2)'
    if r.get('detected'): caught += 1
    else: missed += 1
    srows.append('| %s | %s | %s | %s | %s |' % (r['seed'], ', '.join(r.get('touched', [])), needs.replace('|', '/'), r.get('existing_tests'), res))
seeds = '%d seeded changes confirmed and kept; %d caught, %d not caught.\n\n' % (caught + missed, caught, missed) + '\n'.join(srows)

s = open('DESIGN.md').read()
for name, body in (('asbuilt', asbuilt), ('seeds', seeds)):
    pat = re.compile(r'(<!-- BEGIN:%s -->\n).*?(<!-- END:%s -->)' % (name, name), re.S)
    if not pat.search(s):
        print('marker missing:', name); continue
    s = pat.sub(lambda mm: mm.group(1) + body + '\n' + mm.group(2), s)
open('DESIGN.md', 'w').write(s)
print('tables written: %d checks, %d seeds' % (len(rows) - 2, caught + missed))
